//! Engine `deadlines` (property C08): sets up an exact (expiry - height) offset on real nodes and
//! records what the node did and at which height.  No judging happens here: the NDJSON it writes
//! is validated by TLC against spec/DeadlinesTrace.tla.
//!
//! Topology: A(0) - B(1) [- C(2)].  B is the node under observation: final recipient of an HTLC
//! from A (role "final", 2 nodes) or forwarder A -> B -> C (role "fwd", 3 nodes).  Channels are
//! non-anchor (HTLC transactions are broadcast by the monitor itself).  The harness owns the wire
//! (per-direction FIFO queues, a `silent` peer's messages are dropped), the chain (one block at a
//! time, the same transactions for every node that is given the block) and the miner (a broadcast
//! commitment transaction confirms `c1` blocks, an HTLC transaction `c2` blocks after it first
//! reached a broadcaster; the adversary's competing spend wins ties).
//!
//! Trace records: case, offer, show, forward, claim, resolve, bcast, block (with what it confirms), blocks (two or
//! more empty blocks in a row with nothing recorded in between: {"h": height of the last one, "n": how many}),
//! co (B sent splice_locked / channel_ready / announcement_signatures on this block), closed, restart, end, skip.
//!
//! usage: deadlines --scripts FILE --out TRACE [--run-offset N]
//! script (one JSON object per line):
//!   {"role":"final"|"fwd", "offu":Eu-h, "offd":Ed-h, "d":cltv_expiry_delta of B,
//!    "up":"honest"|"silent", "dn":"honest"|"silent"|"early"|"lastmoment"|"lastfail"|"onchain"|"hold",
//!    "x":int (C acts when h = Ed + x), "claim":int|null (final: claim_funds at deadline+claim),
//!    "c1":int, "c2":int, "wait":int (optional),
//!    "rsa":null|"gone"|"bcast", "rsk":int (optional: B is stopped and restarted from its persisted
//!    ChannelManager + ChannelMonitors `rsk` blocks after the downstream HTLC became unclaimable on chain
//!    ("gone": B's HTLC-less / dust commitment or its HTLC-timeout confirmed) / after B's commitment of the
//!    downstream channel reached the broadcaster ("bcast"))}
//! dn "dust": the forwarded amount is below the dust limit (no HTLC output in any commitment), C takes the
//! HTLC and never answers.  c1 above MAX_BLOCKS_FOR_CONF = a miner that starves B's commitment transaction.
//! The sender (A) builds the onion itself from the script: incoming expiry h + offu, outgoing expiry
//! h + offd, whatever B advertises (h = the height at which B looks at the HTLC).  `wait` blocks are
//! mined between A's commitment dance and B's decision (the HTLC was stuck upstream); an outgoing
//! expiry at or below the tip (offd <= 0) needs them, so wait defaults to max(0, 1 - offd).
//!
//! Other per-block work of the channel coinciding with a deadline block (optional fields):
//!   "co": "splice" (B splices funds out of the channel before the payment; the splice transaction is mined
//!         by the harness) | "open" (B opens a second channel with the same peer; its funding transaction
//!         is mined by the harness),
//!   "cos": "dn"|"up" (the channel / peer concerned: B-C or A-B), "cod": minimum depth every node asks for
//!   (1: channel_ready / splice_locked come out of transactions_confirmed; 6: out of best_block_updated),
//!   "con": which confirmation of that transaction is the block h + coh (h = the height at which B decides):
//!   con = cod: the block on which B emits splice_locked / channel_ready; cod = 1, con = 6: the block on which
//!   the announcement depth is reached.  Enough blocks are mined before the payment for that to be possible.
//!   "style": "best"|"txs"|"listen": how blocks are delivered to the nodes (Confirm with best_block_updated
//!   first, Confirm with transactions_confirmed first, Listen::block_connected).

use bitcoin::hashes::Hash as _;
use bitcoin::{Amount, OutPoint, Transaction, TxOut, Txid};
use lightning::chain::chaininterface::TransactionType;
use lightning::events::{ClosureReason, Event, HTLCHandlingFailureReason};
use lightning::ln::channelmanager::PaymentId;
use lightning::ln::functional_test_utils::*;
use lightning::ln::msgs::{self, BaseMessageHandler, ChannelMessageHandler, ErrorAction, MessageSendEvent};
use lightning::ln::outbound_payment::RecipientOnionFields;
use lightning::ln::splicing_tests::{initiate_splice_out, splice_channel};
use lightning::util::wallet_utils::WalletSourceSync;
use lightning::ln::types::ChannelId;
use lightning::routing::router::{Path, PaymentParameters, Route, RouteHop, RouteParameters};
use lightning::types::features::{ChannelFeatures, NodeFeatures};
use lightning::types::payment::{PaymentHash, PaymentPreimage};
use lightning::util::ser::Writeable;
use serde_json::{json, Value};
use std::collections::{HashMap, HashSet, VecDeque};
use std::panic::{catch_unwind, AssertUnwindSafe};
use std::sync::Mutex;
use vharness::trace::TraceWriter;

static LAST_PANIC: Mutex<String> = Mutex::new(String::new());

#[derive(Clone)]
enum Wire {
	Add(msgs::UpdateAddHTLC),
	Fulfill(msgs::UpdateFulfillHTLC),
	Fail(msgs::UpdateFailHTLC),
	Malformed(msgs::UpdateFailMalformedHTLC),
	Fee(msgs::UpdateFee),
	CS(Vec<msgs::CommitmentSigned>),
	RAA(msgs::RevokeAndACK),
	Reestablish(msgs::ChannelReestablish),
	Error(msgs::ErrorMessage),
	ChannelReady(msgs::ChannelReady),
	AnnSigs(msgs::AnnouncementSignatures),
	SpliceLocked(msgs::SpliceLocked),
	TxSignatures(msgs::TxSignatures),
	Other,
}

struct MemTx {
	tx: Transaction,
	node: usize,
	chan: &'static str,
	kind: &'static str,
	/// tip height at which it reached a broadcaster
	seen: u32,
	/// a commitment transaction with an output of exactly the forwarded HTLC's value
	htlc: bool,
	/// a set-up transaction (splice / funding of a second channel) is mined in exactly this block
	at: Option<u32>,
}

struct Net {
	nodes: Vec<Node<'static, 'static, 'static>>,
	queues: HashMap<(usize, usize), VecDeque<Wire>>,
	/// messages from and to a silent node are dropped
	silent: Vec<bool>,
	/// a held node's outgoing messages stay in the queue until it is released
	held: Vec<bool>,
	/// the payment under observation (a warm-up payment may be in flight too)
	test_hash: [u8; 32],
	up_id: Option<u64>,
	dn_id: Option<u64>,
	/// a frozen node is not given new blocks
	frozen: Vec<bool>,
	tip: Vec<u32>,
	height: u32,
	/// transactions of every block mined since the scenario started (for nodes catching up)
	history: Vec<(u32, Vec<Transaction>)>,
	mempool: Vec<MemTx>,
	spent: HashSet<OutPoint>,
	confirmed: HashSet<Txid>,
	conf_height: HashMap<Txid, u32>,
	commit_txids: HashSet<Txid>,
	log: Vec<Value>,
	chan_ids: Vec<ChannelId>,
	fundings: Vec<OutPoint>,
	/// funding outputs created by a splice of channel .1
	alt_fundings: Vec<(OutPoint, usize)>,
	/// set-up transactions (mined by the harness at a chosen height, whoever rebroadcasts them)
	setup_txids: HashSet<Txid>,
	scids: Vec<u64>,
	c1: u32,
	c2: u32,
	/// facts collected for the `end` record
	a_sent: bool,
	a_failed: bool,
	c_claimed_event: bool,
	c_paid_onchain: bool,
	dn_fulfilled: bool,
	last_reason: String,
	adversary: Option<usize>,
	preimage: [u8; 32],
	/// value of B's HTLC to C in satoshi
	dn_amt_sat: u64,
	/// height at which B's commitment of the downstream channel reached the broadcaster / at which the
	/// downstream HTLC became unclaimable on chain
	dn_bcast_h: Option<u32>,
	dn_gone_h: Option<u32>,
}

fn leak<T>(t: T) -> &'static T {
	Box::leak(Box::new(t))
}

impl Net {
	fn ev(&mut self, v: Value) {
		self.log.push(v);
	}
	fn idx_of(&self, pk: &bitcoin::secp256k1::PublicKey) -> usize {
		self.nodes.iter().position(|n| n.node.get_our_node_id() == *pk).expect("unknown peer")
	}
	fn chan_name(&self, c: &ChannelId) -> &'static str {
		if self.chan_ids.get(0) == Some(c) {
			"up"
		} else if self.chan_ids.get(1) == Some(c) {
			"dn"
		} else {
			"?"
		}
	}

	fn enqueue(&mut self, from: usize, to_pk: &bitcoin::secp256k1::PublicKey, w: Wire) {
		let to = self.idx_of(to_pk);
		// what B itself puts on the wire is an observation, whether or not the peer listens
		if from == 0 {
			if let Wire::Add(m) = &w {
				if m.payment_hash.0 == self.test_hash { self.up_id = Some(m.htlc_id); }
			}
		}
		if from == 1 {
			let (kind, chan, id) = match &w {
				Wire::Fulfill(m) => ("fulfill", self.chan_name(&m.channel_id), m.htlc_id),
				Wire::Fail(m) => ("fail", self.chan_name(&m.channel_id), m.htlc_id),
				Wire::Malformed(m) => ("fail", self.chan_name(&m.channel_id), m.htlc_id),
				Wire::Add(m) => ("add", self.chan_name(&m.channel_id), m.htlc_id),
				_ => ("", "", 0),
			};
			if kind == "add" {
				if let Wire::Add(m) = &w {
					if m.payment_hash.0 == self.test_hash {
						self.dn_id = Some(m.htlc_id);
						let h = self.height;
						self.ev(json!({"ev":"forward","h":h,"ed":m.cltv_expiry}));
					}
				}
			} else if !kind.is_empty() && chan == "up" && Some(id) == self.up_id {
				let h = self.height;
				let r = std::mem::take(&mut self.last_reason);
				self.ev(json!({"ev":"resolve","dir":"up","kind":kind,"h":h,"reason":r}));
			}
			// the other per-block duties of B's channels: what it sent and on which block
			let duty = match &w {
				Wire::SpliceLocked(m) => Some(("splice_locked", m.channel_id)),
				Wire::ChannelReady(m) => Some(("channel_ready", m.channel_id)),
				Wire::AnnSigs(m) => Some(("announcement_signatures", m.channel_id)),
				_ => None,
			};
			if let Some((what, cid)) = duty {
				let (h, c) = (self.height.max(self.tip[1]), self.chan_name(&cid));
				self.ev(json!({"ev":"co","what":what,"chan":c,"to":to,"h":h}));
			}
		}
		if self.silent[from] || self.silent[to] {
			return;
		}
		self.queues.entry((from, to)).or_default().push_back(w);
	}

	fn drain(&mut self) {
		for i in 0..self.nodes.len() {
			// events first: the failure reason of an HTLC is attached to the update_fail it causes
			let events = self.nodes[i].node.get_and_clear_pending_events();
			for e in events {
				self.on_event(i, e);
			}
			let evs = self.nodes[i].node.get_and_clear_pending_msg_events();
			for e in evs {
				match e {
					MessageSendEvent::UpdateHTLCs { node_id, updates, .. } => {
						for m in updates.update_add_htlcs { self.enqueue(i, &node_id, Wire::Add(m)); }
						for m in updates.update_fulfill_htlcs { self.enqueue(i, &node_id, Wire::Fulfill(m)); }
						for m in updates.update_fail_htlcs { self.enqueue(i, &node_id, Wire::Fail(m)); }
						for m in updates.update_fail_malformed_htlcs { self.enqueue(i, &node_id, Wire::Malformed(m)); }
						if let Some(m) = updates.update_fee { self.enqueue(i, &node_id, Wire::Fee(m)); }
						if !updates.commitment_signed.is_empty() {
							self.enqueue(i, &node_id, Wire::CS(updates.commitment_signed));
						}
					},
					MessageSendEvent::SendRevokeAndACK { node_id, msg } => self.enqueue(i, &node_id, Wire::RAA(msg)),
					MessageSendEvent::SendChannelReestablish { node_id, msg } => self.enqueue(i, &node_id, Wire::Reestablish(msg)),
					MessageSendEvent::HandleError { node_id, action } => match action {
						ErrorAction::SendErrorMessage { msg } => self.enqueue(i, &node_id, Wire::Error(msg)),
						ErrorAction::DisconnectPeer { msg: Some(msg) } => self.enqueue(i, &node_id, Wire::Error(msg)),
						_ => {},
					},
					MessageSendEvent::SendChannelUpdate { node_id, .. } => self.enqueue(i, &node_id, Wire::Other),
					MessageSendEvent::SendChannelReady { node_id, msg } => self.enqueue(i, &node_id, Wire::ChannelReady(msg)),
					MessageSendEvent::SendAnnouncementSignatures { node_id, msg } => self.enqueue(i, &node_id, Wire::AnnSigs(msg)),
					MessageSendEvent::SendSpliceLocked { node_id, msg } => self.enqueue(i, &node_id, Wire::SpliceLocked(msg)),
					MessageSendEvent::SendTxSignatures { node_id, msg } => self.enqueue(i, &node_id, Wire::TxSignatures(msg)),
					_ => {},
				}
			}
			let events = self.nodes[i].node.get_and_clear_pending_events();
			for e in events {
				self.on_event(i, e);
			}
			let txs: Vec<_> = self.nodes[i].tx_broadcaster.txn_broadcasted.lock().unwrap().drain(..).collect();
			let types: Vec<_> = self.nodes[i].tx_broadcaster.txn_types.lock().unwrap().drain(..).collect();
			for (k, tx) in txs.into_iter().enumerate() {
				self.on_broadcast(i, tx, types.get(k).cloned());
			}
		}
	}

	fn on_broadcast(&mut self, node: usize, tx: Transaction, ty: Option<TransactionType>) {
		let txid = tx.compute_txid();
		// a splice / funding transaction of the set-up is in the harness' hands (mined at the chosen height)
		if self.setup_txids.contains(&txid) {
			return;
		}
		let chan_of_type = match ty {
			Some(TransactionType::UnilateralClose { channel_id, .. }) | Some(TransactionType::Claim { channel_id, .. }) => self.chan_name(&channel_id),
			_ => "?",
		};
		let funding = tx.input.iter().find_map(|i| self.fundings.iter().position(|f| *f == i.previous_output)
			.or_else(|| self.alt_fundings.iter().find(|(f, _)| *f == i.previous_output).map(|(_, c)| *c)));
		let (kind, chan): (&'static str, &'static str) = if let Some(c) = funding {
			self.commit_txids.insert(txid);
			("commitment", if c == 0 { "up" } else { "dn" })
		} else if tx.input.iter().any(|i| self.commit_txids.contains(&i.previous_output.txid)) {
			// a spend that reveals the payment preimage is a claim, anything else is the timeout path
			let pre = self.preimage;
			let reveals = tx.input.iter().any(|i| i.witness.iter().any(|w| w.len() == 32 && w == &pre[..]));
			(if reveals { "htlc_success" } else { "htlc_timeout" }, chan_of_type)
		} else {
			("other", "?")
		};
		if kind == "other" {
			return;
		}
		// a rebroadcast / fee bump of something already pending keeps its original schedule
		let same = self.mempool.iter().position(|m| {
			m.node == node && m.at.is_none() && m.tx.input.iter().any(|i| tx.input.iter().any(|j| j.previous_output == i.previous_output))
		});
		if same.is_some() || self.confirmed.contains(&txid) {
			return;
		}
		if tx.input.iter().any(|i| self.spent.contains(&i.previous_output)) {
			return;
		}
		let h = self.height.max(self.tip[node]);
		let amt = self.dn_amt_sat;
		let htlc = kind == "commitment" && tx.output.iter().any(|o| o.value.to_sat() == amt);
		self.ev(json!({"ev":"bcast","node":node,"chan":chan,"kind":kind,"h":h,"locktime":tx.lock_time.to_consensus_u32(),"htlc":htlc}));
		if node == 1 && chan == "dn" && kind == "commitment" && self.dn_bcast_h.is_none() { self.dn_bcast_h = Some(h); }
		let seen = self.height;
		self.mempool.push(MemTx { tx, node, chan, kind, seen, htlc, at: None });
	}

	fn on_event(&mut self, i: usize, e: Event) {
		let h = self.height;
		match e {
			Event::PaymentClaimable { claim_deadline, .. } => {
				if i == 1 {
					self.ev(json!({"ev":"show","h":h,"deadline":claim_deadline.unwrap_or(0)}));
				}
			},
			Event::PaymentClaimed { .. } => {
				if i == 2 { self.c_claimed_event = true; }
			},
			Event::PaymentSent { payment_hash, .. } => {
				if i == 0 && payment_hash.0 == self.test_hash { self.a_sent = true; }
			},
			Event::PaymentFailed { payment_hash, .. } => {
				if i == 0 && payment_hash.map(|p| p.0) == Some(self.test_hash) { self.a_failed = true; }
			},
			Event::HTLCHandlingFailed { failure_reason, .. } => {
				if i == 1 {
					self.last_reason = match failure_reason {
						Some(HTLCHandlingFailureReason::Local { reason }) => format!("{:?}", reason).chars().take_while(|c| c.is_alphanumeric()).collect(),
						Some(HTLCHandlingFailureReason::Downstream) => "Downstream".to_string(),
						None => String::new(),
					};
				}
			},
			Event::ChannelClosed { channel_id, reason, .. } => {
				let c = self.chan_name(&channel_id);
				let r = match reason {
					ClosureReason::CounterpartyForceClosed { .. } => "CounterpartyForceClosed",
					ClosureReason::HolderForceClosed { .. } => "HolderForceClosed",
					ClosureReason::CommitmentTxConfirmed => "CommitmentTxConfirmed",
					ClosureReason::ProcessingError { .. } => "ProcessingError",
					ClosureReason::HTLCsTimedOut { .. } => "HTLCsTimedOut",
					_ => "Other",
				};
				let hh = self.tip[i];
				self.ev(json!({"ev":"closed","node":i,"chan":c,"reason":r,"h":hh}));
			},
			_ => {},
		}
	}

	fn deliver_one(&mut self, from: usize, to: usize) -> bool {
		let w = match self.queues.get_mut(&(from, to)).and_then(|q| q.pop_front()) {
			Some(w) => w,
			None => return false,
		};
		let from_pk = self.nodes[from].node.get_our_node_id();
		let dn_match = match &w {
			Wire::Fulfill(m) => Some(m.htlc_id) == self.dn_id,
			Wire::Fail(m) => Some(m.htlc_id) == self.dn_id,
			Wire::Malformed(m) => Some(m.htlc_id) == self.dn_id,
			_ => false,
		};
		if to == 1 && from == 2 && dn_match {
			let h = self.height;
			match &w {
				Wire::Fulfill(_) => {
					let open = self.chan_open(1, 1);
					if open { self.dn_fulfilled = true; }
					self.ev(json!({"ev":"resolve","dir":"dn","kind": if open {"fulfill"} else {"fulfill_ignored"},"h":h,"reason":""}))
				},
				Wire::Fail(_) | Wire::Malformed(_) => self.ev(json!({"ev":"resolve","dir":"dn","kind":"fail","h":h,"reason":""})),
				_ => {},
			}
		}
		let n = &self.nodes[to].node;
		match w {
			Wire::Add(m) => n.handle_update_add_htlc(from_pk, &m),
			Wire::Fulfill(m) => n.handle_update_fulfill_htlc(from_pk, m),
			Wire::Fail(m) => n.handle_update_fail_htlc(from_pk, &m),
			Wire::Malformed(m) => n.handle_update_fail_malformed_htlc(from_pk, &m),
			Wire::Fee(m) => n.handle_update_fee(from_pk, &m),
			Wire::CS(m) => {
				if m.len() == 1 { n.handle_commitment_signed(from_pk, &m[0]) } else { n.handle_commitment_signed_batch_test(from_pk, &m) }
			},
			Wire::RAA(m) => n.handle_revoke_and_ack(from_pk, &m),
			Wire::Reestablish(m) => n.handle_channel_reestablish(from_pk, &m),
			Wire::Error(m) => n.handle_error(from_pk, &m),
			Wire::ChannelReady(m) => n.handle_channel_ready(from_pk, &m),
			Wire::AnnSigs(m) => n.handle_announcement_signatures(from_pk, &m),
			Wire::SpliceLocked(m) => n.handle_splice_locked(from_pk, &m),
			Wire::TxSignatures(m) => n.handle_tx_signatures(from_pk, &m),
			Wire::Other => {},
		}
		self.drain();
		true
	}

	/// Deliver everything; nodes listed in `fwd` also process their pending HTLC forwards.
	fn pump(&mut self, fwd: &[usize]) {
		let n = self.nodes.len();
		self.drain();
		let mut guard = 0;
		loop {
			let mut any = false;
			for f in 0..n {
				for t in 0..n {
					if f != t && !self.held[f] {
						while self.deliver_one(f, t) {
							any = true;
							guard += 1;
							if guard > 500 { return; }
						}
					}
				}
			}
			for &i in fwd {
				if i < n && self.nodes[i].node.needs_pending_htlc_processing() {
					self.nodes[i].node.process_pending_htlc_forwards();
					self.drain();
					any = true;
					guard += 1;
				}
			}
			if !any || guard > 500 { break; }
		}
	}

	fn give_block(&mut self, i: usize, h: u32, txs: &[Transaction]) {
		assert_eq!(self.tip[i] + 1, h);
		let block = create_dummy_block(self.nodes[i].best_block_hash(), h, txs.to_vec());
		connect_block(&self.nodes[i], &block);
		self.tip[i] = h;
	}

	/// Mine the next block and hand it to every node that is not frozen.
	fn block(&mut self, fwd: &[usize]) {
		let newh = self.height + 1;
		let mut txs: Vec<Transaction> = Vec::new();
		let mut conf: Vec<Value> = Vec::new();
		// when may each pending transaction be mined?  honest: c1 / c2 blocks after the later of its
		// broadcast and the confirmation of its parent;  adversary: its timeout as soon as it is valid,
		// its preimage claim in the last block in which the honest competing spend could still be mined
		// (next block if there is no competitor); a second commitment transaction never confirms
		let adv = self.adversary;
		let mut due: Vec<Option<u32>> = Vec::new();
		for m in self.mempool.iter() {
			let parent_ok = m.kind == "commitment" || m.tx.input.iter().all(|i| self.confirmed.contains(&i.previous_output.txid));
			let ready = if !parent_ok { None } else {
				let pc = m.tx.input.iter().filter_map(|i| self.conf_height.get(&i.previous_output.txid)).max().cloned().unwrap_or(0);
				Some(m.seen.max(pc))
			};
			let delay = if m.kind == "commitment" { self.c1 } else { self.c2 };
			due.push(if m.at.is_some() { m.at } else { ready.map(|r| r + delay) });
		}
		for k in 0..self.mempool.len() {
			let m = &self.mempool[k];
			if Some(m.node) != adv || m.at.is_some() { continue; }
			if m.kind == "commitment" { due[k] = None; continue; }
			if due[k].is_none() { continue; }
			let rival = (0..self.mempool.len()).filter(|&j| self.mempool[j].node != m.node
				&& self.mempool[j].tx.input.iter().any(|i| m.tx.input.iter().any(|j2| j2.previous_output == i.previous_output)))
				.filter_map(|j| due[j]).min();
			// a timeout is most harmful as early as it is valid, a preimage claim as late as possible
			due[k] = Some(match rival { Some(r) if m.kind == "htlc_success" => r.max(newh), _ => newh });
		}
		let mut order: Vec<usize> = (0..self.mempool.len()).collect();
		order.sort_by_key(|&k| if Some(self.mempool[k].node) == adv { 0 } else { 1 });
		let mut taken: Vec<usize> = Vec::new();
		for k in order {
			let m = &self.mempool[k];
			match due[k] { Some(dh) if dh <= newh => {}, _ => continue }
			if m.tx.lock_time.is_block_height() && m.kind != "commitment" && m.at.is_none() && m.tx.lock_time.to_consensus_u32() >= newh { continue; }
			if m.tx.input.iter().any(|i| self.spent.contains(&i.previous_output)) { continue; }
			for i in m.tx.input.iter() { self.spent.insert(i.previous_output); }
			self.confirmed.insert(m.tx.compute_txid());
			self.conf_height.insert(m.tx.compute_txid(), newh);
			txs.push(m.tx.clone());
			conf.push(json!({"kind":m.kind,"node":m.node,"chan":m.chan,"htlc":m.htlc}));
			if m.node == 1 && m.chan == "dn" && self.dn_gone_h.is_none()
				&& ((m.kind == "commitment" && !m.htlc) || m.kind == "htlc_timeout") { self.dn_gone_h = Some(newh); }
			if m.kind == "htlc_success" && m.node == 2 { self.c_paid_onchain = true; }
			taken.push(k);
		}
		// drop what was mined and what it made invalid
		let spent = self.spent.clone();
		let mut k = 0;
		self.mempool.retain(|m| {
			let keep = !taken.contains(&k) && !m.tx.input.iter().any(|i| spent.contains(&i.previous_output));
			k += 1;
			keep
		});
		self.history.push((newh, txs.clone()));
		self.height = newh;
		self.ev(json!({"ev":"block","h":newh,"conf":conf}));
		for i in 0..self.nodes.len() {
			if !self.frozen[i] {
				self.catch_up(i);
			}
		}
		self.pump(fwd);
	}

	fn catch_up(&mut self, i: usize) {
		let hist: Vec<(u32, Vec<Transaction>)> = self.history.iter().filter(|(h, _)| *h > self.tip[i]).cloned().collect();
		for (h, txs) in hist {
			self.give_block(i, h, &txs);
			self.drain();
		}
	}

	/// Stop B and start it again from what it has persisted at this moment: the ChannelManager and every
	/// ChannelMonitor are written, read back (ChannelManager::read with the monitors), the monitors are
	/// given to a fresh ChainMonitor and the connection to A is re-established.
	fn restart_b(&mut self) {
		let i = 1usize;
		self.pump(&[0, 1]);
		let h = self.height;
		self.ev(json!({"ev":"restart","node":i,"h":h}));
		let pk = self.nodes[i].node.get_our_node_id();
		for j in 0..self.nodes.len() {
			if j == i { continue; }
			self.nodes[j].node.peer_disconnected(pk);
			self.queues.remove(&(i, j));
			self.queues.remove(&(j, i));
		}
		let mgr_bytes = self.nodes[i].node.encode();
		let mut mons: Vec<Vec<u8>> = Vec::new();
		for cid in self.nodes[i].chain_monitor.chain_monitor.list_monitors() {
			mons.push(self.nodes[i].chain_monitor.chain_monitor.get_monitor(cid).unwrap().encode());
		}
		let cfg = self.nodes[i].node.get_current_config();
		let persister: &'static lightning::util::test_utils::TestPersister = leak(lightning::util::test_utils::TestPersister::new());
		let ncm: &'static lightning::util::test_utils::TestChainMonitor<'static> = leak(lightning::util::test_utils::TestChainMonitor::new(
			Some(self.nodes[i].chain_source), self.nodes[i].tx_broadcaster, self.nodes[i].logger, self.nodes[i].fee_estimator,
			persister, self.nodes[i].keys_manager));
		self.nodes[i].chain_monitor = ncm;
		let mon_refs: Vec<&[u8]> = mons.iter().map(|m| &m[..]).collect();
		let new_mgr = leak(_reload_node(&self.nodes[i], cfg, &mgr_bytes, &mon_refs, None));
		self.nodes[i].node = new_mgr;
		self.nodes[i].onion_messenger.set_offers_handler(new_mgr);
		self.nodes[i].onion_messenger.set_async_payments_handler(new_mgr);
		self.nodes[i].chain_monitor.added_monitors.lock().unwrap().clear();
		self.drain();
		// A and B find each other again
		let a_pk = self.nodes[0].node.get_our_node_id();
		let init_b = msgs::Init { features: self.nodes[i].node.init_features(), networks: None, remote_network_address: None };
		let init_a = msgs::Init { features: self.nodes[0].node.init_features(), networks: None, remote_network_address: None };
		if !self.silent[0] {
			let _ = self.nodes[0].node.peer_connected(pk, &init_b, true);
			let _ = self.nodes[i].node.peer_connected(a_pk, &init_a, false);
		}
		self.pump(&[0, 1]);
	}

	/// restart B if the script asks for it at this point
	fn maybe_restart(&mut self, rsa: &str, rsk: i64, done: &mut bool) {
		if *done { return; }
		let base = match rsa { "gone" => self.dn_gone_h, "bcast" => self.dn_bcast_h, _ => None };
		if let Some(b) = base {
			if self.height as i64 >= b as i64 + rsk {
				*done = true;
				self.restart_b();
			}
		}
	}

	fn chan_open(&self, node: usize, c: usize) -> bool {
		self.nodes[node].node.list_channels().iter().any(|cd| cd.channel_id == self.chan_ids[c])
	}
}

fn build(n: usize, d: u16, depth: u32, style: &str) -> Net {
	let cfgs = leak(create_chanmon_cfgs(n));
	let node_cfgs = leak(create_node_cfgs(n, cfgs));
	let mut uc = test_legacy_channel_config();
	uc.channel_config.forwarding_fee_base_msat = 1000;
	uc.channel_config.forwarding_fee_proportional_millionths = 0;
	uc.channel_config.cltv_expiry_delta = d;
	uc.channel_handshake_config.minimum_depth = depth;
	let ucs: Vec<Option<lightning::util::config::UserConfig>> = (0..n).map(|_| Some(uc.clone())).collect();
	let mgrs = leak(create_node_chanmgrs(n, node_cfgs, &ucs));
	let nodes = create_network(n, node_cfgs, mgrs);
	for nd in nodes.iter() {
		*nd.connect_style.borrow_mut() = match style {
			"txs" => ConnectStyle::TransactionsFirst,
			"listen" => ConnectStyle::FullBlockViaListen,
			_ => ConnectStyle::BestBlockFirst,
		};
	}
	let mut chan_ids = Vec::new();
	let mut scids = Vec::new();
	let mut fundings = Vec::new();
	for i in 0..n - 1 {
		let (_, _, cid, _tx) = create_announced_chan_between_nodes_with_value(&nodes, i, i + 1, 1_000_000, 400_000_000);
		let scid = nodes[i].node.list_channels().iter().find(|c| c.channel_id == cid).unwrap().short_channel_id.unwrap();
		chan_ids.push(cid);
		fundings.push(nodes[i].node.list_channels().iter().find(|c| c.channel_id == cid).unwrap().funding_txo.unwrap().into_bitcoin_outpoint());
		scids.push(scid);
	}
	// same height everywhere
	let top = nodes.iter().map(|x| x.best_block_info().1).max().unwrap();
	for nd in nodes.iter() {
		let h = nd.best_block_info().1;
		if h < top { connect_blocks(nd, top - h); }
	}
	for nd in nodes.iter() {
		nd.node.get_and_clear_pending_msg_events();
		nd.node.get_and_clear_pending_events();
		nd.tx_broadcaster.txn_broadcasted.lock().unwrap().clear();
		nd.tx_broadcaster.txn_types.lock().unwrap().clear();
	}
	Net {
		nodes, queues: HashMap::new(), silent: vec![false; n], held: vec![false; n], test_hash: [0u8; 32], up_id: None, dn_id: None, frozen: vec![false; n], tip: vec![top; n], height: top,
		history: Vec::new(), mempool: Vec::new(), spent: HashSet::new(), confirmed: HashSet::new(), conf_height: HashMap::new(), commit_txids: HashSet::new(),
		log: Vec::new(), chan_ids, fundings, alt_fundings: Vec::new(), setup_txids: HashSet::new(), scids, c1: 1, c2: 1, a_sent: false, a_failed: false, c_claimed_event: false,
		c_paid_onchain: false, dn_fulfilled: false, last_reason: String::new(), adversary: None, preimage: [0u8; 32],
		dn_amt_sat: 0, dn_bcast_h: None, dn_gone_h: None,
	}
}

fn geti(s: &Value, k: &str, dflt: i64) -> i64 {
	s[k].as_i64().unwrap_or(dflt)
}

fn run_case(run: u64, s: &Value, net_out: &mut Option<Net>) {
	let role = s["role"].as_str().unwrap_or("final").to_string();
	let up = s["up"].as_str().unwrap_or("honest").to_string();
	let dn = s["dn"].as_str().unwrap_or("honest").to_string();
	let offu = geti(s, "offu", 60);
	let offd = geti(s, "offd", 0);
	let d = geti(s, "d", 48) as u16;
	let x = geti(s, "x", 0);
	let claim_rel = s["claim"].as_i64();
	let rsa = s["rsa"].as_str().unwrap_or("").to_string();
	let rsk = geti(s, "rsk", 0);
	let mut restarted = false;
	// blocks between the commitment of A's HTLC and B's decision; offu / offd are relative to the
	// height at which B decides
	let wait = if role == "fwd" && dn != "cell" { geti(s, "wait", 0).max(1 - offd).max(0) } else { 0 };
	let n = if role == "fwd" { 3 } else { 2 };
	// other per-block work of one of B's channels, placed relative to the height at which B decides
	let co = s["co"].as_str().unwrap_or("").to_string();
	let cos = if role == "final" { "up".to_string() } else { s["cos"].as_str().unwrap_or("dn").to_string() };
	let cod = if co.is_empty() { 6 } else { geti(s, "cod", 6).max(1) as u32 };
	let con = geti(s, "con", cod as i64).max(1);
	let coh = geti(s, "coh", 0);
	let style = s["style"].as_str().unwrap_or("best").to_string();
	*net_out = Some(build(n, d, cod, &style));
	let net = net_out.as_mut().unwrap();
	net.c1 = geti(s, "c1", 1) as u32;
	net.c2 = geti(s, "c2", 1) as u32;
	let c = lightning::verif::consts();
	net.ev(json!({"ev":"case","role":role,"up":up,"dn":dn,"d":d,"c1":net.c1,"c2":net.c2,"wait":wait,"h":net.height,
		"co":co,"cos":cos,"cod":cod,"con":con,"coh":coh,"style":style,
		"consts":{"CCB":c.cltv_claim_buffer,"LGP":c.latency_grace_period_blocks,"MBC":c.max_blocks_for_conf,
			"ARD":c.anti_reorg_delay,"HFB":c.htlc_fail_back_buffer,"MIND":c.min_cltv_expiry_delta,
			"MINF":c.min_final_cltv_expiry_delta,"FAR":c.cltv_far_far_away}}));
	if !co.is_empty() {
		let peer = if cos == "up" { 0usize } else { 2usize };
		let ci = if peer == 0 { 0usize } else { 1usize };
		let cid = net.chan_ids[ci];
		let tx = if co == "splice" {
			// B splices some of its funds out of the channel: negotiated and signed now, mined by the harness
			let outputs = vec![TxOut { value: Amount::from_sat(25_000), script_pubkey: net.nodes[1].wallet_source.get_change_script().unwrap() }];
			let contribution = initiate_splice_out(&net.nodes[1], &net.nodes[peer], cid, outputs).unwrap();
			let (tx, new_script) = splice_channel(&net.nodes[1], &net.nodes[peer], cid, contribution);
			let txid = tx.compute_txid();
			for (vout, o) in tx.output.iter().enumerate() {
				if o.script_pubkey == new_script { net.alt_fundings.push((OutPoint { txid, vout: vout as u32 }, ci)); }
			}
			tx
		} else {
			// B opens a second channel with the same peer: funded and signed now, mined by the harness
			create_chan_between_nodes_with_value_init(&net.nodes[1], &net.nodes[peer], 300_000, 100_000_000)
		};
		for nd in net.nodes.iter() {
			nd.tx_broadcaster.txn_broadcasted.lock().unwrap().clear();
			nd.tx_broadcaster.txn_types.lock().unwrap().clear();
			nd.chain_monitor.added_monitors.lock().unwrap().clear();
		}
		// enough blocks before the payment for the chosen confirmation to land on block h + coh
		let pre = (con - coh - wait as i64).max(0) as u32;
		let h_dec = net.height + pre + wait as u32;
		let at = (h_dec as i64 + coh - con + 1) as u32;
		net.setup_txids.insert(tx.compute_txid());
		let seen = net.height;
		net.mempool.push(MemTx { tx, node: 1, chan: if ci == 0 { "up" } else { "dn" }, kind: if co == "splice" { "splice" } else { "open" }, seen, htlc: false, at: Some(at) });
		net.drain();
		for _ in 0..pre {
			net.block(&[0, 1, 2]);
		}
		// a locked splice gives the channel a new short channel id
		for k in 0..net.chan_ids.len() {
			let cidk = net.chan_ids[k];
			if let Some(scid) = net.nodes[1].node.list_channels().iter().find(|cd| cd.channel_id == cidk).and_then(|cd| cd.short_channel_id) {
				net.scids[k] = scid;
			}
		}
	}

	// ---- the payment, with hand-chosen CLTVs
	// "dust": below the dust limit of every commitment transaction (354 sat + the HTLC transaction's fee)
	let amt = if dn == "dust" && role == "fwd" { 200_000u64 } else { 3_000_000u64 };
	net.dn_amt_sat = amt / 1000;
	let dst = n - 1;
	let mut pre = [0u8; 32];
	pre[..8].copy_from_slice(&run.to_be_bytes());
	pre[31] = 0x5a;
	let preimage = PaymentPreimage(pre);
	net.preimage = pre;
	let hash = PaymentHash(bitcoin::hashes::sha256::Hash::hash(&pre).to_byte_array());
	net.test_hash = hash.0;
	if dn == "cell" && role == "fwd" {
		// a warm-up payment with far-away expiries whose update_add_htlc + commitment_signed C takes but
		// does not answer: B now owes nothing and is owed a revoke_and_ack, so its next forward to C
		// has to wait in the holding cell
		let mut pre0 = pre;
		pre0[31] = 0x5b;
		let hash0 = PaymentHash(bitcoin::hashes::sha256::Hash::hash(&pre0).to_byte_array());
		let secret0 = net.nodes[2].node.create_inbound_payment_for_hash(hash0, Some(amt), 7200, None, None).unwrap().0;
		let mk = |i: usize, scid: u64, fee: u64, delta: u32, net: &Net| RouteHop {
			pubkey: net.nodes[i].node.get_our_node_id(),
			node_features: NodeFeatures::from_le_bytes(net.nodes[i].node.node_features().le_flags().to_vec()),
			short_channel_id: scid, channel_features: ChannelFeatures::empty(),
			fee_msat: fee, cltv_expiry_delta: delta, maybe_announced_channel: true,
		};
		let hops0 = vec![mk(1, net.scids[0], 1000, 200, net), mk(2, net.scids[1], amt, 400, net)];
		let rp0 = RouteParameters::from_payment_params_and_value(
			PaymentParameters::from_node_id(net.nodes[2].node.get_our_node_id(), 400).with_max_total_cltv_expiry_delta(100_000), amt);
		let route0 = Route { paths: vec![Path { hops: hops0, blinded_tail: None }], route_params: rp0 };
		if net.nodes[0].node.send_payment_with_route(route0, hash0, RecipientOnionFields::secret_only(secret0, amt), PaymentId(hash0.0)).is_err() {
			net.ev(json!({"ev":"skip","why":"warm-up send refused"}));
			return;
		}
		net.held[2] = true;
		net.pump(&[0, 1]);
	}
	let secret = net.nodes[dst].node.create_inbound_payment_for_hash(hash, Some(amt), 7200, None, None).unwrap().0;
	let mut hops = Vec::new();
	let final_delta: u32;
	if role == "fwd" {
		final_delta = (offd - 1 + wait).max(0) as u32;
		hops.push(RouteHop {
			pubkey: net.nodes[1].node.get_our_node_id(),
			node_features: NodeFeatures::from_le_bytes(net.nodes[1].node.node_features().le_flags().to_vec()),
			short_channel_id: net.scids[0], channel_features: ChannelFeatures::empty(),
			fee_msat: 1000, cltv_expiry_delta: (offu - offd).max(0) as u32, maybe_announced_channel: true,
		});
		hops.push(RouteHop {
			pubkey: net.nodes[2].node.get_our_node_id(),
			node_features: NodeFeatures::from_le_bytes(net.nodes[2].node.node_features().le_flags().to_vec()),
			short_channel_id: net.scids[1], channel_features: ChannelFeatures::empty(),
			fee_msat: amt, cltv_expiry_delta: final_delta, maybe_announced_channel: true,
		});
	} else {
		final_delta = (offu - 1).max(0) as u32;
		hops.push(RouteHop {
			pubkey: net.nodes[1].node.get_our_node_id(),
			node_features: NodeFeatures::from_le_bytes(net.nodes[1].node.node_features().le_flags().to_vec()),
			short_channel_id: net.scids[0], channel_features: ChannelFeatures::empty(),
			fee_msat: amt, cltv_expiry_delta: final_delta, maybe_announced_channel: true,
		});
	}
	let route_params = RouteParameters::from_payment_params_and_value(
		PaymentParameters::from_node_id(net.nodes[dst].node.get_our_node_id(), final_delta).with_max_total_cltv_expiry_delta(100_000), amt);
	let route = Route { paths: vec![Path { hops, blinded_tail: None }], route_params };
	let res = net.nodes[0].node.send_payment_with_route(route, hash, RecipientOnionFields::secret_only(secret, amt), PaymentId(hash.0));
	if res.is_err() {
		net.ev(json!({"ev":"skip","why":"send refused"}));
		return;
	}
	// A -> B: update_add_htlc + the commitment dance, B does not look at the onion yet
	net.drain();
	let eu = match net.queues.get(&(0, 1)).and_then(|q| q.iter().find_map(|w| if let Wire::Add(m) = w { Some(m.cltv_expiry) } else { None })) {
		Some(e) => e,
		None => { net.ev(json!({"ev":"skip","why":"no update_add"})); return; },
	};
	net.pump(&[]);
	for _ in 0..wait {
		net.block(&[]);
	}
	let h0 = net.height;
	let ed_asked = if role == "fwd" { (h0 as i64 + offd) as u32 } else { 0 };
	net.ev(json!({"ev":"offer","h":h0,"eu":eu,"ed":ed_asked}));
	// C goes silent before it ever answers B's update_add_htlc
	if dn == "early" { net.silent[2] = true; }
	// B decides
	let mut guard = 0;
	while net.nodes[1].node.needs_pending_htlc_processing() && guard < 5 {
		net.nodes[1].node.process_pending_htlc_forwards();
		net.drain();
		guard += 1;
	}
	let shown = net.log.iter().rev().find(|e| e["ev"] == "show").map(|e| e["deadline"].as_u64().unwrap() as u32);
	let forwarded = net.log.iter().any(|e| e["ev"] == "forward");

	if role == "final" {
		if let Some(dl) = shown {
			// blocks one at a time up to the chosen claim height (or past the deadline without claiming)
			let target: i64 = match claim_rel { Some(r) => dl as i64 + r, None => dl as i64 + 2 };
			while (net.height as i64) < target && !net.log.iter().any(|e| e["ev"] == "resolve" && e["dir"] == "up") {
				net.block(&[0, 1]);
			}
			while (net.height as i64) < target && claim_rel.is_some() {
				net.block(&[0, 1]);
			}
			if claim_rel.is_some() {
				if up == "silent" { net.silent[0] = true; net.adversary = Some(0); }
				let before = net.log.len();
				net.nodes[1].node.claim_funds(preimage);
				net.pump(&[0, 1]);
				let ok = net.log[before..].iter().any(|e| e["ev"] == "resolve" && e["dir"] == "up" && e["kind"] == "fulfill");
				let h = net.height;
				net.log.insert(before, json!({"ev":"claim","h":h,"ok":ok}));
				if up == "silent" && ok {
					// nobody answers: B has to win the race on chain
					let stop = eu + 4;
					while net.height < stop {
						net.block(&[0, 1]);
					}
				}
			}
		} else {
			net.pump(&[0, 1]);
		}
	} else if dn == "cell" {
		let rejected = net.log.iter().any(|e| e["ev"] == "resolve" && e["dir"] == "up");
		if !rejected && !forwarded {
			// the forward waits in B's holding cell; C answers when B's height is ed + x
			let release_at = ed_asked as i64 + x;
			while (net.height as i64) < release_at {
				net.block(&[0, 1, 2]);
			}
			net.held[2] = false;
			net.pump(&[0, 1, 2]);
			let has_test = net.nodes[2].node.list_channels().iter().any(|cd| cd.pending_inbound_htlcs.iter().any(|hh| hh.payment_hash.0 == hash.0));
			if has_test {
				net.nodes[2].node.claim_funds(preimage);
				net.pump(&[0, 1, 2]);
			}
			// whatever became of the waiting forward, A's HTLC has to be resolved in time: go on until it is
			// (or until A had every reason to give the channel up)
			let stop = eu + 6;
			while net.height < stop && !net.log.iter().any(|e| e["ev"] == "resolve" && e["dir"] == "up") {
				net.block(&[0, 1, 2]);
			}
		} else {
			net.held[2] = false;
			net.pump(&[0, 1, 2]);
		}
	} else {
		if forwarded {
			if dn != "early" {
				// C commits to the HTLC (and, as the final recipient, accepts or refuses it)
				if dn == "honest" {
					net.pump(&[0, 1, 2]);
				} else {
					// C completes the commitment dance, then stops talking
					net.pump(&[0, 1]);
					net.nodes[2].node.process_pending_htlc_forwards();
					net.silent[2] = true;
					net.drain();
				}
			}
			let c_has = net.nodes[2].node.list_channels().iter().any(|cd| !cd.pending_inbound_htlcs.is_empty());
			let ed = net.log.iter().find(|e| e["ev"] == "forward").map(|e| e["ed"].as_u64().unwrap() as u32).unwrap_or(0);
			match dn.as_str() {
				"honest" => {
					if c_has {
						if up == "silent" { net.silent[0] = true; net.adversary = Some(0); }
						net.nodes[2].node.claim_funds(preimage);
						net.pump(&[0, 1, 2]);
						if up == "silent" {
							let stop = eu + 4;
							while net.height < stop { net.block(&[0, 1, 2]); }
						}
					}
				},
				"hold" => {
					// C simply keeps the HTLC and follows the chain: it fails it back itself at its own deadline
					net.silent[2] = false;
					let stop = eu + 4;
					while net.height < stop && !net.log.iter().any(|e| e["ev"] == "resolve" && e["dir"] == "up") {
						net.block(&[0, 1, 2]);
					}
				},
				_ => {
					net.frozen[2] = true;
					net.adversary = Some(2);
					let act_at = ed as i64 + x;
					let stop = eu + 4;
					let mut acted = false;
					let mut caught_up = false;
					if dn == "onchain" {
						// C has the preimage but tells nobody
						net.nodes[2].node.claim_funds(preimage);
						net.drain();
					}
					while net.height < stop {
						if (dn == "lastmoment" || dn == "lastfail") && !acted && net.height as i64 >= act_at {
							acted = true;
							net.silent[2] = false;
							if up == "silent" { net.silent[0] = true; net.adversary = Some(0); }
							if dn == "lastmoment" { net.nodes[2].node.claim_funds(preimage); } else { net.nodes[2].node.fail_htlc_backwards(&hash); }
							net.pump(&[0, 1, 2]);
						}
						if net.log.iter().any(|e| e["ev"] == "resolve" && e["dir"] == "up") && up != "silent" {
							break;
						}
						net.block(&[0, 1]);
						net.maybe_restart(&rsa, rsk, &mut restarted);
						if dn == "onchain" && !caught_up && net.log.iter().any(|e| e["ev"] == "block" && e["conf"].as_array().unwrap().iter().any(|c| c["kind"] == "commitment" && c["chan"] == "dn")) {
							// C now looks at the chain and sweeps the HTLC with the preimage
							caught_up = true;
							net.frozen[2] = false;
							net.catch_up(2);
							net.pump(&[0, 1]);
						}
					}
					// two more blocks so that late reactions are seen
					for _ in 0..2 { net.block(&[0, 1]); }
				},
			}
		} else {
			net.pump(&[0, 1, 2]);
		}
	}
	net.pump(&[0, 1]);
	let ab_open = net.chan_open(0, 0) && net.chan_open(1, 0);
	let c_paid = net.c_paid_onchain || net.dn_fulfilled;
	let (h, a_sent, a_failed) = (net.height, net.a_sent, net.a_failed);
	net.ev(json!({"ev":"end","h":h,"a_sent":a_sent,"a_failed":a_failed,"c_paid":c_paid,"ab_open":ab_open}));
}

fn main() {
	let args: Vec<String> = std::env::args().collect();
	let mut scripts_path = None;
	let mut out = String::from("trace.ndjson");
	// the check splits a batch over several processes: run numbers continue across them
	let mut run_offset: u64 = 0;
	let mut i = 1;
	while i < args.len() {
		match args[i].as_str() {
			"--scripts" => { scripts_path = Some(args[i + 1].clone()); i += 1 },
			"--out" => { out = args[i + 1].clone(); i += 1 },
			"--run-offset" => { run_offset = args[i + 1].parse().unwrap(); i += 1 },
			_ => {},
		}
		i += 1;
	}
	let quiet = std::env::var("VERIF_VERBOSE").is_err();
	if quiet {
		// the test logger of the library prints every log line to stdout, the block helpers to stderr
		extern "C" { fn dup2(a: i32, b: i32) -> i32; }
		use std::os::fd::AsRawFd;
		if let Ok(f) = std::fs::OpenOptions::new().write(true).open("/dev/null") {
			unsafe { dup2(f.as_raw_fd(), 1); dup2(f.as_raw_fd(), 2); }
			std::mem::forget(f);
		}
	}
	std::panic::set_hook(Box::new(move |info| {
		let msg = format!("{}", info);
		*LAST_PANIC.lock().unwrap() = msg.chars().take(300).collect();
		if !quiet { eprintln!("PANIC {}", msg); }
	}));
	let mut scripts: Vec<Value> = Vec::new();
	if let Some(p) = scripts_path {
		for line in std::fs::read_to_string(p).unwrap().lines() {
			if !line.trim().is_empty() { scripts.push(serde_json::from_str(line).unwrap()); }
		}
	}
	let mut tw = TraceWriter::create(&out);
	let (mut panics, mut skipped, mut setup_fail) = (0usize, 0usize, 0usize);
	for (k, s) in scripts.iter().enumerate() {
		let run = k as u64 + 1 + run_offset;
		let mut net: Option<Net> = None;
		let res = catch_unwind(AssertUnwindSafe(|| run_case(run, s, &mut net)));
		let mut evs: Vec<Value> = match net.as_mut() { Some(n) => std::mem::take(&mut n.log), None => Vec::new() };
		std::mem::forget(net);
		if res.is_err() {
			if evs.is_empty() {
				setup_fail += 1;
			} else {
				panics += 1;
				let m = LAST_PANIC.lock().unwrap().clone();
				evs.push(json!({"ev":"panic","msg":m}));
			}
		}
		if evs.iter().any(|e| e["ev"] == "skip") { skipped += 1; }
		// two or more empty blocks in a row with nothing recorded in between are written as one record
		let mut merged: Vec<Value> = Vec::new();
		for e in evs.into_iter() {
			let empty = e["ev"] == "block" && e["conf"].as_array().map_or(false, |c| c.is_empty());
			if empty {
				if let Some(last) = merged.last_mut() {
					if last["ev"] == "blocks" || (last["ev"] == "block" && last["conf"].as_array().map_or(false, |c| c.is_empty())) {
						let n = if last["ev"] == "blocks" { last["n"].as_u64().unwrap() } else { 1 };
						*last = json!({"ev":"blocks","h":e["h"],"n":n + 1});
						continue;
					}
				}
			}
			merged.push(e);
		}
		let evs = merged;
		for (q, e) in evs.into_iter().enumerate() {
			let mut e = e;
			e["run"] = json!(run);
			e["seq"] = json!(q + 1);
			tw.emit(e);
		}
	}
	tw.flush();
	let summary = json!({"runs": scripts.len(), "events": tw.lines, "panics": panics, "skipped": skipped, "setup_failures": setup_fail});
	std::fs::write(format!("{}.summary", out), summary.to_string()).unwrap();
	eprintln!("SUMMARY {}", summary);
	std::process::exit(0);
}
