//! Engine `payreq` (C18): drives the real lightning-invoice (BOLT-11) and lightning::offers
//! (BOLT-12) code and records what it observed as NDJSON for TLC trace validation against
//! spec/PayReq.tla (PayReqTrace.tla).  The engine has no oracle: it only builds, serialises,
//! mutates, parses and verifies, and writes down the answers.
//!
//! * protocol scripts (from TLC, spec/PayReqMC.tla): parties with their own `ExpandedKey` and node
//!   key create offers / refunds in the three key modes, copies are altered, invoice requests and
//!   invoices are derived; afterwards every party calls every `verify_using_*` on every request
//!   and invoice, with every known nonce.
//! * table cases (from TLC): builder field-presence subsets for BOLT-11 invoices and BOLT-12
//!   offers / refunds; round trips; single-character / recomputed-checksum mutations (BOLT-11)
//!   and single-bit mutations of signed TLV streams (BOLT-12).
//! * numeric boundary cases (from TLC, fmt n11 / n12 / i12): the numbers of PayReq.tla part (iii)
//!   (timestamp, expiry, cltv delta, amount, description length; BOLT-12 amount, quantity,
//!   absolute expiry, created_at, relative expiry) through the builders -- the answer, accepted or
//!   refused, is recorded with the numbers -- and through strings / TLV streams assembled by hand
//!   (own base-32 / TLV writer, own signature, recomputed bech32 checksum), parsed under
//!   catch_unwind; what the accessors expose is recorded for the spec to compare.
//! * fuzz: arbitrary strings and byte streams into every parser.
//!
//! usage: payreq --out TRACE [--scripts FILE] [--cases FILE] [--seed S] [--muts K] [--full N]
//!               [--fuzz N] [--first-run R] [--sweeps FILE] [--sweep-bits MAX]
//! (values are seeded by `seed` and the run number; `--first-run R` numbers the first run R so that
//! a single script / case of a larger batch can be replayed with identical values)

use bitcoin::hashes::{sha256, Hash};
use bitcoin::secp256k1::{self, Keypair, Message, PublicKey, Secp256k1, SecretKey};
use bitcoin::{Network, PubkeyHash, ScriptHash, WPubkeyHash, WScriptHash, WitnessVersion};
use lightning::blinded_path::message::BlindedMessagePath;
use lightning::blinded_path::payment::{BlindedPayInfo, BlindedPaymentPath};
use lightning::blinded_path::BlindedHop;
use lightning::ln::channelmanager::PaymentId;
use lightning::ln::inbound_payment::ExpandedKey;
use lightning::offers::invoice::{Bolt12Invoice, UnsignedBolt12Invoice};
use lightning::offers::invoice_request::{InvoiceRequest, InvoiceRequestVerifiedFromOffer};
use lightning::offers::nonce::Nonce;
use lightning::offers::offer::{MetadataStrategy, Offer, OfferBuilder, Quantity};
use lightning::offers::refund::{Refund, RefundBuilder};
use lightning::offers::static_invoice::{StaticInvoice, StaticInvoiceBuilder};
use lightning::sign::EntropySource;
use lightning::types::features::BlindedHopFeatures;
use lightning::types::payment::PaymentHash;
use lightning::util::ser::Writeable;
use lightning_invoice::{
	Bolt11Invoice, Bolt11InvoiceDescription, Bolt11InvoiceDescriptionRef, Currency, Description, Fallback, InvoiceBuilder,
	PaymentSecret, RouteHint, RouteHintHop, RoutingFees, Sha256, SignedRawBolt11Invoice,
	MAX_TIMESTAMP,
};
use rand::rngs::StdRng;
use rand::seq::SliceRandom;
use rand::{Rng, SeedableRng};
use serde_json::{json, Value};
use std::collections::BTreeMap;
use std::num::NonZeroU64;
use std::panic::{catch_unwind, AssertUnwindSafe};
use std::sync::atomic::{AtomicU64, Ordering};
use std::time::Duration;
use vharness::trace::TraceWriter;

type Secp = Secp256k1<secp256k1::All>;
const CREATED_AT: u64 = 1_790_000_000; // fixed "now" handed to the no_std builders
const FAR_FUTURE: u64 = 4_000_000_000; // offer / refund expiry well after the wall clock
const MAX_VALUE_MSAT: u64 = 21_000_000_0000_0000_000;

// ------------------------------------------------------------------------------------------------
// small helpers

fn r32(rng: &mut StdRng) -> [u8; 32] {
	let mut b = [0u8; 32];
	rng.fill(&mut b);
	b
}

fn rand_sk(rng: &mut StdRng) -> SecretKey {
	loop {
		if let Ok(k) = SecretKey::from_slice(&r32(rng)) {
			return k;
		}
	}
}

fn rand_pk(rng: &mut StdRng, secp: &Secp) -> PublicKey {
	PublicKey::from_secret_key(secp, &rand_sk(rng))
}

/// a value of a fixed-width numeric field: its boundaries as often as an arbitrary value
fn edge(rng: &mut StdRng, max: u64) -> u64 {
	match rng.gen_range(0..6) {
		0 => 0,
		1 => 1,
		2 => max - 1,
		3 => max,
		_ => rng.gen_range(0..=max),
	}
}

fn rand_text(rng: &mut StdRng, max: usize) -> String {
	const WORDS: [&str; 12] = [
		"coffee", "large", "tea", "ナンセンス", "1 cup", "refund", "for", "#42", "ünï", "x", "β", "order",
	];
	let n = rng.gen_range(0..=max);
	let mut s = String::new();
	while s.chars().count() < n {
		s.push_str(WORDS[rng.gen_range(0..WORDS.len())]);
		s.push(' ');
	}
	s.chars().take(n).collect()
}

struct Ent {
	seed: u64,
	ctr: AtomicU64,
}
impl EntropySource for Ent {
	fn get_secure_random_bytes(&self) -> [u8; 32] {
		let c = self.ctr.fetch_add(1, Ordering::SeqCst);
		let mut v = self.seed.to_be_bytes().to_vec();
		v.extend_from_slice(&c.to_be_bytes());
		sha256::Hash::hash(&v).to_byte_array()
	}
}

/// One party: its own key material (ExpandedKey), node key and entropy.
struct Party {
	ek: ExpandedKey,
	pk: PublicKey,
	kp: Keypair,
	ent: Ent,
}

fn party(secp: &Secp, seed: u64, n: u64) -> Party {
	let mut rng = StdRng::seed_from_u64(seed.wrapping_mul(1_000_003).wrapping_add(n * 7919 + 13));
	let ek = ExpandedKey::new(r32(&mut rng));
	let sk = rand_sk(&mut rng);
	let kp = Keypair::from_secret_key(secp, &sk);
	Party { ek, pk: kp.public_key(), kp, ent: Ent { seed: rng.gen(), ctr: AtomicU64::new(0) } }
}

fn msg_path(rng: &mut StdRng, secp: &Secp) -> BlindedMessagePath {
	let hops = (0..rng.gen_range(1..=3))
		.map(|_| BlindedHop {
			blinded_node_id: rand_pk(rng, secp),
			encrypted_payload: (0..rng.gen_range(20..60)).map(|_| rng.gen()).collect(),
		})
		.collect();
	BlindedMessagePath::from_blinded_path(rand_pk(rng, secp), rand_pk(rng, secp), hops)
}

fn pay_paths(rng: &mut StdRng, secp: &Secp, n: usize) -> Vec<BlindedPaymentPath> {
	(0..n)
		.map(|_| {
			let hops = (0..rng.gen_range(1..=3))
				.map(|_| BlindedHop {
					blinded_node_id: rand_pk(rng, secp),
					encrypted_payload: (0..rng.gen_range(20..60)).map(|_| rng.gen()).collect(),
				})
				.collect();
			BlindedPaymentPath::from_blinded_path_and_payinfo(
				rand_pk(rng, secp),
				rand_pk(rng, secp),
				hops,
				BlindedPayInfo {
					fee_base_msat: edge(rng, u32::MAX as u64) as u32,
					fee_proportional_millionths: edge(rng, u32::MAX as u64) as u32,
					cltv_expiry_delta: edge(rng, u16::MAX as u64) as u16,
					htlc_minimum_msat: rng.gen_range(0..1000),
					htlc_maximum_msat: rng.gen_range(1_000_000..u64::MAX / 2),
					features: BlindedHopFeatures::empty(),
				},
			)
		})
		.collect()
}

// ------------------------------------------------------------------------------------------------
// TLV stream editing (BigSize type, BigSize length, value)

fn read_bigsize(b: &[u8], pos: &mut usize) -> Option<u64> {
	let f = *b.get(*pos)?;
	*pos += 1;
	let n = match f {
		0xfd => 2,
		0xfe => 4,
		0xff => 8,
		_ => return Some(f as u64),
	};
	let s = b.get(*pos..*pos + n)?;
	*pos += n;
	let mut v = 0u64;
	for x in s {
		v = (v << 8) | *x as u64;
	}
	Some(v)
}

fn write_bigsize(v: u64, out: &mut Vec<u8>) {
	if v < 0xfd {
		out.push(v as u8);
	} else if v <= 0xffff {
		out.push(0xfd);
		out.extend_from_slice(&(v as u16).to_be_bytes());
	} else if v <= 0xffff_ffff {
		out.push(0xfe);
		out.extend_from_slice(&(v as u32).to_be_bytes());
	} else {
		out.push(0xff);
		out.extend_from_slice(&v.to_be_bytes());
	}
}

type Recs = Vec<(u64, Vec<u8>)>;

fn tlv_parse(b: &[u8]) -> Option<Recs> {
	let mut pos = 0;
	let mut recs = Vec::new();
	while pos < b.len() {
		let t = read_bigsize(b, &mut pos)?;
		let l = read_bigsize(b, &mut pos)? as usize;
		let v = b.get(pos..pos.checked_add(l)?)?.to_vec();
		pos += l;
		recs.push((t, v));
	}
	Some(recs)
}

fn tlv_ser(recs: &Recs) -> Vec<u8> {
	let mut out = Vec::new();
	for (t, v) in recs {
		write_bigsize(*t, &mut out);
		write_bigsize(v.len() as u64, &mut out);
		out.extend_from_slice(v);
	}
	out
}

fn tlv_get(recs: &Recs, t: u64) -> Option<&Vec<u8>> {
	recs.iter().find(|r| r.0 == t).map(|r| &r.1)
}

fn tlv_set(recs: &mut Recs, t: u64, v: Vec<u8>) {
	if let Some(r) = recs.iter_mut().find(|r| r.0 == t) {
		r.1 = v;
	} else {
		let at = recs.iter().position(|r| r.0 > t).unwrap_or(recs.len());
		recs.insert(at, (t, v));
	}
}

fn tu64(v: u64) -> Vec<u8> {
	// HighZeroBytesDroppedBigSize
	let b = v.to_be_bytes();
	let skip = b.iter().take_while(|x| **x == 0).count();
	b[skip..].to_vec()
}

fn enc<T: Writeable>(t: &T) -> Vec<u8> {
	t.encode()
}

/// Alter one unsigned TLV stream (offer, refund or the echoed request inside an invoice).
/// `cls`: "field" = a committed content field, "commit" = the commitment itself (metadata /
/// derived key).  `layer`: 'o' offer-level fields, 'p' payer-level fields.  Returns candidates in
/// seeded order; the caller takes the first one the library parses.
fn alterations(
	recs: &Recs, cls: &str, layer: char, rng: &mut StdRng, secp: &Secp,
) -> Vec<(String, Recs)> {
	let mut out: Vec<(String, Recs)> = Vec::new();
	if cls == "field"
		&& layer == 'o'
		&& tlv_get(recs, 4).is_none()
		&& std::env::var("PAYREQ_PROBE_OFFER_METADATA").is_ok()
	{
		// diagnostic only (never set by the check): the issuer's own opaque metadata field
		let mut r = recs.clone();
		tlv_set(&mut r, 4, vec![7u8; 20]);
		return vec![("offer_metadata_added".to_string(), r)];
	}
	if cls == "bit" {
		// one single bit of one TLV value (request-level records only: an invoice's own fields are
		// the responder's to choose); keys -- and their parity byte -- get extra weight
		let idx: Vec<usize> =
			(0..recs.len()).filter(|i| recs[*i].0 < 160 && !recs[*i].1.is_empty()).collect();
		let keys: Vec<usize> = idx.iter().copied().filter(|i| recs[*i].1.len() == 33).collect();
		for _ in 0..48 {
			let (i, byte, bit) = if !keys.is_empty() && rng.gen_bool(0.3) {
				let i = *keys.choose(rng).unwrap();
				if rng.gen_bool(0.5) { (i, 0, 0) } else { (i, rng.gen_range(0..33), rng.gen_range(0..8)) }
			} else {
				let i = *idx.choose(rng).unwrap();
				(i, rng.gen_range(0..recs[i].1.len()), rng.gen_range(0..8))
			};
			let mut r = recs.clone();
			r[i].1[byte] ^= 1 << bit;
			out.push((format!("bit:t{}:{}:{}", recs[i].0, byte, bit), r));
		}
		return out;
	}
	let mut with = |name: &str, t: u64, v: Vec<u8>| {
		let mut r = recs.clone();
		tlv_set(&mut r, t, v);
		out.push((name.to_string(), r));
	};
	if cls == "field" {
		if layer == 'o' {
			if let Some(a) = tlv_get(recs, 8) {
				let mut x = 0u64;
				for b in a {
					x = (x << 8) | *b as u64;
				}
				let y = if x > 1 && rng.gen_bool(0.5) { x - 1 } else { x / 2 + 7 };
				with("offer_amount", 8, tu64(if y == x { x + 1 } else { y }));
			}
			with("offer_description", 10, format!("{}!", rand_text(rng, 12)).into_bytes());
			with("offer_issuer", 18, format!("issuer {}", rng.gen::<u16>()).into_bytes());
			with("offer_absolute_expiry", 14, tu64(FAR_FUTURE + rng.gen_range(1..1000)));
			if tlv_get(recs, 16).is_none() {
				with("offer_paths_added", 16, enc(&msg_path(rng, secp)));
			} else {
				let mut v = tlv_get(recs, 16).unwrap().clone();
				let k = v.len() - 1 - rng.gen_range(0..8);
				v[k] ^= 1 << rng.gen_range(0..8);
				with("offer_paths_payload_bit", 16, v);
			}
			if tlv_get(recs, 20).is_none() {
				with("offer_quantity_max", 20, tu64(rng.gen_range(2..10)));
			}

		} else {
			if let Some(a) = tlv_get(recs, 82) {
				if tlv_get(recs, 22).is_none() && tlv_get(recs, 160).is_none() {
					// refund amount (for an invoice the invoice amount must agree, so leave it)
					let mut x = 0u64;
					for b in a {
						x = (x << 8) | *b as u64;
					}
					with("refund_amount", 82, tu64(x / 2 + 3));
				}
			}
			with("payer_note", 89, format!("note {}", rand_text(rng, 10)).into_bytes());
			if tlv_get(recs, 22).is_none() {
				// refund: description / issuer / expiry are payer-level content
				with("refund_description", 10, format!("{}?", rand_text(rng, 12)).into_bytes());
				with("refund_issuer", 18, format!("issuer {}", rng.gen::<u16>()).into_bytes());
				with("refund_absolute_expiry", 14, tu64(FAR_FUTURE + rng.gen_range(1..1000)));
			} else {
				// echoed request: offer-level content is covered by the payer commitment too
				with("echo_offer_description", 10, format!("{}!", rand_text(rng, 12)).into_bytes());
				with("echo_offer_issuer", 18, format!("issuer {}", rng.gen::<u16>()).into_bytes());
			}
		}
	} else {
		// "commit"
		let (mt, kt) = if layer == 'o' { (4u64, 22u64) } else { (0u64, 88u64) };
		if let Some(m) = tlv_get(recs, mt) {
			if !m.is_empty() {
				let mut v = m.clone();
				let k = rng.gen_range(0..v.len());
				v[k] ^= 1 << rng.gen_range(0..8);
				with("metadata_bit", mt, v);
			}
		}
		let derived_key = match tlv_get(recs, mt) {
			None => true,
			Some(m) => m.len() == if layer == 'o' { 16 } else { 48 },
		};
		if derived_key && tlv_get(recs, kt).is_some() {
			with("derived_key_replaced", kt, rand_pk(rng, secp).serialize().to_vec());
		}
	}
	out.shuffle(rng);
	out
}

// ------------------------------------------------------------------------------------------------
// BOLT-12 builders

#[derive(Clone, Debug)]
struct OfferOpts {
	chain: u8, // 0 default (bitcoin), 1 testnet only, 2 bitcoin + testnet
	amount: Option<u64>,
	desc: Option<String>,
	expiry: Option<u64>,
	issuer: Option<String>,
	paths: usize,
	qty: u8, // 0 one, 1 bounded, 2 unbounded
	qty_max: u64,
	explicit_md: Option<Vec<u8>>,
}

fn random_offer_opts(rng: &mut StdRng, mode: &str) -> OfferOpts {
	OfferOpts {
		chain: *[0u8, 0, 1, 2].choose(rng).unwrap(),
		amount: if rng.gen_bool(0.7) { Some(rng.gen_range(1..2_000_000_000)) } else { None },
		desc: if rng.gen_bool(0.6) { Some(rand_text(rng, 30)) } else { None },
		expiry: if rng.gen_bool(0.4) { Some(FAR_FUTURE + rng.gen_range(0..100_000)) } else { None },
		issuer: if rng.gen_bool(0.4) { Some(rand_text(rng, 15)) } else { None },
		paths: match mode {
			"path" => rng.gen_range(1..=2),
			"meta" => 0,
			_ => rng.gen_range(0..=1),
		},
		qty: *[0u8, 0, 1, 2].choose(rng).unwrap(),
		qty_max: rng.gen_range(1..20),
		explicit_md: if mode == "explicit" && rng.gen_bool(0.4) {
			let n = *[0usize, 1, 16, 32, 48, 80].choose(rng).unwrap();
			Some((0..n).map(|_| rng.gen()).collect())
		} else {
			None
		},
	}
}

fn apply_offer_opts<'a, M: MetadataStrategy, T: secp256k1::Signing>(
	mut b: OfferBuilder<'a, M, T>, o: &OfferOpts, rng: &mut StdRng, secp: &Secp,
) -> OfferBuilder<'a, M, T> {
	match o.chain {
		1 => b = b.chain(Network::Testnet),
		2 => b = b.chain(Network::Bitcoin).chain(Network::Testnet),
		_ => {},
	}
	if let Some(a) = o.amount {
		b = b.amount_msats(a);
	}
	if let Some(d) = &o.desc {
		b = b.description(d.clone());
	}
	if let Some(e) = o.expiry {
		b = b.absolute_expiry(Duration::from_secs(e));
	}
	if let Some(i) = &o.issuer {
		b = b.issuer(i.clone());
	}
	for _ in 0..o.paths {
		b = b.path(msg_path(rng, secp));
	}
	match o.qty {
		1 => b = b.supported_quantity(Quantity::Bounded(NonZeroU64::new(o.qty_max.max(1)).unwrap())),
		2 => b = b.supported_quantity(Quantity::Unbounded),
		_ => {},
	}
	b
}

fn create_offer(
	p: &Party, mode: &str, o: &OfferOpts, rng: &mut StdRng, secp: &Secp,
) -> Result<(Offer, Nonce), String> {
	let nonce = Nonce::from_entropy_source(&p.ent);
	let offer = if mode == "explicit" {
		let mut b = OfferBuilder::new(p.pk);
		if let Some(md) = &o.explicit_md {
			b = b.metadata(md.clone()).map_err(|e| format!("{:?}", e))?;
		}
		apply_offer_opts(b, o, rng, secp).build()
	} else {
		let b = OfferBuilder::deriving_signing_pubkey(p.pk, &p.ek, nonce, secp);
		apply_offer_opts(b, o, rng, secp).build()
	};
	offer.map(|x| (x, nonce)).map_err(|e| format!("{:?}", e))
}

fn create_invreq(
	p: &Party, offer: &Offer, rng: &mut StdRng, secp: &Secp,
) -> Result<InvoiceRequest, String> {
	let nonce = Nonce::from_entropy_source(&p.ent);
	let e = |e| format!("{:?}", e);
	let mut b = offer.request_invoice(&p.ek, nonce, secp, PaymentId(r32(rng))).map_err(e)?;
	let btc = bitcoin::constants::ChainHash::using_genesis_block(Network::Bitcoin);
	if !offer.supports_chain(btc) || (offer.chains().len() > 1 && rng.gen_bool(0.5)) {
		b = b.chain(Network::Testnet).map_err(e)?;
	}
	let q = if offer.expects_quantity() {
		let q = match offer.supported_quantity() {
			Quantity::Bounded(n) => rng.gen_range(1..=n.get().min(5)),
			Quantity::Unbounded => rng.gen_range(1..=5),
			Quantity::One => 1,
		};
		Some(q)
	} else {
		None
	};
	let offer_msat = match offer.amount() {
		Some(lightning::offers::offer::Amount::Bitcoin { amount_msats }) => Some(amount_msats),
		_ => None,
	};
	let q = match (q, offer_msat) {
		(Some(q), Some(a)) if a.checked_mul(q).map_or(true, |t| t > MAX_VALUE_MSAT) => Some(1),
		(q, _) => q,
	};
	if let Some(q) = q {
		b = b.quantity(q).map_err(e)?;
	}
	match offer_msat {
		None => b = b.amount_msats(rng.gen_range(1..1_000_000_000)).map_err(e)?,
		Some(a) => {
			let total = a * q.unwrap_or(1);
			if rng.gen_bool(0.3) && total < MAX_VALUE_MSAT / 2 {
				b = b.amount_msats(total + rng.gen_range(0..1000)).map_err(e)?;
			}
		},
	}
	if rng.gen_bool(0.4) {
		b = b.payer_note(rand_text(rng, 20));
	}
	b.build_and_sign().map_err(e)
}

struct InvOpts {
	npaths: usize,
	rel_expiry: Option<u32>,
	fallbacks: u8,
	mpp: bool,
}

fn random_inv_opts(rng: &mut StdRng) -> InvOpts {
	InvOpts {
		npaths: rng.gen_range(1..=2),
		rel_expiry: if rng.gen_bool(0.5) { Some(rng.gen()) } else { None },
		fallbacks: rng.gen_range(0..3),
		mpp: rng.gen_bool(0.5),
	}
}

macro_rules! apply_inv_opts {
	($b: expr, $o: expr, $rng: expr) => {{
		let mut b = $b;
		if let Some(e) = $o.rel_expiry {
			b = b.relative_expiry(e);
		}
		for k in 0..$o.fallbacks {
			if k == 0 {
				b = b.fallback_v0_p2wpkh(&WPubkeyHash::from_byte_array({
					let mut x = [0u8; 20];
					$rng.fill(&mut x);
					x
				}));
			} else {
				b = b.fallback_v0_p2wsh(&WScriptHash::from_byte_array(r32($rng)));
			}
		}
		if $o.mpp {
			b = b.allow_mpp();
		}
		b
	}};
}

fn sign_unsigned(
	u: UnsignedBolt12Invoice, kp: &Keypair, secp: &Secp,
) -> Result<Bolt12Invoice, String> {
	u.sign(|m: &UnsignedBolt12Invoice| {
		Ok(secp.sign_schnorr_no_aux_rand(m.tagged_hash().as_digest(), kp))
	})
	.map_err(|e| format!("sign {:?}", e))
}

/// The offer's creator answers an invoice request.  `nonce`: the nonce of the offer when it was
/// built with a blinded path (delivered through the path's context in a real node).
fn respond(
	p: &Party, invreq: &InvoiceRequest, mode: &str, nonce: Option<Nonce>, io: &InvOpts,
	rng: &mut StdRng, secp: &Secp,
) -> Result<Bolt12Invoice, String> {
	let e = |e| format!("{:?}", e);
	let paths = pay_paths(rng, secp, io.npaths);
	let hash = PaymentHash(r32(rng));
	let at = Duration::from_secs(CREATED_AT);
	if mode == "path" {
		let v = invreq
			.clone()
			.verify_using_recipient_data(nonce.ok_or("no nonce")?, &p.ek, secp)
			.map_err(|()| "request not verified: no signing keys".to_string())?;
		match v {
			InvoiceRequestVerifiedFromOffer::DerivedKeys(v) => {
				let b = v.respond_using_derived_keys_no_std(paths, hash, at).map_err(e)?;
				apply_inv_opts!(b, io, rng).build_and_sign(secp).map_err(e)
			},
			InvoiceRequestVerifiedFromOffer::ExplicitKeys(_) => Err("no derived keys".into()),
		}
	} else {
		let verified = if mode == "meta" {
			invreq.clone().verify_using_metadata(&p.ek, secp).ok()
		} else {
			None
		};
		let unsigned = match verified {
			Some(InvoiceRequestVerifiedFromOffer::ExplicitKeys(v)) => {
				let b = v.respond_with_no_std(paths, hash, at).map_err(e)?;
				apply_inv_opts!(b, io, rng).build().map_err(e)?
			},
			_ => {
				let b = invreq.respond_with_no_std(paths, hash, at).map_err(e)?;
				apply_inv_opts!(b, io, rng).build().map_err(e)?
			},
		};
		sign_unsigned(unsigned, &p.kp, secp)
	}
}

/// A responder that echoes an altered copy of the request in a validly signed invoice.
fn tamper_invoice(
	p: &Party, honest: &Bolt12Invoice, cls: &str, rng: &mut StdRng, secp: &Secp,
) -> Result<(Bolt12Invoice, String), String> {
	let mut recs = tlv_parse(&enc(honest)).ok_or("tlv")?;
	recs.retain(|r| !(240..=1000).contains(&r.0));
	for (name, r) in alterations(&recs, cls, 'p', rng, secp) {
		if let Ok(u) = UnsignedBolt12Invoice::try_from(tlv_ser(&r)) {
			if let Ok(inv) = sign_unsigned(u, &p.kp, secp) {
				return Ok((inv, name));
			}
		}
	}
	Err("no alteration of the echoed request was accepted by the invoice parser".into())
}

#[derive(Clone, Debug)]
struct RefundOpts {
	amount: u64,
	desc: String,
	expiry: Option<u64>,
	issuer: Option<String>,
	paths: usize,
	testnet: bool,
	qty: Option<u64>,
	note: Option<String>,
	explicit_md: Vec<u8>,
}

fn random_refund_opts(rng: &mut StdRng, mode: &str) -> RefundOpts {
	RefundOpts {
		amount: rng.gen_range(0..2_000_000_000),
		desc: rand_text(rng, 20),
		expiry: if rng.gen_bool(0.4) { Some(FAR_FUTURE + rng.gen_range(0..100_000)) } else { None },
		issuer: if rng.gen_bool(0.4) { Some(rand_text(rng, 15)) } else { None },
		paths: match mode {
			"path" => rng.gen_range(1..=2),
			"meta" => 0,
			_ => rng.gen_range(0..=1),
		},
		testnet: rng.gen_bool(0.3),
		qty: if rng.gen_bool(0.3) { Some(rng.gen_range(1..10)) } else { None },
		note: if rng.gen_bool(0.4) { Some(rand_text(rng, 20)) } else { None },
		explicit_md: {
			let n = *[0usize, 1, 32, 48, 80].choose(rng).unwrap();
			(0..n).map(|_| rng.gen()).collect()
		},
	}
}

fn apply_refund_opts<'a, T: secp256k1::Signing>(
	mut b: RefundBuilder<'a, T>, o: &RefundOpts, rng: &mut StdRng, secp: &Secp,
) -> Result<Refund, String> {
	b = b.description(o.desc.clone());
	if let Some(x) = o.expiry {
		b = b.absolute_expiry(Duration::from_secs(x));
	}
	if let Some(i) = &o.issuer {
		b = b.issuer(i.clone());
	}
	for _ in 0..o.paths {
		b = b.path(msg_path(rng, secp));
	}
	if o.testnet {
		b = b.chain(Network::Testnet);
	}
	if let Some(q) = o.qty {
		b = b.quantity(q);
	}
	if let Some(n) = &o.note {
		b = b.payer_note(n.clone());
	}
	b.build().map_err(|e| format!("{:?}", e))
}

fn create_refund(
	p: &Party, mode: &str, o: &RefundOpts, rng: &mut StdRng, secp: &Secp,
) -> Result<Refund, String> {
	let e = |e| format!("{:?}", e);
	if mode == "explicit" {
		let b = RefundBuilder::new(o.explicit_md.clone(), p.pk, o.amount).map_err(e)?;
		apply_refund_opts(b, o, rng, secp)
	} else {
		let nonce = Nonce::from_entropy_source(&p.ent);
		let b = RefundBuilder::deriving_signing_pubkey(
			p.pk, &p.ek, nonce, secp, o.amount, PaymentId(r32(rng)),
		)
		.map_err(e)?;
		apply_refund_opts(b, o, rng, secp)
	}
}

fn respond_refund(
	p: &Party, refund: &Refund, io: &InvOpts, derived: bool, rng: &mut StdRng, secp: &Secp,
) -> Result<Bolt12Invoice, String> {
	let e = |e| format!("{:?}", e);
	let paths = pay_paths(rng, secp, io.npaths);
	let hash = PaymentHash(r32(rng));
	let at = Duration::from_secs(CREATED_AT);
	if derived {
		let b = refund.respond_using_derived_keys_no_std(paths, hash, at, &p.ek, &p.ent).map_err(e)?;
		apply_inv_opts!(b, io, rng).build_and_sign(secp).map_err(e)
	} else {
		let b = refund.respond_with_no_std(paths, hash, p.pk, at).map_err(e)?;
		let u = apply_inv_opts!(b, io, rng).build().map_err(e)?;
		sign_unsigned(u, &p.kp, secp)
	}
}

// ------------------------------------------------------------------------------------------------
// part (i): protocol scripts

enum PObj {
	Offer(Offer),
	Refund(Refund),
	InvReq(InvoiceRequest),
	Invoice(Bolt12Invoice),
}

struct PMeta {
	root: usize,  // 1-based id of the offer / refund at the start of the chain
	mode: String, // key mode of the root
	creator: usize,
}

struct Ctx<'a> {
	run: u64,
	log: &'a mut Vec<Value>,
}
impl<'a> Ctx<'a> {
	fn ev(&mut self, mut v: Value) {
		v["run"] = json!(self.run);
		self.log.push(v);
	}
}

fn run_proto(cx: &mut Ctx, script: &Value, seed: u64, secp: &Secp, stats: &mut Stats) {
	let mut rng = StdRng::seed_from_u64(seed ^ cx.run.wrapping_mul(0x9e37_79b9_7f4a_7c15));
	let salt: u64 = rng.gen();
	let parties = [party(secp, salt, 1), party(secp, salt, 2)];
	cx.ev(json!({"ev":"reset","part":"proto"}));
	let mut objs: Vec<PObj> = Vec::new();
	let mut meta: Vec<PMeta> = Vec::new();
	let mut nonces: BTreeMap<usize, Nonce> = BTreeMap::new(); // root id -> nonce of a path-mode offer
	for op in script["ops"].as_array().unwrap() {
		let name = op["op"].as_str().unwrap();
		let n = op["n"].as_u64().unwrap() as usize;
		let mode = op["mode"].as_str().unwrap().to_string();
		let src = op["src"].as_u64().unwrap() as usize;
		let cls = op["cls"].as_str().unwrap();
		let id = objs.len() + 1;
		let mut what = String::new();
		let res: Result<(PObj, PMeta), String> = match name {
			"offer" => {
				let o = random_offer_opts(&mut rng, &mode);
				create_offer(&parties[n - 1], &mode, &o, &mut rng, secp).map(|(offer, nonce)| {
					if mode == "path" {
						nonces.insert(id, nonce);
					}
					(PObj::Offer(offer), PMeta { root: id, mode: mode.clone(), creator: n })
				})
			},
			"refund" => {
				let o = random_refund_opts(&mut rng, &mode);
				create_refund(&parties[n - 1], &mode, &o, &mut rng, secp)
					.map(|r| (PObj::Refund(r), PMeta { root: id, mode: mode.clone(), creator: n }))
			},
			"alter" => {
				let m = &meta[src - 1];
				let pm = PMeta { root: m.root, mode: m.mode.clone(), creator: m.creator };
				match &objs[src - 1] {
					PObj::Offer(o) => {
						let recs = tlv_parse(&enc(o)).unwrap();
						let mut r = Err("no alteration accepted by the offer parser".to_string());
						for (nm, c) in alterations(&recs, cls, 'o', &mut rng, secp) {
							if let Ok(x) = Offer::try_from(tlv_ser(&c)) {
								what = nm;
								r = Ok((PObj::Offer(x), pm));
								break;
							}
						}
						r
					},
					PObj::Refund(f) => {
						let recs = tlv_parse(&enc(f)).unwrap();
						let mut r = Err("no alteration accepted by the refund parser".to_string());
						for (nm, c) in alterations(&recs, cls, 'p', &mut rng, secp) {
							if let Ok(x) = Refund::try_from(tlv_ser(&c)) {
								what = nm;
								r = Ok((PObj::Refund(x), pm));
								break;
							}
						}
						r
					},
					_ => Err("alter: not an unsigned object".into()),
				}
			},
			"request" => match &objs[src - 1] {
				PObj::Offer(o) => {
					let m = &meta[src - 1];
					create_invreq(&parties[n - 1], o, &mut rng, secp).map(|r| {
						(PObj::InvReq(r), PMeta { root: m.root, mode: m.mode.clone(), creator: n })
					})
				},
				_ => Err("request: not an offer".into()),
			},
			"respond" => match &objs[src - 1] {
				PObj::InvReq(r) => {
					let m = &meta[src - 1];
					let io = random_inv_opts(&mut rng);
					let nonce = nonces.get(&m.root).copied();
					let honest = respond(&parties[n - 1], r, &m.mode, nonce, &io, &mut rng, secp);
					let inv = if cls == "none" {
						honest
					} else {
						honest.and_then(|h| {
							tamper_invoice(&parties[n - 1], &h, cls, &mut rng, secp).map(|(i, nm)| {
								what = nm;
								i
							})
						})
					};
					inv.map(|i| {
						(PObj::Invoice(i), PMeta { root: m.root, mode: m.mode.clone(), creator: n })
					})
				},
				_ => Err("respond: not an invoice request".into()),
			},
			"respond_refund" => match &objs[src - 1] {
				PObj::Refund(f) => {
					let m = &meta[src - 1];
					let io = random_inv_opts(&mut rng);
					let derived = rng.gen_bool(0.5);
					respond_refund(&parties[n - 1], f, &io, derived, &mut rng, secp).map(|i| {
						(PObj::Invoice(i), PMeta { root: m.root, mode: m.mode.clone(), creator: n })
					})
				},
				_ => Err("respond_refund: not a refund".into()),
			},
			_ => Err(format!("unknown op {}", name)),
		};
		let ok = res.is_ok();
		let err = res.as_ref().err().cloned().unwrap_or_default();
		cx.ev(json!({"ev":name,"n":n,"mode":mode,"src":src,"cls":cls,"id":id,"ok":ok,"what":what,"err":err}));
		match res {
			Ok((o, m)) => {
				objs.push(o);
				meta.push(m);
			},
			Err(_) => {
				// not judged as such (the property does not promise that a builder succeeds); the
				// objects built so far are still verified below
				stats.proto_build_failed += 1;
				break;
			},
		}
	}
	// every party verifies every request / invoice, through every API, with every nonce it could try
	for (k, o) in objs.iter().enumerate() {
		let id = k + 1;
		for n in 1..=2usize {
			let p = &parties[n - 1];
			match o {
				PObj::InvReq(r) => {
					let a = r.clone().verify_using_metadata(&p.ek, secp).is_ok();
					stats.verifies += 1;
					stats.accepts += a as u64;
					cx.ev(json!({"ev":"verify_invreq","n":n,"obj":id,"via":"metadata","nz":0,"accept":a}));
					for (rid, nz) in nonces.iter() {
						let a = r.clone().verify_using_recipient_data(*nz, &p.ek, secp).is_ok();
						stats.verifies += 1;
						stats.accepts += a as u64;
						cx.ev(json!({"ev":"verify_invreq","n":n,"obj":id,"via":"recipient","nz":rid,"accept":a}));
					}
				},
				PObj::Invoice(i) => {
					let a = i.verify_using_metadata(&p.ek, secp).is_ok();
					stats.verifies += 1;
					stats.accepts += a as u64;
					cx.ev(json!({"ev":"verify_invoice","n":n,"obj":id,"accept":a}));
				},
				_ => {},
			}
		}
	}
}

// ------------------------------------------------------------------------------------------------
// part (i), single-bit sweeps: every bit of every TLV value of an offer / refund / echoed request
// is flipped; every altered copy that the library still parses and that still yields a signed
// request (resp. invoice) is presented to the original creator's verify_using_*.

fn small_path(rng: &mut StdRng, secp: &Secp) -> BlindedMessagePath {
	let hops = vec![BlindedHop {
		blinded_node_id: rand_pk(rng, secp),
		encrypted_payload: (0..rng.gen_range(18..26)).map(|_| rng.gen()).collect(),
	}];
	BlindedMessagePath::from_blinded_path(rand_pk(rng, secp), rand_pk(rng, secp), hops)
}

#[allow(clippy::too_many_arguments)]
fn run_sweeps(
	d: &Value, seed: u64, run: &mut u64, tw: &mut TraceWriter, secp: &Secp, stats: &mut Stats,
	panics: &mut u64, max_bits: usize,
) {
	let first = *run + 1;
	let mut rng = StdRng::seed_from_u64(seed ^ first.wrapping_mul(0x9e37_79b9_7f4a_7c15) ^ 0x5eeb);
	let salt: u64 = rng.gen();
	let parties = [party(secp, salt, 1), party(secp, salt, 2)];
	let kind = d["kind"].as_str().unwrap().to_string();
	let mode = d["mode"].as_str().unwrap().to_string();
	let short = |rng: &mut StdRng| rand_text(rng, 8);
	// ---- honest base objects (built once; every batch run replays their build events)
	let mut base_events: Vec<Value> = Vec::new();
	let mut offer: Option<(Offer, Nonce)> = None;
	let mut refund: Option<Refund> = None;
	let mut invreq: Option<InvoiceRequest> = None;
	let mut honest: Option<Bolt12Invoice> = None;
	let mut err = String::new();
	let built = catch_unwind(AssertUnwindSafe(|| {
		if kind == "refund" {
			let o = RefundOpts {
				amount: rng.gen_range(1..2_000_000_000),
				desc: short(&mut rng),
				expiry: if rng.gen_bool(0.5) { Some(FAR_FUTURE) } else { None },
				issuer: if rng.gen_bool(0.5) { Some(short(&mut rng)) } else { None },
				paths: 0,
				testnet: rng.gen_bool(0.3),
				qty: if rng.gen_bool(0.5) { Some(rng.gen_range(1..10)) } else { None },
				note: if rng.gen_bool(0.5) { Some(short(&mut rng)) } else { None },
				explicit_md: (0..*[0usize, 8, 48].choose(&mut rng).unwrap()).map(|_| rng.gen()).collect(),
			};
			let e = |e| format!("{:?}", e);
			let r = if mode == "path" {
				// like create_refund, with one small blinded path
				let nonce = Nonce::from_entropy_source(&parties[1].ent);
				RefundBuilder::deriving_signing_pubkey(
					parties[1].pk, &parties[1].ek, nonce, secp, o.amount, PaymentId(r32(&mut rng)),
				)
				.map_err(e)
				.and_then(|b| {
					let b = b.path(small_path(&mut rng, secp));
					apply_refund_opts(b, &o, &mut rng, secp)
				})
			} else {
				create_refund(&parties[1], &mode, &o, &mut rng, secp)
			};
			match r {
				Ok(r) => refund = Some(r),
				Err(e) => err = e,
			}
			base_events.push(json!({"ev":"refund","n":2,"mode":mode,"src":0,"cls":"none","id":1,
				"ok":refund.is_some(),"what":"","err":err}));
		} else {
			let o = OfferOpts {
				chain: *[0u8, 0, 2].choose(&mut rng).unwrap(),
				amount: if rng.gen_bool(0.7) { Some(rng.gen_range(1..2_000_000_000)) } else { None },
				desc: if rng.gen_bool(0.6) { Some(short(&mut rng)) } else { None },
				expiry: if rng.gen_bool(0.4) { Some(FAR_FUTURE) } else { None },
				issuer: if rng.gen_bool(0.4) { Some(short(&mut rng)) } else { None },
				paths: 0,
				qty: *[0u8, 0, 1, 2].choose(&mut rng).unwrap(),
				qty_max: rng.gen_range(2..20),
				explicit_md: if mode == "explicit" && rng.gen_bool(0.5) {
					Some((0..*[8usize, 16, 48].choose(&mut rng).unwrap()).map(|_| rng.gen()).collect())
				} else {
					None
				},
			};
			let p = &parties[0];
			let nonce = Nonce::from_entropy_source(&p.ent);
			let with_path = mode == "path" || (mode == "explicit" && rng.gen_bool(0.5));
			let r = if mode == "explicit" {
				let mut b = OfferBuilder::new(p.pk);
				if let Some(md) = &o.explicit_md {
					b = b.metadata(md.clone()).unwrap();
				}
				if with_path {
					b = b.path(small_path(&mut rng, secp));
				}
				apply_offer_opts(b, &o, &mut rng, secp).build()
			} else {
				let mut b = OfferBuilder::deriving_signing_pubkey(p.pk, &p.ek, nonce, secp);
				if with_path {
					b = b.path(small_path(&mut rng, secp));
				}
				apply_offer_opts(b, &o, &mut rng, secp).build()
			};
			match r {
				Ok(x) => offer = Some((x, nonce)),
				Err(e) => err = format!("{:?}", e),
			}
			base_events.push(json!({"ev":"offer","n":1,"mode":mode,"src":0,"cls":"none","id":1,
				"ok":offer.is_some(),"what":"","err":err}));
			if kind == "echo" {
				if let Some((o, nonce)) = &offer {
					let mut e2 = String::new();
					match create_invreq(&parties[1], o, &mut rng, secp) {
						Ok(r) => {
							let io = InvOpts { npaths: 1, rel_expiry: None, fallbacks: 0, mpp: false };
							match respond(&parties[0], &r, &mode, Some(*nonce), &io, &mut rng, secp) {
								Ok(i) => honest = Some(i),
								Err(e) => e2 = e,
							}
							invreq = Some(r);
						},
						Err(e) => e2 = e,
					}
					base_events.push(json!({"ev":"request","n":2,"mode":"none","src":1,"cls":"none","id":2,
						"ok":invreq.is_some() && honest.is_some(),"what":"","err":e2}));
				}
			}
		}
	}));
	let base_ok = built.is_ok() && base_events.iter().all(|e| e["ok"] == true) && !base_events.is_empty();
	// ---- the bits
	let recs: Recs = if !base_ok {
		Vec::new()
	} else if kind == "refund" {
		tlv_parse(&enc(refund.as_ref().unwrap())).unwrap()
	} else if kind == "offer" {
		tlv_parse(&enc(&offer.as_ref().unwrap().0)).unwrap()
	} else {
		let mut r = tlv_parse(&enc(honest.as_ref().unwrap())).unwrap();
		r.retain(|x| !(240..=1000).contains(&x.0));
		r
	};
	let mut bits: Vec<(usize, usize, usize)> = Vec::new();
	for (i, (t, v)) in recs.iter().enumerate() {
		if *t < 160 {
			for byte in 0..v.len() {
				for bit in 0..8 {
					bits.push((i, byte, bit));
				}
			}
		}
	}
	if max_bits > 0 && bits.len() > max_bits {
		// keep every key's parity / first byte, sample the rest
		let (mut keep, mut rest): (Vec<_>, Vec<_>) =
			bits.into_iter().partition(|(i, byte, _)| recs[*i].1.len() == 33 && *byte == 0);
		rest.shuffle(&mut rng);
		rest.truncate(max_bits.saturating_sub(keep.len()));
		keep.extend(rest);
		keep.sort();
		bits = keep;
	}
	let nbase = base_events.len();
	let batches: Vec<Vec<(usize, usize, usize)>> =
		if bits.is_empty() { vec![Vec::new()] } else { bits.chunks(24).map(|c| c.to_vec()).collect() };
	for (bi, batch) in batches.iter().enumerate() {
		*run += 1;
		let r = *run;
		let mut log: Vec<Value> = Vec::new();
		let res = catch_unwind(AssertUnwindSafe(|| {
			let mut cx = Ctx { run: r, log: &mut log };
			cx.ev(json!({"ev":"reset","part":"sweep","directive":d,"first_run":first,"batch":bi}));
			if built.is_err() {
				panic!("base build panicked");
			}
			for e in base_events.iter() {
				cx.ev(e.clone());
			}
			if !base_ok {
				stats.proto_build_failed += 1;
				return;
			}
			let mut next = nbase + 1;
			let mut skipped = 0u64;
			for (i, byte, bit) in batch.iter().copied() {
				let mut m = recs.clone();
				m[i].1[byte] ^= 1 << bit;
				let what = format!("bit:t{}:{}:{}", recs[i].0, byte, bit);
				let bytes = tlv_ser(&m);
				stats.sweep_bits += 1;
				if kind == "offer" {
					let (_, nonce) = offer.as_ref().unwrap();
					let alt = match Offer::try_from(bytes) {
						Ok(a) => a,
						Err(_) => { skipped += 1; continue },
					};
					let req = match create_invreq(&parties[1], &alt, &mut rng, secp) {
						Ok(q) => q,
						Err(_) => { skipped += 1; continue },
					};
					cx.ev(json!({"ev":"alter","n":0,"mode":"none","src":1,"cls":"bit","id":next,"ok":true,"what":what,"err":""}));
					cx.ev(json!({"ev":"request","n":2,"mode":"none","src":next,"cls":"none","id":next + 1,"ok":true,"what":"","err":""}));
					let p = &parties[0];
					let a = req.clone().verify_using_metadata(&p.ek, secp).is_ok();
					stats.verifies += 1;
					stats.accepts += a as u64;
					cx.ev(json!({"ev":"verify_invreq","n":1,"obj":next + 1,"via":"metadata","nz":0,"accept":a}));
					if mode == "path" {
						let a = req.clone().verify_using_recipient_data(*nonce, &p.ek, secp).is_ok();
						stats.verifies += 1;
						stats.accepts += a as u64;
						cx.ev(json!({"ev":"verify_invreq","n":1,"obj":next + 1,"via":"recipient","nz":1,"accept":a}));
					}
					next += 2;
				} else if kind == "refund" {
					let alt = match Refund::try_from(bytes) {
						Ok(a) => a,
						Err(_) => { skipped += 1; continue },
					};
					let io = InvOpts { npaths: 1, rel_expiry: None, fallbacks: 0, mpp: false };
					let inv = match respond_refund(&parties[0], &alt, &io, false, &mut rng, secp) {
						Ok(i) => i,
						Err(_) => { skipped += 1; continue },
					};
					cx.ev(json!({"ev":"alter","n":0,"mode":"none","src":1,"cls":"bit","id":next,"ok":true,"what":what,"err":""}));
					cx.ev(json!({"ev":"respond_refund","n":1,"mode":"none","src":next,"cls":"none","id":next + 1,"ok":true,"what":"","err":""}));
					let a = inv.verify_using_metadata(&parties[1].ek, secp).is_ok();
					stats.verifies += 1;
					stats.accepts += a as u64;
					cx.ev(json!({"ev":"verify_invoice","n":2,"obj":next + 1,"accept":a}));
					next += 2;
				} else {
					let inv = match UnsignedBolt12Invoice::try_from(bytes)
						.map_err(|e| format!("{:?}", e))
						.and_then(|u| sign_unsigned(u, &parties[0].kp, secp))
					{
						Ok(i) => i,
						Err(_) => { skipped += 1; continue },
					};
					cx.ev(json!({"ev":"respond","n":1,"mode":"none","src":2,"cls":"bit","id":next,"ok":true,"what":what,"err":""}));
					let a = inv.verify_using_metadata(&parties[1].ek, secp).is_ok();
					stats.verifies += 1;
					stats.accepts += a as u64;
					cx.ev(json!({"ev":"verify_invoice","n":2,"obj":next,"accept":a}));
					next += 1;
				}
				stats.sweep_judged += 1;
			}
			cx.ev(json!({"ev":"fuzz","target":"sweep_bits_not_parseable_or_not_buildable","len":skipped,"parsed":false}));
		}));
		if res.is_err() {
			*panics += 1;
			log.push(json!({"run":r,"ev":"panic","where":"sweep"}));
		}
		for e in log {
			tw.emit(e);
		}
	}
}

// ------------------------------------------------------------------------------------------------
// bech32 (BIP-173) checksum, for BOLT-11 strings

const CHARSET: &[u8; 32] = b"qpzry9x8gf2tvdw0s3jn54khce6mua7l";

fn polymod(values: &[u8]) -> u32 {
	const GEN: [u32; 5] = [0x3b6a57b2, 0x26508e6d, 0x1ea119fa, 0x3d4233dd, 0x2a1462b3];
	let mut chk: u32 = 1;
	for v in values {
		let b = chk >> 25;
		chk = ((chk & 0x1ff_ffff) << 5) ^ (*v as u32);
		for (i, g) in GEN.iter().enumerate() {
			if (b >> i) & 1 == 1 {
				chk ^= g;
			}
		}
	}
	chk
}

fn bech32_encode(hrp: &str, data: &[u8]) -> String {
	let mut v: Vec<u8> = hrp.bytes().map(|c| c >> 5).collect();
	v.push(0);
	v.extend(hrp.bytes().map(|c| c & 31));
	v.extend_from_slice(data);
	v.extend_from_slice(&[0; 6]);
	let pm = polymod(&v) ^ 1;
	let mut s = String::with_capacity(hrp.len() + 7 + data.len());
	s.push_str(hrp);
	s.push('1');
	for d in data {
		s.push(CHARSET[*d as usize] as char);
	}
	for i in 0..6 {
		s.push(CHARSET[((pm >> (5 * (5 - i))) & 31) as usize] as char);
	}
	s
}

/// Splits a bech32 string into HRP and data symbols (without the 6 checksum symbols).
fn bech32_split(s: &str) -> Option<(String, Vec<u8>)> {
	let pos = s.rfind('1')?;
	let hrp = s[..pos].to_string();
	let mut data = Vec::new();
	for c in s[pos + 1..].bytes() {
		data.push(CHARSET.iter().position(|x| *x == c)? as u8);
	}
	if data.len() < 6 {
		return None;
	}
	data.truncate(data.len() - 6);
	Some((hrp, data))
}

// ------------------------------------------------------------------------------------------------
// part (ii): BOLT-11

/// The numeric builder inputs of one BOLT-11 invoice (spec/PayReq.tla part (iii)); wide enough
/// for the values a string can spell but the builder's `u64` arguments cannot.
#[derive(Clone, Debug, PartialEq)]
struct B11Vals {
	ts: u128,
	expiry: Option<u128>,
	cltv: u128,
	amt: Option<u128>, // msat
	desc: i64,         // byte length of the description; -1: description hash
}

const E9: u128 = 1_000_000_000;
/// numbers travel as three base-10^9 limbs, most significant first (TLC integers have 32 bits)
fn num_json(v: u128) -> Value {
	json!([(v / (E9 * E9)) as u64, ((v / E9) % E9) as u64, (v % E9) as u64])
}
fn opt_json(v: Option<u128>) -> Value {
	v.map_or(json!([]), num_json)
}
fn json_num(v: &Value) -> Option<u128> {
	let a = v.as_array()?;
	if a.len() != 3 {
		return None;
	}
	Some(a[0].as_u64()? as u128 * E9 * E9 + a[1].as_u64()? as u128 * E9 + a[2].as_u64()? as u128)
}
impl B11Vals {
	fn json(&self) -> Value {
		json!({"ts": num_json(self.ts), "expiry": opt_json(self.expiry), "cltv": num_json(self.cltv),
			"amt": opt_json(self.amt), "desc": self.desc})
	}
	fn from_json(v: &Value) -> B11Vals {
		B11Vals {
			ts: json_num(&v["ts"]).unwrap(),
			expiry: json_num(&v["expiry"]),
			cltv: json_num(&v["cltv"]).unwrap(),
			amt: json_num(&v["amt"]),
			desc: v["desc"].as_i64().unwrap(),
		}
	}
	fn fits_builder(&self) -> bool {
		let m = u64::MAX as u128;
		self.ts <= m && self.cltv <= m && self.expiry.map_or(true, |x| x <= m) && self.amt.map_or(true, |x| x <= m)
	}
	/// what the accessors of an invoice say
	fn exposed_by(i: &Bolt11Invoice) -> B11Vals {
		let raw = i.clone().into_signed_raw();
		B11Vals {
			ts: i.duration_since_epoch().as_secs() as u128,
			expiry: raw.raw_invoice().expiry_time().map(|x| x.as_seconds() as u128),
			cltv: i.min_final_cltv_expiry_delta() as u128,
			amt: i.amount_milli_satoshis().map(|x| x as u128),
			desc: match i.description() {
				Bolt11InvoiceDescriptionRef::Direct(d) => d.as_inner().0.len() as i64,
				Bolt11InvoiceDescriptionRef::Hash(_) => -1,
			},
		}
	}
}

/// Builds one invoice with the presence subset `p`.  `given`: the numbers to use (boundary cases
/// from TLC); otherwise seeded ones.  Returns the numbers that went in and the builder's answer.
fn build_b11(
	p: &Value, given: Option<&B11Vals>, rng: &mut StdRng, secp: &Secp,
) -> (B11Vals, Result<Bolt11Invoice, String>) {
	let mut used = B11Vals { ts: 0, expiry: None, cltv: 0, amt: None, desc: 0 };
	let r = build_b11_inner(p, given, &mut used, rng, secp);
	(used, r)
}

fn build_b11_inner(
	p: &Value, given: Option<&B11Vals>, used: &mut B11Vals, rng: &mut StdRng, secp: &Secp,
) -> Result<Bolt11Invoice, String> {
	let e = |e| format!("{:?}", e);
	let sk = rand_sk(rng);
	let pk = PublicKey::from_secret_key(secp, &sk);
	let currency = [
		Currency::Bitcoin,
		Currency::BitcoinTestnet,
		Currency::Regtest,
		Currency::Simnet,
		Currency::Signet,
	]
	.choose(rng)
	.unwrap()
	.clone();
	let ts = match rng.gen_range(0..6) {
		0 => 0,
		1 => 1,
		2 => MAX_TIMESTAMP,
		3 => 1_700_000_000,
		_ => rng.gen_range(0..=MAX_TIMESTAMP),
	};
	let ts = given.map_or(ts, |g| g.ts as u64);
	let cltv = match rng.gen_range(0..6) {
		0 => 0,
		1 => 18,
		2 => u16::MAX as u64,
		3 => u64::MAX,
		_ => rng.gen_range(1..5000),
	};
	let cltv = given.map_or(cltv, |g| g.cltv as u64);
	used.ts = ts as u128;
	used.cltv = cltv as u128;
	let text = match (given, p["desc"].as_str().unwrap()) {
		(Some(g), _) if g.desc >= 0 => {
			// `desc` bytes, with a multi-byte character at the end where it fits
			let n = g.desc as usize;
			let mut t = "a".repeat(n);
			if n >= 4 {
				t.truncate(n - 3);
				t.push('ナ');
			}
			Some(t)
		},
		(Some(_), _) => None,
		(None, "direct") => {
			let n = *[1usize, 5, 40, 200, 639].choose(rng).unwrap();
			let mut t = rand_text(rng, n);
			while t.len() > 639 {
				t.pop();
			}
			Some(t)
		},
		(None, "empty") => Some(String::new()),
		_ => None,
	};
	used.desc = text.as_ref().map_or(-1, |t| t.len() as i64);
	let (amt_given, expiry_given) = match given {
		Some(g) => (g.amt.map(|x| x as u64), g.expiry.map(|x| x as u64)),
		None => (None, None),
	};
	if given.is_some() {
		used.amt = amt_given.map(|x| x as u128);
		used.expiry = expiry_given.map(|x| x as u128);
	}
	let desc = match text {
		Some(t) if t.is_empty() && given.is_none() => Bolt11InvoiceDescription::Direct(Description::empty()),
		Some(t) => Bolt11InvoiceDescription::Direct(Description::new(t).map_err(e)?),
		None => Bolt11InvoiceDescription::Hash(Sha256(sha256::Hash::hash(&r32(rng)))),
	};
	let mut b = InvoiceBuilder::new(currency)
		.invoice_description(desc)
		.payment_hash(PaymentHash(r32(rng)))
		.duration_since_epoch(Duration::from_secs(ts))
		.min_final_cltv_expiry_delta(cltv)
		.payment_secret(PaymentSecret(r32(rng)));
	// optional fields, in a seeded order (the builder keeps the order of the calls)
	let mut steps: Vec<(&str, u64)> = Vec::new();
	if let Some(a) = amt_given {
		steps.push(("amt", a));
	}
	if let Some(x) = expiry_given {
		steps.push(("expiry", x));
	}
	match if given.is_some() { "given" } else { p["amt"].as_str().unwrap() } {
		"zero" => steps.push(("amt", 0)),
		"small" => steps.push(("amt", rng.gen_range(1..=1000))),
		"big" => {
			// any decade up to the largest amount the builder can express in pico-BTC
			let e = rng.gen_range(3..=18u32);
			let hi = 10u64.pow(e).min(u64::MAX / 10);
			let mut a = rng.gen_range(1001.min(hi - 1)..hi);
			if rng.gen_bool(0.5) {
				a -= a % 10u64.pow(rng.gen_range(0..e)); // round amounts get the larger SI prefixes
			}
			steps.push(("amt", a.max(1)))
		},
		"max" => steps.push(("amt", u64::MAX / 10)),
		_ => {},
	}
	if p["payee"] == "explicit" {
		steps.push(("payee", 0));
	}
	if p["expiry"] == "some" && given.is_none() {
		let x = match rng.gen_range(0..5) {
			0 => 0,
			1 => 1,
			2 => u32::MAX as u64,
			3 => u64::MAX,
			_ => rng.gen_range(2..10_000_000),
		};
		steps.push(("expiry", x));
	}
	for _ in 0..p["fb"].as_u64().unwrap() {
		steps.push(("fb", rng.gen_range(0..4)));
	}
	for _ in 0..p["routes"].as_u64().unwrap() {
		steps.push(("route", rng.gen_range(1..=3)));
	}
	if p["mpp"] == true {
		steps.push(("mpp", 0));
	}
	steps.shuffle(rng);
	for (s, x) in steps {
		match s {
			"amt" => used.amt = Some(x as u128),
			"expiry" => used.expiry = Some(x as u128),
			_ => {},
		}
		b = match s {
			"amt" => b.amount_milli_satoshis(x),
			"payee" => b.payee_pub_key(pk),
			"expiry" => b.expiry_time(Duration::from_secs(x)),
			"fb" => b.fallback(match x {
				0 => Fallback::PubKeyHash(PubkeyHash::from_byte_array({
					let mut h = [0u8; 20];
					rng.fill(&mut h);
					h
				})),
				1 => Fallback::ScriptHash(ScriptHash::from_byte_array({
					let mut h = [0u8; 20];
					rng.fill(&mut h);
					h
				})),
				2 => Fallback::SegWitProgram { version: WitnessVersion::V0, program: r32(rng).to_vec() },
				_ => Fallback::SegWitProgram {
					version: WitnessVersion::V1,
					program: r32(rng)[..rng.gen_range(2..=32)].to_vec(),
				},
			}),
			"route" => {
				let hops = (0..x)
					.map(|_| RouteHintHop {
						src_node_id: rand_pk(rng, secp),
						short_channel_id: edge(rng, u64::MAX),
						fees: RoutingFees {
							base_msat: edge(rng, u32::MAX as u64) as u32,
							proportional_millionths: edge(rng, u32::MAX as u64) as u32,
						},
						cltv_expiry_delta: edge(rng, u16::MAX as u64) as u16,
						htlc_minimum_msat: None,
						htlc_maximum_msat: None,
					})
					.collect();
				b.private_route(RouteHint(hops))
			},
			_ => b.basic_mpp(),
		};
	}
	let sign = |m: &Message| secp.sign_ecdsa_recoverable(m, &sk);
	let md: Vec<u8> = (0..*[0usize, 1, 32, 100].choose(rng).unwrap()).map(|_| rng.gen()).collect();
	match p["meta"].as_str().unwrap() {
		"opt" => b.optional_payment_metadata(md).build_signed(sign),
		"req" => b.payment_metadata(md).build_signed(sign),
		_ => b.build_signed(sign),
	}
	.map_err(e)
}

fn b11_accessors(i: &Bolt11Invoice) -> String {
	format!(
		"{:?}",
		(
			(
				i.amount_milli_satoshis(),
				i.expiry_time(),
				i.expires_at(),
				i.payment_hash(),
				i.payment_secret(),
				i.description(),
				i.fallbacks(),
				i.fallback_addresses(),
			),
			(
				i.route_hints(),
				i.features(),
				i.payee_pub_key(),
				i.recover_payee_pub_key(),
				i.get_payee_pub_key(),
				i.min_final_cltv_expiry_delta(),
				i.currency(),
				i.duration_since_epoch(),
				i.payment_metadata(),
			),
		)
	)
}

struct B11Mut {
	cls: &'static str,
	pos: usize,
	s: String,
}

/// All mutations of one invoice string in the given classes; `k` = number of sampled positions per
/// class (None = every position).
fn b11_mutations(s: &str, k: Option<usize>, rng: &mut StdRng) -> Vec<B11Mut> {
	let mut out = Vec::new();
	let (hrp, data) = match bech32_split(s) {
		Some(x) => x,
		None => return out,
	};
	let bytes = s.as_bytes();
	// "char": one character replaced, checksum untouched
	let mut positions: Vec<usize> = (0..bytes.len()).collect();
	if let Some(k) = k {
		positions.shuffle(rng);
		positions.truncate(k);
	}
	for pos in positions {
		let alts: Vec<u8> = if pos > hrp.len() {
			CHARSET.iter().copied().filter(|c| *c != bytes[pos]).collect()
		} else {
			// HRP and separator: any other lower-case letter or digit
			b"abcdefghijklmnopqrstuvwxyz0123456789".iter().copied().filter(|c| *c != bytes[pos]).collect()
		};
		for a in alts {
			let mut m = bytes.to_vec();
			m[pos] = a;
			out.push(B11Mut { cls: "char", pos, s: String::from_utf8(m).unwrap() });
		}
	}
	// "data" / "sig": one symbol of the data part replaced, checksum recomputed
	let nsig = 104.min(data.len());
	let split = data.len() - nsig;
	for (cls, range) in [("data", 0..split), ("sig", split..data.len())] {
		let mut positions: Vec<usize> = range.collect();
		if let Some(k) = k {
			positions.shuffle(rng);
			positions.truncate(if cls == "data" { k * 6 } else { k * 3 });
		}
		for pos in positions {
			let vals: Vec<u8> = match k {
				None => (0..32u8).filter(|v| *v != data[pos]).collect(),
				Some(_) => {
					// a few other values, always including the single-bit neighbours
					let mut v: Vec<u8> = (0..5).map(|b| data[pos] ^ (1 << b)).collect();
					v.shuffle(rng);
					v.truncate(2);
					let x = rng.gen_range(0..32u8);
					if x != data[pos] && !v.contains(&x) {
						v.push(x);
					}
					v
				},
			};
			for v in vals {
				let mut d = data.clone();
				d[pos] = v;
				out.push(B11Mut { cls, pos, s: bech32_encode(&hrp, &d) });
			}
		}
	}
	// "hrp": the amount (digits, multiplier) or the currency changed, checksum recomputed
	let h = hrp.as_bytes();
	let mut hrps: Vec<String> = Vec::new();
	let first_digit = h.iter().position(|c| c.is_ascii_digit());
	for pos in 0..h.len() {
		let alts: &[u8] = if h[pos].is_ascii_digit() {
			b"0123456789"
		} else if first_digit.map_or(false, |f| pos > f) {
			b"munp"
		} else {
			continue;
		};
		for a in alts {
			if *a != h[pos] {
				let mut m = h.to_vec();
				m[pos] = *a;
				hrps.push(String::from_utf8(m).unwrap());
			}
		}
	}
	match first_digit {
		None => {
			// no amount: give it one
			for a in ["1", "10u", "25m", "9n", "20p", "1p"] {
				hrps.push(format!("{}{}", hrp, a));
			}
		},
		Some(f) => {
			hrps.push(hrp[..f].to_string()); // amount removed
			let last = *h.last().unwrap();
			if last.is_ascii_digit() {
				hrps.push(format!("{}0", hrp));
				hrps.push(format!("{}m", hrp));
				hrps.push(format!("{}p", hrp));
			} else {
				hrps.push(hrp[..hrp.len() - 1].to_string()); // multiplier dropped
				hrps.push(format!("{}0{}", &hrp[..hrp.len() - 1], last as char));
				if hrp.len() - 1 > f + 1 {
					hrps.push(format!("{}{}", &hrp[..hrp.len() - 2], last as char)); // a digit dropped
				}
			}
		},
	}
	for c in ["lnbc", "lntb", "lnbcrt", "lnsb", "lntbs"] {
		let f = first_digit.unwrap_or(h.len());
		if &hrp[..f] != c {
			hrps.push(format!("{}{}", c, &hrp[f..]));
		}
	}
	if let Some(k) = k {
		hrps.shuffle(rng);
		hrps.truncate(k * 3);
	}
	for (pos, m) in hrps.into_iter().enumerate() {
		out.push(B11Mut { cls: "hrp", pos, s: bech32_encode(&m, &data) });
	}
	out
}

fn run_b11(
	cx: &mut Ctx, pres: &Value, seed: u64, k: Option<usize>, secp: &Secp, stats: &mut Stats,
	corpus: &mut Vec<Vec<u8>>,
) {
	let mut rng = StdRng::seed_from_u64(seed ^ cx.run.wrapping_mul(0x9e37_79b9_7f4a_7c15) ^ 0xb11);
	cx.ev(json!({"ev":"reset","part":"b11"}));
	let (vals, inv) = build_b11(pres, None, &mut rng, secp);
	stats.b11_cases += 1;
	cx.ev(json!({"ev":"case","fmt":"b11","built":inv.is_ok(),"pres":pres,"vals":vals.json(),
		"err":inv.as_ref().err().cloned().unwrap_or_default()}));
	let inv = match inv {
		Ok(i) => i,
		Err(_) => return,
	};
	stats.b11_built += 1;
	let s = inv.to_string();
	if corpus.len() < 64 {
		corpus.push(s.clone().into_bytes());
	}
	// round trip
	let back = s.parse::<Bolt11Invoice>();
	let (parsed, equal, acc, reser) = match &back {
		Ok(b) => (true, *b == inv, b11_accessors(b) == b11_accessors(&inv), b.to_string() == s),
		Err(_) => (false, false, false, false),
	};
	// the upper-case form is the same invoice (case is not an alteration)
	let upper = s.to_uppercase().parse::<Bolt11Invoice>().map_or(false, |b| b == inv);
	cx.ev(json!({"ev":"roundtrip","kind":"b11","parsed":parsed,"equal":equal,"acc":acc,"reser":reser,
		"upper_ok":upper,"len":s.len(),"err":back.as_ref().err().map(|e| format!("{:?}", e)).unwrap_or_default()}));
	stats.roundtrips += 1;
	if !(parsed && equal && acc && reser) {
		return;
	}
	cx.ev(json!({"ev":"exposed","vals":B11Vals::exposed_by(back.as_ref().unwrap()).json()}));
	let payee = inv.get_payee_pub_key();
	let raw = inv.clone().into_signed_raw().raw_invoice().clone();
	for m in b11_mutations(&s, k, &mut rng) {
		let r = m.s.parse::<Bolt11Invoice>();
		let (parsed, payee_eq, signed_eq, has_n, err) = match r {
			Ok(p) => {
				let has_n = p.payee_pub_key().is_some();
				let payee_eq = p.get_payee_pub_key() == payee;
				let signed_eq = *p.into_signed_raw().raw_invoice() == raw;
				(true, payee_eq, signed_eq, has_n, String::new())
			},
			Err(e) => (false, false, false, false, format!("{:?}", e).chars().take(40).collect()),
		};
		let class = if !parsed {
			"err"
		} else if signed_eq {
			"ok-same-signed-content"
		} else if !payee_eq {
			"ok-different-payee"
		} else {
			"ok-same-payee-different-content"
		};
		*stats.b11_mut.entry(format!("{}:{}", m.cls, class)).or_insert(0) += 1;
		cx.ev(json!({"ev":"mut11","cls":m.cls,"pos":m.pos,"parsed":parsed,"payee_eq":payee_eq,
			"signed_eq":signed_eq,"has_n":has_n,"class":class,"err":err}));
	}
}

// ------------------------------------------------------------------------------------------------
// part (iii): numeric boundaries, through the builder and through hand-assembled strings

/// big-endian base-32 digits without leading zeros (0 = no digits)
fn int_syms(mut v: u128) -> Vec<u8> {
	let mut out = Vec::new();
	while v != 0 {
		out.push((v % 32) as u8);
		v /= 32;
	}
	out.reverse();
	out
}

/// bytes to 5-bit symbols / symbols to bytes, padded with zero bits
fn regroup(input: &[u8], from: u32, to: u32) -> Vec<u8> {
	let (mut acc, mut bits, mut out) = (0u32, 0u32, Vec::new());
	for x in input {
		acc = (acc << from) | *x as u32;
		bits += from;
		while bits >= to {
			bits -= to;
			out.push(((acc >> bits) & ((1 << to) - 1)) as u8);
		}
	}
	if bits > 0 {
		out.push(((acc << (to - bits)) & ((1 << to) - 1)) as u8);
	}
	out
}

/// BOLT-11 amount of the HRP in the shortest form: the largest multiplier that divides it
fn amount_hrp(msat: u128) -> String {
	let pico = msat * 10;
	for (m, c) in [(1_000_000_000u128, "m"), (1_000_000, "u"), (1_000, "n")] {
		if pico % m == 0 {
			return format!("{}{}", pico / m, c);
		}
	}
	format!("{}p", pico)
}

/// A BOLT-11 string written symbol by symbol: HRP, 35-bit timestamp, tagged fields, the signature
/// of `sk` over SHA256(HRP || data padded to bytes) with its recovery id, bech32 checksum.
fn assemble_b11(hrp: &str, ts: u64, fields: &[(u8, Vec<u8>)], sk: &SecretKey, secp: &Secp) -> String {
	let mut data: Vec<u8> = (0..7).rev().map(|k| ((ts >> (5 * k)) & 31) as u8).collect();
	for (tag, d) in fields {
		data.push(*tag);
		data.push((d.len() >> 5) as u8);
		data.push((d.len() & 31) as u8);
		data.extend_from_slice(d);
	}
	let mut pre = hrp.as_bytes().to_vec();
	pre.extend(regroup(&data, 5, 8));
	let msg = Message::from_digest(sha256::Hash::hash(&pre).to_byte_array());
	let (rid, sig) = secp.sign_ecdsa_recoverable(&msg, sk).serialize_compact();
	let mut sigb = sig.to_vec();
	sigb.push(rid.to_i32() as u8);
	data.extend(regroup(&sigb, 8, 5));
	bech32_encode(hrp, &data)
}

/// Parses an assembled string (a panic is recorded and ends the run) and records what came out.
fn parse_assembled11(
	cx: &mut Ctx, stats: &mut Stats, s: &str, vals: &B11Vals, canon: bool, pk: &PublicKey,
) -> bool {
	let r = catch_unwind(AssertUnwindSafe(|| {
		s.parse::<Bolt11Invoice>().map(|i| {
			let reser = i.to_string() == s;
			(reser, i.get_payee_pub_key() == *pk, B11Vals::exposed_by(&i))
		})
	}));
	stats.assembled += 1;
	match r {
		Err(_) => {
			stats.assembled_panics += 1;
			cx.ev(json!({"ev":"panic","where":"assembled b11","input":s}));
			false
		},
		Ok(Ok((reser, signer_eq, got))) => {
			stats.assembled_parsed += 1;
			cx.ev(json!({"ev":"assembled","kind":"b11","canon":canon,"parsed":true,"reser":reser,
				"signer_eq":signer_eq,"vals":vals.json(),"got":got.json(),"err":"","len":s.len()}));
			true
		},
		Ok(Err(e)) => {
			cx.ev(json!({"ev":"assembled","kind":"b11","canon":canon,"parsed":false,"reser":false,
				"signer_eq":false,"vals":vals.json(),
				"got":B11Vals { ts: 0, expiry: None, cltv: 0, amt: None, desc: 0 }.json(),
				"err":format!("{:?}", e),"len":s.len()}));
			true
		},
	}
}

fn run_n11(cx: &mut Ctx, case: &Value, seed: u64, secp: &Secp, stats: &mut Stats) {
	let mut rng = StdRng::seed_from_u64(seed ^ cx.run.wrapping_mul(0x9e37_79b9_7f4a_7c15) ^ 0x1b11);
	cx.ev(json!({"ev":"reset","part":"n11"}));
	let vals = B11Vals::from_json(&case["vals"]);
	stats.n11_cases += 1;
	// ---- through the builder (its arguments are u64)
	if vals.fits_builder() {
		let pres = json!({"amt":"none","desc":"direct","expiry":"none","fb":0,"routes":0,
			"payee":"recovered","meta":"none","mpp":false});
		let (used, inv) = build_b11(&pres, Some(&vals), &mut rng, secp);
		cx.ev(json!({"ev":"case","fmt":"n11","built":inv.is_ok(),"pres":pres,"vals":used.json(),
			"err":inv.as_ref().err().cloned().unwrap_or_default()}));
		if let Ok(inv) = inv {
			stats.n11_built += 1;
			let s = inv.to_string();
			let back = s.parse::<Bolt11Invoice>();
			let (parsed, equal, acc, reser) = match &back {
				Ok(b) => (true, *b == inv, b11_accessors(b) == b11_accessors(&inv), b.to_string() == s),
				Err(_) => (false, false, false, false),
			};
			let upper = s.to_uppercase().parse::<Bolt11Invoice>().map_or(false, |b| b == inv);
			cx.ev(json!({"ev":"roundtrip","kind":"b11","parsed":parsed,"equal":equal,"acc":acc,"reser":reser,
				"upper_ok":upper,"len":s.len(),"err":back.as_ref().err().map(|e| format!("{:?}", e)).unwrap_or_default()}));
			stats.roundtrips += 1;
			if let Ok(b) = &back {
				cx.ev(json!({"ev":"exposed","vals":B11Vals::exposed_by(b).json()}));
			}
		}
	}
	// ---- through a hand-assembled string (what 7 symbols / a 10-bit length can spell)
	if vals.ts > MAX_TIMESTAMP as u128 || vals.desc > 639 {
		return;
	}
	let sk = rand_sk(&mut rng);
	let pk = PublicKey::from_secret_key(secp, &sk);
	let cur = *["bc", "tb", "bcrt", "sb", "tbs"].choose(&mut rng).unwrap();
	let hrp = format!("ln{}{}", cur, vals.amt.map_or(String::new(), amount_hrp));
	let mut fields: Vec<(u8, Vec<u8>)> = vec![(1, regroup(&r32(&mut rng), 8, 5))];
	if vals.desc >= 0 {
		let mut t = "a".repeat(vals.desc as usize);
		if vals.desc >= 3 {
			t.truncate(vals.desc as usize - 2);
			t.push('ü');
		}
		fields.push((13, regroup(t.as_bytes(), 8, 5)));
	} else {
		fields.push((23, regroup(&r32(&mut rng), 8, 5)));
	}
	let x_at = fields.len();
	if let Some(x) = vals.expiry {
		fields.push((6, int_syms(x)));
	}
	let c_at = fields.len();
	fields.push((24, int_syms(vals.cltv)));
	fields.push((16, regroup(&r32(&mut rng), 8, 5)));
	fields.push((5, vec![16, 8, 0])); // features: var_onion_optin and payment_secret required
	if rng.gen_bool(0.5) {
		fields.swap(0, c_at); // the order of tagged fields is free
	}
	let s = assemble_b11(&hrp, vals.ts as u64, &fields, &sk, secp);
	if !parse_assembled11(cx, stats, &s, &vals, true, &pk) {
		return;
	}
	// the same numbers with one leading zero digit (not the shortest form: only "never panics")
	let mut f2 = fields.clone();
	for (tag, d) in f2.iter_mut() {
		if *tag == 6 || *tag == 24 {
			d.insert(0, 0);
		}
	}
	let _ = x_at;
	let s2 = assemble_b11(&hrp, vals.ts as u64, &f2, &sk, secp);
	parse_assembled11(cx, stats, &s2, &vals, false, &pk);
}

// ------------------------------------------------------------------------------------------------
// part (ii): BOLT-12

fn offer_accessors(o: &Offer) -> String {
	format!(
		"{:?}",
		(
			o.chains(),
			o.metadata(),
			o.amount(),
			o.description(),
			o.offer_features(),
			o.absolute_expiry(),
			o.issuer(),
			o.paths(),
			o.supported_quantity(),
			o.issuer_signing_pubkey(),
			o.id(),
		)
	)
}

fn refund_accessors(r: &Refund) -> String {
	format!(
		"{:?}",
		(
			r.description(),
			r.absolute_expiry(),
			r.issuer(),
			r.paths(),
			r.payer_metadata(),
			r.chain(),
			r.amount_msats(),
			r.features(),
			r.quantity(),
			r.payer_signing_pubkey(),
			r.payer_note(),
		)
	)
}

fn invreq_accessors(r: &InvoiceRequest) -> String {
	format!(
		"{:?}",
		(
			(
				r.chains(),
				r.metadata(),
				r.amount(),
				r.description(),
				r.offer_features(),
				r.absolute_expiry(),
				r.issuer(),
				r.paths(),
				r.supported_quantity(),
				r.issuer_signing_pubkey(),
			),
			(
				r.payer_metadata(),
				r.chain(),
				r.amount_msats(),
				r.has_amount_msats(),
				r.invoice_request_features(),
				r.quantity(),
				r.payer_signing_pubkey(),
				r.payer_note(),
				r.signature(),
			),
		)
	)
}

fn invoice_accessors(i: &Bolt12Invoice) -> String {
	format!(
		"{:?}",
		(
			(
				i.offer_chains(),
				i.chain(),
				i.metadata(),
				i.amount(),
				i.offer_features(),
				i.description(),
				i.absolute_expiry(),
				i.issuer(),
				i.message_paths(),
				i.supported_quantity(),
				i.issuer_signing_pubkey(),
			),
			(
				i.payer_metadata(),
				i.invoice_request_features(),
				i.quantity(),
				i.payer_signing_pubkey(),
				i.payer_note(),
				i.payment_hash(),
				i.amount_msats(),
				i.signing_pubkey(),
				i.signature(),
			),
			(
				i.payment_paths(),
				i.created_at(),
				i.relative_expiry(),
				i.fallbacks(),
				i.invoice_features(),
				i.is_for_refund(),
				i.is_for_offer(),
				i.offer_id(),
				i.signable_hash(),
			),
		)
	)
}

fn static_accessors(i: &StaticInvoice) -> String {
	format!(
		"{:?}",
		(
			(
				i.chain(),
				i.metadata(),
				i.amount(),
				i.offer_features(),
				i.description(),
				i.absolute_expiry(),
				i.issuer(),
				i.offer_message_paths(),
				i.held_htlc_available_paths(),
				i.supported_quantity(),
				i.issuer_signing_pubkey(),
			),
			(
				i.signing_pubkey(),
				i.signature(),
				i.payment_paths(),
				i.created_at(),
				i.relative_expiry(),
				i.fallbacks(),
				i.invoice_features(),
				i.offer_id(),
			),
		)
	)
}

/// Round trip of one BOLT-12 object through its TLV bytes (and bech32 string where it has one).
macro_rules! b12_roundtrip {
	($cx: expr, $stats: expr, $kind: expr, $obj: expr, $ty: ty, $acc: ident, $string: expr) => {{
		let bytes = enc($obj);
		let back = <$ty>::try_from(bytes.clone());
		let (parsed, equal, acc, mut reser) = match &back {
			Ok(b) => (true, b == $obj, $acc(b) == $acc($obj), enc(b) == bytes),
			Err(_) => (false, false, false, false),
		};
		let mut str_err = String::new();
		if $string {
			let s = format!("{}", StrOf($obj));
			match StrOf::<$ty>::parse(&s) {
				Ok(b) => reser = reser && enc(&b) == bytes && format!("{}", StrOf(&b)) == s,
				Err(e) => {
					reser = false;
					str_err = e;
				},
			}
		}
		$stats.roundtrips += 1;
		$cx.ev(json!({"ev":"roundtrip","kind":$kind,"parsed":parsed,"equal":equal,"acc":acc,"reser":reser,
			"len":bytes.len(),"err":format!("{}{}", back.as_ref().err().map(|e| format!("{:?}", e)).unwrap_or_default(), str_err)}));
		(parsed && equal && acc && reser, bytes)
	}};
}

/// bech32 string form (only offers and refunds have one; the others never use it)
struct StrOf<'a, T>(&'a T);
impl<'a> std::fmt::Display for StrOf<'a, Offer> {
	fn fmt(&self, f: &mut std::fmt::Formatter) -> std::fmt::Result {
		write!(f, "{}", self.0)
	}
}
impl<'a> std::fmt::Display for StrOf<'a, Refund> {
	fn fmt(&self, f: &mut std::fmt::Formatter) -> std::fmt::Result {
		write!(f, "{}", self.0)
	}
}
macro_rules! no_string_form {
	($t: ty) => {
		impl<'a> std::fmt::Display for StrOf<'a, $t> {
			fn fmt(&self, _f: &mut std::fmt::Formatter) -> std::fmt::Result {
				Ok(())
			}
		}
		impl<'a> StrOf<'a, $t> {
			fn parse(_s: &str) -> Result<$t, String> {
				Err("no string form".into())
			}
		}
	};
}
no_string_form!(InvoiceRequest);
no_string_form!(Bolt12Invoice);
no_string_form!(StaticInvoice);
impl<'a> StrOf<'a, Offer> {
	fn parse(s: &str) -> Result<Offer, String> {
		s.parse::<Offer>().map_err(|e| format!("{:?}", e))
	}
}
impl<'a> StrOf<'a, Refund> {
	fn parse(s: &str) -> Result<Refund, String> {
		s.parse::<Refund>().map_err(|e| format!("{:?}", e))
	}
}

/// Single-bit mutations of a signed TLV stream; `k` = number of sampled bits (None = every bit).
fn bitflips<F: Fn(Vec<u8>) -> bool>(
	cx: &mut Ctx, stats: &mut Stats, kind: &str, bytes: &[u8], k: Option<usize>, rng: &mut StdRng,
	parses: F,
) {
	let nbits = bytes.len() * 8;
	let mut bits: Vec<usize> = (0..nbits).collect();
	if let Some(k) = k {
		bits.shuffle(rng);
		bits.truncate(k);
	}
	for bit in bits {
		let mut m = bytes.to_vec();
		m[bit / 8] ^= 1 << (bit % 8);
		let parsed = parses(m);
		*stats.b12_mut.entry(format!("{}:{}", kind, if parsed { "ok" } else { "err" })).or_insert(0) += 1;
		cx.ev(json!({"ev":"mut12","kind":kind,"bit":bit,"parsed":parsed}));
	}
}

fn run_b12(
	cx: &mut Ctx, pres: &Value, seed: u64, k: Option<usize>, secp: &Secp, stats: &mut Stats,
	corpus: &mut Vec<Vec<u8>>,
) {
	let mut rng = StdRng::seed_from_u64(seed ^ cx.run.wrapping_mul(0x9e37_79b9_7f4a_7c15) ^ 0xb12);
	let salt: u64 = rng.gen();
	let (issuer, payer) = (party(secp, salt, 1), party(secp, salt, 2));
	cx.ev(json!({"ev":"reset","part":"b12"}));
	stats.b12_cases += 1;
	let mode_s = pres["mode"].as_str().unwrap();
	let mode = if mode_s == "explicitmd" { "explicit" } else { mode_s };
	let amt = match pres["amt"].as_str().unwrap() {
		"some" => Some(rng.gen_range(1..2_000_000_000u64)),
		"max" => Some(MAX_VALUE_MSAT),
		_ => None,
	};
	let expiry = if pres["expiry"] == true { Some(FAR_FUTURE + rng.gen_range(0..100_000)) } else { None };
	let issuer_s = if pres["issuer"] == true { Some(rand_text(&mut rng, 20)) } else { None };
	let npaths = pres["paths"].as_u64().unwrap() as usize;
	let k3 = k.map(|k| k * 32);
	if pres["root"] == "offer" {
		let o = OfferOpts {
			chain: match pres["chain"].as_str().unwrap() {
				"testnet" => 1,
				"two" => 2,
				_ => 0,
			},
			amount: amt,
			desc: if pres["desc"] == true { Some(rand_text(&mut rng, 40)) } else { None },
			expiry,
			issuer: issuer_s,
			paths: npaths,
			qty: match pres["qty"].as_str().unwrap() {
				"bounded" => 1,
				"unbounded" => 2,
				_ => 0,
			},
			qty_max: rng.gen_range(1..50),
			explicit_md: if mode_s == "explicitmd" {
				let n = *[1usize, 16, 32, 48, 100].choose(&mut rng).unwrap();
				Some((0..n).map(|_| rng.gen()).collect())
			} else {
				None
			},
		};
		let built = create_offer(&issuer, mode, &o, &mut rng, secp);
		cx.ev(json!({"ev":"case","fmt":"b12","built":built.is_ok(),"pres":pres,
			"err":built.as_ref().err().cloned().unwrap_or_default()}));
		let (offer, nonce) = match built {
			Ok(x) => x,
			Err(_) => return,
		};
		stats.b12_built += 1;
		let (ok, bytes) = b12_roundtrip!(cx, stats, "offer", &offer, Offer, offer_accessors, true);
		if corpus.len() < 128 {
			corpus.push(bytes);
			corpus.push(offer.to_string().into_bytes());
		}
		if !ok {
			return;
		}
		let invreq = match create_invreq(&payer, &offer, &mut rng, secp) {
			Ok(r) => r,
			Err(e) => {
				cx.ev(json!({"ev":"fuzz","target":"invreq_builder_refused","len":0,"parsed":false,"err":e}));
				return;
			},
		};
		let (ok, bytes) =
			b12_roundtrip!(cx, stats, "invreq", &invreq, InvoiceRequest, invreq_accessors, false);
		if !ok {
			return;
		}
		bitflips(cx, stats, "invreq", &bytes, k3, &mut rng, |m| InvoiceRequest::try_from(m).is_ok());
		if corpus.len() < 128 {
			corpus.push(bytes);
		}
		let io = random_inv_opts(&mut rng);
		match respond(&issuer, &invreq, mode, Some(nonce), &io, &mut rng, secp) {
			Ok(inv) => {
				let (ok, bytes) =
					b12_roundtrip!(cx, stats, "invoice", &inv, Bolt12Invoice, invoice_accessors, false);
				if ok {
					bitflips(cx, stats, "invoice", &bytes, k3, &mut rng, |m| Bolt12Invoice::try_from(m).is_ok());
					if corpus.len() < 128 {
						corpus.push(bytes);
					}
				}
			},
			Err(e) => {
				cx.ev(json!({"ev":"fuzz","target":"invoice_builder_refused","len":0,"parsed":false,"err":e}));
			},
		}
		if mode == "path" && o.chain != 2 {
			let held: Vec<BlindedMessagePath> = (0..rng.gen_range(1..=2)).map(|_| msg_path(&mut rng, secp)).collect();
			let b = StaticInvoiceBuilder::for_offer_using_derived_keys(
				&offer,
				pay_paths(&mut rng, secp, io.npaths),
				held,
				Duration::from_secs(CREATED_AT),
				&issuer.ek,
				nonce,
				secp,
			);
			match b.and_then(|b| apply_inv_opts!(b, io, &mut rng).build_and_sign(secp)) {
				Ok(si) => {
					let (ok, bytes) = b12_roundtrip!(
						cx, stats, "static_invoice", &si, StaticInvoice, static_accessors, false
					);
					if ok {
						bitflips(cx, stats, "static_invoice", &bytes, k3, &mut rng, |m| {
							StaticInvoice::try_from(m).is_ok()
						});
					}
				},
				Err(e) => {
					cx.ev(json!({"ev":"fuzz","target":"static_invoice_builder_refused","len":0,"parsed":false,"err":format!("{:?}", e)}));
				},
			}
		}
	} else {
		let o = RefundOpts {
			amount: match pres["amt"].as_str().unwrap() {
				"max" => MAX_VALUE_MSAT,
				_ => *[0u64, 1, 1000, 123_456_789].choose(&mut rng).unwrap(),
			},
			desc: rand_text(&mut rng, 40),
			expiry,
			issuer: issuer_s,
			paths: npaths,
			testnet: pres["chain"] == "testnet",
			qty: match pres["qty"].as_str().unwrap() {
				"bounded" => Some(rng.gen_range(1..100)),
				"unbounded" => Some(u64::MAX),
				_ => None,
			},
			note: if rng.gen_bool(0.5) { Some(rand_text(&mut rng, 30)) } else { None },
			explicit_md: if mode_s == "explicitmd" {
				(0..*[1usize, 32, 48, 80].choose(&mut rng).unwrap()).map(|_| rng.gen()).collect()
			} else {
				Vec::new()
			},
		};
		let built = create_refund(&payer, mode, &o, &mut rng, secp);
		cx.ev(json!({"ev":"case","fmt":"b12","built":built.is_ok(),"pres":pres,
			"err":built.as_ref().err().cloned().unwrap_or_default()}));
		let refund = match built {
			Ok(x) => x,
			Err(_) => return,
		};
		stats.b12_built += 1;
		let (ok, bytes) = b12_roundtrip!(cx, stats, "refund", &refund, Refund, refund_accessors, true);
		if corpus.len() < 128 {
			corpus.push(bytes);
			corpus.push(refund.to_string().into_bytes());
		}
		if !ok {
			return;
		}
		let io = random_inv_opts(&mut rng);
		let derived = rng.gen_bool(0.5);
		match respond_refund(&issuer, &refund, &io, derived, &mut rng, secp) {
			Ok(inv) => {
				let (ok, bytes) = b12_roundtrip!(
					cx, stats, "refund_invoice", &inv, Bolt12Invoice, invoice_accessors, false
				);
				if ok {
					bitflips(cx, stats, "refund_invoice", &bytes, k3, &mut rng, |m| {
						Bolt12Invoice::try_from(m).is_ok()
					});
				}
			},
			Err(e) => {
				cx.ev(json!({"ev":"fuzz","target":"refund_invoice_builder_refused","len":0,"parsed":false,"err":e}));
			},
		}
	}
}

// ------------------------------------------------------------------------------------------------
// part (iii), BOLT-12: boundary values of the numeric TLVs through the builders and through
// hand-assembled TLV streams

#[derive(Clone, Debug)]
struct B12Vals {
	refund: bool,
	amt: Option<u128>,
	qty: Option<u128>, // offers: None = one, 0 = unbounded, n = at most n; refunds: the quantity
	aexp: Option<u128>,
}
impl B12Vals {
	fn json(&self) -> Value {
		json!({"root": if self.refund { "refund" } else { "offer" }, "amt": opt_json(self.amt),
			"qty": opt_json(self.qty), "aexp": opt_json(self.aexp)})
	}
	fn of_offer(o: &Offer) -> B12Vals {
		B12Vals {
			refund: false,
			amt: match o.amount() {
				Some(lightning::offers::offer::Amount::Bitcoin { amount_msats }) => Some(amount_msats as u128),
				_ => None,
			},
			qty: match o.supported_quantity() {
				Quantity::One => None,
				Quantity::Unbounded => Some(0),
				Quantity::Bounded(n) => Some(n.get() as u128),
			},
			aexp: o.absolute_expiry().map(|d| d.as_secs() as u128),
		}
	}
	fn of_refund(r: &Refund) -> B12Vals {
		B12Vals {
			refund: true,
			amt: Some(r.amount_msats() as u128),
			qty: r.quantity().map(|q| q as u128),
			aexp: r.absolute_expiry().map(|d| d.as_secs() as u128),
		}
	}
}

fn assembled12_ev(
	cx: &mut Ctx, stats: &mut Stats, kind: &str, vals: Value, zero: Value,
	r: std::thread::Result<Option<(bool, bool, Value)>>, bytes: &[u8],
) -> bool {
	stats.assembled += 1;
	match r {
		Err(_) => {
			let hex: String = bytes.iter().map(|b| format!("{:02x}", b)).collect();
			stats.assembled_panics += 1;
			cx.ev(json!({"ev":"panic","where":format!("assembled {}", kind),"input":hex}));
			false
		},
		Ok(Some((reser, signer_eq, got))) => {
			stats.assembled_parsed += 1;
			cx.ev(json!({"ev":"assembled","kind":kind,"canon":true,"parsed":true,"reser":reser,
				"signer_eq":signer_eq,"vals":vals,"got":got,"err":"","len":bytes.len()}));
			true
		},
		Ok(None) => {
			cx.ev(json!({"ev":"assembled","kind":kind,"canon":true,"parsed":false,"reser":false,
				"signer_eq":false,"vals":vals,"got":zero,"err":"refused","len":bytes.len()}));
			true
		},
	}
}

fn run_n12(cx: &mut Ctx, case: &Value, seed: u64, secp: &Secp, stats: &mut Stats) {
	let mut rng = StdRng::seed_from_u64(seed ^ cx.run.wrapping_mul(0x9e37_79b9_7f4a_7c15) ^ 0x1b12);
	cx.ev(json!({"ev":"reset","part":"n12"}));
	let v = &case["vals"];
	let vals = B12Vals {
		refund: v["root"] == "refund",
		amt: json_num(&v["amt"]),
		qty: json_num(&v["qty"]),
		aexp: json_num(&v["aexp"]),
	};
	stats.n12_cases += 1;
	let pk = rand_pk(&mut rng, secp);
	let m = u64::MAX as u128;
	let fits = vals.amt.map_or(true, |x| x <= m) && vals.qty.map_or(true, |x| x <= m) && vals.aexp.map_or(true, |x| x <= m);
	let zero = B12Vals { refund: vals.refund, amt: if vals.refund { Some(0) } else { None }, qty: None, aexp: None }.json();
	let md: Vec<u8> = (0..rng.gen_range(1..40)).map(|_| rng.gen()).collect();
	if !vals.refund {
		if fits {
			let mut b = OfferBuilder::new(pk).description("n12".to_string());
			if let Some(a) = vals.amt {
				b = b.amount_msats(a as u64);
			}
			match vals.qty {
				None => {},
				Some(0) => b = b.supported_quantity(Quantity::Unbounded),
				Some(n) => b = b.supported_quantity(Quantity::Bounded(NonZeroU64::new(n as u64).unwrap())),
			}
			if let Some(x) = vals.aexp {
				b = b.absolute_expiry(Duration::from_secs(x as u64));
			}
			let built = b.build();
			cx.ev(json!({"ev":"case","fmt":"n12","built":built.is_ok(),"vals":vals.json(),
				"err":built.as_ref().err().map(|e| format!("{:?}", e)).unwrap_or_default()}));
			if let Ok(offer) = built {
				stats.n12_built += 1;
				let (ok, bytes) = b12_roundtrip!(cx, stats, "offer", &offer, Offer, offer_accessors, true);
				if ok {
					cx.ev(json!({"ev":"exposed","vals":B12Vals::of_offer(&Offer::try_from(bytes).unwrap()).json()}));
				}
			}
		}
		// hand-assembled TLV stream: description, amount, absolute_expiry, quantity_max, issuer_id
		let mut recs: Recs = vec![(10, b"n12".to_vec())];
		if let Some(a) = vals.amt {
			recs.push((8, tu64(a as u64)));
		}
		if let Some(x) = vals.aexp {
			recs.push((14, tu64(x as u64)));
		}
		if let Some(q) = vals.qty {
			recs.push((20, tu64(q as u64)));
		}
		recs.push((22, pk.serialize().to_vec()));
		recs.sort_by_key(|r| r.0);
		if fits {
			let bytes = tlv_ser(&recs);
			let r = catch_unwind(AssertUnwindSafe(|| {
				Offer::try_from(bytes.clone()).ok().map(|o| {
					(enc(&o) == bytes, o.issuer_signing_pubkey() == Some(pk), B12Vals::of_offer(&o).json())
				})
			}));
			assembled12_ev(cx, stats, "offer", vals.json(), zero, r, &bytes);
		}
	} else {
		if fits {
			let built = RefundBuilder::new(md.clone(), pk, vals.amt.unwrap() as u64).map(|mut b| {
				b = b.description("n12".to_string());
				if let Some(q) = vals.qty {
					b = b.quantity(q as u64);
				}
				if let Some(x) = vals.aexp {
					b = b.absolute_expiry(Duration::from_secs(x as u64));
				}
				b
			});
			let built = built.and_then(|b| b.build());
			cx.ev(json!({"ev":"case","fmt":"n12","built":built.is_ok(),"vals":vals.json(),
				"err":built.as_ref().err().map(|e| format!("{:?}", e)).unwrap_or_default()}));
			if let Ok(refund) = built {
				stats.n12_built += 1;
				let (ok, bytes) = b12_roundtrip!(cx, stats, "refund", &refund, Refund, refund_accessors, true);
				if ok {
					cx.ev(json!({"ev":"exposed","vals":B12Vals::of_refund(&Refund::try_from(bytes).unwrap()).json()}));
				}
			}
			// hand-assembled: payer metadata, description, absolute_expiry, amount, quantity, payer_id
			let mut recs: Recs = vec![(0, md), (10, b"n12".to_vec()), (82, tu64(vals.amt.unwrap() as u64))];
			if let Some(x) = vals.aexp {
				recs.push((14, tu64(x as u64)));
			}
			if let Some(q) = vals.qty {
				recs.push((86, tu64(q as u64)));
			}
			recs.push((88, pk.serialize().to_vec()));
			recs.sort_by_key(|r| r.0);
			let bytes = tlv_ser(&recs);
			let r = catch_unwind(AssertUnwindSafe(|| {
				Refund::try_from(bytes.clone()).ok().map(|o| {
					(enc(&o) == bytes, o.payer_signing_pubkey() == pk, B12Vals::of_refund(&o).json())
				})
			}));
			assembled12_ev(cx, stats, "refund", vals.json(), zero, r, &bytes);
		}
	}
}

/// created_at / relative_expiry of an invoice (for an ordinary refund), through the builder and
/// through an edited, re-signed TLV stream
fn run_i12(cx: &mut Ctx, case: &Value, seed: u64, secp: &Secp, stats: &mut Stats) {
	let mut rng = StdRng::seed_from_u64(seed ^ cx.run.wrapping_mul(0x9e37_79b9_7f4a_7c15) ^ 0x1b13);
	cx.ev(json!({"ev":"reset","part":"i12"}));
	let created = json_num(&case["vals"]["created"]).unwrap();
	let rexp = json_num(&case["vals"]["rexp"]);
	stats.n12_cases += 1;
	let vj = |c: u128, r: Option<u128>| json!({"created": num_json(c), "rexp": opt_json(r)});
	let got_of = |i: &Bolt12Invoice| {
		let has = tlv_parse(&enc(i)).map_or(false, |r| tlv_get(&r, 166).is_some());
		vj(i.created_at().as_secs() as u128, if has { Some(i.relative_expiry().as_secs() as u128) } else { None })
	};
	let salt: u64 = rng.gen();
	let (issuer, payer) = (party(secp, salt, 1), party(secp, salt, 2));
	let refund = match RefundBuilder::new(vec![7; 8], payer.pk, 2_500_000).and_then(|b| b.description("i12".into()).build()) {
		Ok(r) => r,
		Err(e) => {
			cx.ev(json!({"ev":"fuzz","target":"refund_builder_refused","len":0,"parsed":false,"err":format!("{:?}", e)}));
			return;
		},
	};
	let e = |e| format!("{:?}", e);
	let build = |c: u64, r: Option<u32>, rng: &mut StdRng| -> Result<Bolt12Invoice, String> {
		let mut b = refund
			.respond_with_no_std(pay_paths(rng, secp, 1), PaymentHash(r32(rng)), issuer.pk, Duration::from_secs(c))
			.map_err(e)?;
		if let Some(r) = r {
			b = b.relative_expiry(r);
		}
		sign_unsigned(b.build().map_err(e)?, &issuer.kp, secp)
	};
	if created <= u64::MAX as u128 && rexp.map_or(true, |r| r <= u32::MAX as u128) {
		let built = build(created as u64, rexp.map(|r| r as u32), &mut rng);
		cx.ev(json!({"ev":"case","fmt":"i12","built":built.is_ok(),"vals":vj(created, rexp),
			"err":built.as_ref().err().cloned().unwrap_or_default()}));
		if let Ok(inv) = built {
			stats.n12_built += 1;
			let (ok, bytes) = b12_roundtrip!(cx, stats, "refund_invoice", &inv, Bolt12Invoice, invoice_accessors, false);
			if ok {
				cx.ev(json!({"ev":"exposed","vals":got_of(&Bolt12Invoice::try_from(bytes).unwrap())}));
			}
		}
	}
	// an ordinary invoice whose created_at / relative_expiry records are rewritten, signed again
	let base = match build(CREATED_AT, None, &mut rng) {
		Ok(i) => i,
		Err(_) => return,
	};
	if created > u64::MAX as u128 || rexp.map_or(false, |r| r > u64::MAX as u128) {
		return;
	}
	let mut recs = tlv_parse(&enc(&base)).unwrap();
	recs.retain(|r| !(240..=1000).contains(&r.0));
	tlv_set(&mut recs, 164, tu64(created as u64));
	if let Some(r) = rexp {
		tlv_set(&mut recs, 166, tu64(r as u64));
	}
	let unsigned_bytes = tlv_ser(&recs);
	let pk = issuer.pk;
	let mut signed_bytes = unsigned_bytes.clone();
	let r = catch_unwind(AssertUnwindSafe(|| {
		let u = UnsignedBolt12Invoice::try_from(unsigned_bytes.clone()).ok()?;
		let inv = sign_unsigned(u, &issuer.kp, secp).ok()?;
		let bytes = enc(&inv);
		let back = Bolt12Invoice::try_from(bytes.clone()).ok()?;
		// the stream without its signature record must be the one that was assembled
		let mut rr = tlv_parse(&enc(&back))?;
		rr.retain(|r| !(240..=1000).contains(&r.0));
		Some((bytes, tlv_ser(&rr) == unsigned_bytes && enc(&back) == enc(&inv), back.signing_pubkey() == pk, got_of(&back)))
	}));
	let r = r.map(|o| {
		o.map(|(b, reser, signer_eq, got)| {
			signed_bytes = b;
			(reser, signer_eq, got)
		})
	});
	assembled12_ev(cx, stats, "invoice", vj(created, rexp), vj(0, None), r, &signed_bytes);
}

// ------------------------------------------------------------------------------------------------
// arbitrary strings and byte streams

fn run_fuzz(cx: &mut Ctx, seed: u64, n: usize, corpus: &[Vec<u8>], stats: &mut Stats) {
	let mut rng = StdRng::seed_from_u64(seed ^ cx.run.wrapping_mul(0x9e37_79b9_7f4a_7c15) ^ 0xf022);
	cx.ev(json!({"ev":"reset","part":"fuzz"}));
	for _ in 0..n {
		let mut input: Vec<u8> = match rng.gen_range(0..4) {
			0 => (0..rng.gen_range(0..300)).map(|_| rng.gen()).collect(),
			1 => {
				// bech32-looking string
				let hrp = *["lnbc", "lntb1u", "lno", "lnr", "lni", "LNBC2500U", "lnbc9999999999999999999p"].choose(&mut rng).unwrap();
				let mut s = format!("{}1", hrp).into_bytes();
				for _ in 0..rng.gen_range(0..400) {
					s.push(CHARSET[rng.gen_range(0..32)]);
				}
				s
			},
			_ if !corpus.is_empty() => corpus.choose(&mut rng).unwrap().clone(),
			_ => Vec::new(),
		};
		// several random edits
		for _ in 0..rng.gen_range(0..6) {
			if input.is_empty() {
				break;
			}
			let p = rng.gen_range(0..input.len());
			match rng.gen_range(0..6) {
				0 => input[p] = rng.gen(),
				1 => input[p] ^= 1 << rng.gen_range(0..8),
				2 => input.truncate(p),
				3 => input.insert(p, rng.gen()),
				4 => {
					let q = rng.gen_range(p..input.len().min(p + 40));
					let piece = input[p..q].to_vec();
					input.splice(p..p, piece);
				},
				_ => input[p] = *[0u8, 0xff, 0xfd, 0xfe, b'1', b'+', b' '].choose(&mut rng).unwrap(),
			}
		}
		let len = input.len();
		let mut emit = |target: &str, parsed: bool| {
			stats.fuzz += 1;
			cx.ev(json!({"ev":"fuzz","target":target,"len":len,"parsed":parsed}));
		};
		emit("offer_bytes", Offer::try_from(input.clone()).is_ok());
		emit("refund_bytes", Refund::try_from(input.clone()).is_ok());
		emit("invreq_bytes", InvoiceRequest::try_from(input.clone()).is_ok());
		emit("invoice_bytes", Bolt12Invoice::try_from(input.clone()).is_ok());
		emit("static_invoice_bytes", StaticInvoice::try_from(input.clone()).is_ok());
		emit("unsigned_invoice_bytes", UnsignedBolt12Invoice::try_from(input.clone()).is_ok());
		let s = String::from_utf8_lossy(&input).to_string();
		emit("b11_str", s.parse::<Bolt11Invoice>().is_ok());
		emit("b11_signed_raw_str", s.parse::<SignedRawBolt11Invoice>().is_ok());
		emit("offer_str", s.parse::<Offer>().is_ok());
		emit("refund_str", s.parse::<Refund>().is_ok());
	}
}

// ------------------------------------------------------------------------------------------------

#[derive(Default)]
struct Stats {
	proto_runs: u64,
	proto_build_failed: u64,
	verifies: u64,
	accepts: u64,
	b11_cases: u64,
	b11_built: u64,
	b12_cases: u64,
	b12_built: u64,
	roundtrips: u64,
	fuzz: u64,
	sweep_bits: u64,
	sweep_judged: u64,
	n11_cases: u64,
	n11_built: u64,
	n12_cases: u64,
	n12_built: u64,
	assembled: u64,
	assembled_parsed: u64,
	assembled_panics: u64,
	b11_mut: BTreeMap<String, u64>,
	b12_mut: BTreeMap<String, u64>,
}

fn read_lines(p: &Option<String>) -> Vec<Value> {
	let mut v = Vec::new();
	if let Some(p) = p {
		for line in std::fs::read_to_string(p).unwrap().lines() {
			if !line.trim().is_empty() {
				v.push(serde_json::from_str(line).unwrap());
			}
		}
	}
	v
}

fn main() {
	let args: Vec<String> = std::env::args().collect();
	let mut scripts_path = None;
	let mut cases_path = None;
	let mut out = String::from("trace.ndjson");
	let mut seed = 1u64;
	let mut muts = 2usize;
	let mut full = 0usize;
	let mut fuzz = 0usize;
	let mut first_run = 1u64;
	let mut sweeps_path = None;
	let mut sweep_bits = 0usize;
	let mut i = 1;
	while i < args.len() {
		match args[i].as_str() {
			"--scripts" => { scripts_path = Some(args[i + 1].clone()); i += 1 },
			"--cases" => { cases_path = Some(args[i + 1].clone()); i += 1 },
			"--out" => { out = args[i + 1].clone(); i += 1 },
			"--seed" => { seed = args[i + 1].parse().unwrap(); i += 1 },
			"--muts" => { muts = args[i + 1].parse().unwrap(); i += 1 },
			"--full" => { full = args[i + 1].parse().unwrap(); i += 1 },
			"--fuzz" => { fuzz = args[i + 1].parse().unwrap(); i += 1 },
			"--first-run" => { first_run = args[i + 1].parse().unwrap(); i += 1 },
			"--sweeps" => { sweeps_path = Some(args[i + 1].clone()); i += 1 },
			"--sweep-bits" => { sweep_bits = args[i + 1].parse().unwrap(); i += 1 },
			_ => {},
		}
		i += 1;
	}
	std::panic::set_hook(Box::new(|_| {}));
	let secp = Secp256k1::new();
	let scripts = read_lines(&scripts_path);
	let cases = read_lines(&cases_path);
	let mut tw = TraceWriter::create(&out);
	let mut stats = Stats::default();
	let mut panics = 0u64;
	let mut run = first_run - 1;
	let mut corpus: Vec<Vec<u8>> = Vec::new();
	let flush = |log: Vec<Value>, tw: &mut TraceWriter| {
		for e in log {
			tw.emit(e);
		}
	};
	for s in scripts.iter() {
		run += 1;
		stats.proto_runs += 1;
		let mut log = Vec::new();
		let r = catch_unwind(AssertUnwindSafe(|| {
			run_proto(&mut Ctx { run, log: &mut log }, s, seed, &secp, &mut stats)
		}));
		if r.is_err() {
			panics += 1;
			log.push(json!({"run":run,"ev":"panic","where":"proto"}));
		}
		flush(log, &mut tw);
	}
	// the first `full` cases of each format get every position / every bit
	let (mut n11, mut n12) = (0usize, 0usize);
	for c in cases.iter() {
		run += 1;
		let mut log = Vec::new();
		let fmt = c["fmt"].as_str().unwrap().to_string();
		let r = catch_unwind(AssertUnwindSafe(|| {
			let mut cx = Ctx { run, log: &mut log };
			if fmt == "n11" {
				run_n11(&mut cx, c, seed, &secp, &mut stats)
			} else if fmt == "n12" {
				run_n12(&mut cx, c, seed, &secp, &mut stats)
			} else if fmt == "i12" {
				run_i12(&mut cx, c, seed, &secp, &mut stats)
			} else if fmt == "b11" {
				n11 += 1;
				let k = if n11 <= full { None } else { Some(muts) };
				run_b11(&mut cx, &c["pres"], seed, k, &secp, &mut stats, &mut corpus)
			} else {
				n12 += 1;
				let k = if n12 <= full { None } else { Some(muts) };
				run_b12(&mut cx, &c["pres"], seed, k, &secp, &mut stats, &mut corpus)
			}
		}));
		if r.is_err() {
			panics += 1;
			log.push(json!({"run":run,"ev":"panic","where":fmt}));
		}
		flush(log, &mut tw);
	}
	let mut left = fuzz;
	while left > 0 {
		let n = left.min(200);
		left -= n;
		run += 1;
		let mut log = Vec::new();
		let r = catch_unwind(AssertUnwindSafe(|| {
			run_fuzz(&mut Ctx { run, log: &mut log }, seed, n, &corpus, &mut stats)
		}));
		if r.is_err() {
			panics += 1;
			log.push(json!({"run":run,"ev":"panic","where":"fuzz"}));
		}
		flush(log, &mut tw);
	}
	// single-bit sweeps come last: one directive produces several runs
	for d in read_lines(&sweeps_path).iter() {
		run_sweeps(d, seed, &mut run, &mut tw, &secp, &mut stats, &mut panics, sweep_bits);
	}
	tw.flush();
	println!(
		"{}",
		json!({"runs": run, "events": tw.lines, "panics": panics + stats.assembled_panics,
			"proto_runs": stats.proto_runs, "proto_build_failed": stats.proto_build_failed,
			"verifies": stats.verifies, "accepts": stats.accepts,
			"b11_cases": stats.b11_cases, "b11_built": stats.b11_built,
			"b12_cases": stats.b12_cases, "b12_built": stats.b12_built,
			"roundtrips": stats.roundtrips, "fuzz": stats.fuzz,
			"sweep_bits": stats.sweep_bits, "sweep_judged": stats.sweep_judged,
			"n11_cases": stats.n11_cases, "n11_built": stats.n11_built,
			"n12_cases": stats.n12_cases, "n12_built": stats.n12_built,
			"assembled": stats.assembled, "assembled_parsed": stats.assembled_parsed,
			"b11_mut": stats.b11_mut, "b12_mut": stats.b12_mut})
	);
}
