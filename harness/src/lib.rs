//! Shared helpers for the verification harness engines.
pub mod trace;
