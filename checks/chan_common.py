"""Shared driver of the channel-protocol checks (C01, C05, C09): engine `channet` + spec Chan.tla.

    design check   TLC on ChanMC.tla (two endpoints + FIFO links): agreement, conservation, revocation
    behaviours     TLC's quiescent states -> user-level scripts, replayed on real ChannelManagers
    random drivers seeded scripts (three channel types, boundary amounts, fee updates, disconnects,
                   asynchronous monitor persistence, 2 and 3 nodes)
    oracle         TLC validates every recorded run against ChanTrace.tla; a rejected run is
                   re-validated with each property's guard group relaxed to attribute it
"""
import json, os, random, time
import vlib

GROUPS = {"C02": "ChanTraceR02.cfg", "C01": "ChanTraceR01.cfg", "C05": "ChanTraceR05.cfg", "C09": "ChanTraceR09.cfg",
          "C10": "ChanTraceR10.cfg", "C12": "ChanTraceR12.cfg", "C14": "ChanTraceR14.cfg"}
AMT_CLASS = {100000: "dust", 400000: "dust-edge", 600000: "big"}


CONNECT_STYLES = ["BEST_BLOCK_FIRST", "TRANSACTIONS_FIRST", "FULL_BLOCK_VIA_LISTEN", "BEST_BLOCK_FIRST_SKIPPING_BLOCKS",
                  "TRANSACTIONS_FIRST_SKIPPING_BLOCKS", "TRANSACTIONS_DUPLICATIVELY_FIRST_SKIPPING_BLOCKS",
                  "HIGHLY_REDUNDANT_TRANSACTIONS_FIRST_SKIPPING_BLOCKS", "REPLAYED_FULL_BLOCK_VIA_LISTEN"]


def convert_script(s, chan_type, rng):
    """TLC behaviour (user-level ops of ChanMC) -> channet script."""
    ops = []
    npay = 0
    hash_to_pay = {}
    for o in s["ops"]:
        o = dict(o)
        if o["op"] == "send":
            # model hash = 10*side + k  (side 1 -> node 0)
            side = o["from"] + 1
            k = sum(1 for h in hash_to_pay if h // 10 == side)
            hash_to_pay[10 * side + k] = npay
            npay += 1
            o["amt"] = AMT_CLASS.get(o["amt"], "big")
            ops.append(o)
        elif o["op"] in ("claim", "fail"):
            if o["hash"] in hash_to_pay:
                ops.append({"op": o["op"], "pay": hash_to_pay[o["hash"]]})
        else:
            ops.append(o)
    ops += [{"op": "reconnect", "a": 0, "b": 1}, {"op": "deliver_all"}]
    ops += [{"op": "claim" if rng.random() < 0.6 else "fail", "pay": k} for k in range(npay)]
    ops += [{"op": "deliver_all"}, {"op": "proj", "final": True}]
    value = rng.choice([100000, 1000000])
    return {"cfg": {"nodes": 2, "chan_type": chan_type, "value": value, "push": value * 500,
                    "feerate": rng.choice([253, 1000])}, "ops": ops}


def convert_batch(s, rng):
    """Behaviour of BatchOpen.tla -> channet script: node 0 funds one channel to each of its n peers (star) with a
    single transaction; per channel the write mode of its first monitor and the moment funding_signed arrives,
    completions oldest / newest first as TLC chose."""
    n = s["n"]
    peers = list(range(1, n + 1))
    value = rng.choice([100000, 1000000])
    cfg = {"nodes": n + 1, "edges": [[0, p] for p in peers], "chan_type": rng.choice(["static", "anchors", "zerofee"]),
           "value": value, "push": value * 500, "feerate": 253}
    ops = [{"op": "open_batch", "a": 0, "peers": peers}]
    for p in peers:
        ops += [{"op": "deliver", "from": 0, "to": p}, {"op": "deliver", "from": p, "to": 0}]      # open_channel, accept_channel
    for p in peers:
        ops.append({"op": "deliver", "from": 0, "to": p})                                          # funding_created
    for st in s["steps"]:
        if st["op"] == "fs":
            ops.append({"op": "persist_mode", "node": 0, "mode": "inprogress" if st["async"] else "completed"})
            ops.append({"op": "deliver", "from": st["chan"], "to": 0})                              # funding_signed
            ops.append({"op": "persist_mode", "node": 0, "mode": "completed"})
        else:
            ops.append({"op": "complete", "node": 0, "which": "newest" if st["newest"] else "oldest"})
    ops += [{"op": "deliver_all"}, {"op": "confirm_extra"}, {"op": "deliver_all"}]
    pairs = [(0, p) for p in peers]
    ops += [{"op": "reconnect", "a": a, "b": b} for a, b in pairs]
    ops += [{"op": "complete", "node": 0, "which": "all"}, {"op": "deliver_all"}, {"op": "confirm_extra"}, {"op": "deliver_all"},
            {"op": "proj", "final": True}]
    return {"cfg": cfg, "ops": ops}


def convert_stale(s, rng):
    """Behaviour of StaleReconcile.tla -> channet script (A - B - C): k HTLCs outstanding on B-C when B's manager is
    written; C resolves the ones TLC chose, in that order, each dance completing link by link (B does not get to act on
    it); B restarts from the written manager and the latest monitors."""
    import fwd_scripts
    k = s["k"]
    ops = []
    for _ in range(k):
        if rng.random() < 0.7:
            ops += [{"op": "send", "from": 0, "to": 2, "amt": rng.choice(["big", "justabove", "justabove"])},
                    {"op": "deliver_all"}, {"op": "forward", "node": 1}, {"op": "deliver_all"}]
        else:
            ops += [{"op": "send", "from": 1, "to": 2, "amt": rng.choice(["big", "justabove"])}, {"op": "deliver_all"}]
    ops.append({"op": "save", "node": 1})
    dance = ([{"op": "deliver", "from": 2, "to": 1}] * 3 + [{"op": "deliver", "from": 1, "to": 2}] * 3) * 3
    for st in s["steps"]:
        if st["op"] in ("fail", "claim"):
            ops.append({"op": st["op"], "pay": st["htlc"] - 1})
            ops += dance
        else:
            ops.append({"op": "crash", "node": 1, "mgr": "saved", "mon": "latest"})
    ops += fwd_scripts._wind_down(k, rng, [(0, 1), (1, 2)])
    return {"cfg": fwd_scripts._cfg(rng, 3), "ops": ops}


def convert_monb(s, rng):
    """Behaviour of MonBroadcast.tla -> channet script (2 nodes): the peer b is in the middle of the exchange TLC chose,
    `before` of its messages reach a, the user asks a's monitor to broadcast, `then` more are handled before a's manager
    looks at the monitor's events."""
    import fwd_scripts
    kind = s["kind"]
    a, b = (1, 0) if kind == "fee" or rng.random() < 0.5 else (0, 1)       # (only the funder, node 0, sends update_fee)
    ops = []
    npay = 0
    if rng.random() < 0.4:
        ops += [{"op": "send", "from": rng.choice([0, 1]), "to": None, "amt": rng.choice(["big", "justabove", "dust"])}]
        ops[-1]["to"] = 1 - ops[-1]["from"]
        ops.append({"op": "deliver_all"})
        npay += 1
    if kind == "add":
        ops.append({"op": "send", "from": b, "to": a, "amt": rng.choice(["big", "justabove", "dust"])})
        npay += 1
    elif kind == "reply":
        ops.append({"op": "send", "from": a, "to": b, "amt": rng.choice(["big", "justabove"])})
        npay += 1
        ops += [{"op": "deliver", "from": a, "to": b}] * 2
    elif kind == "remove":
        ops += [{"op": "send", "from": a, "to": b, "amt": rng.choice(["big", "justabove"])}, {"op": "deliver_all"}]
        ops.append({"op": rng.choice(["claim", "claim", "fail"]), "pay": npay})
        npay += 1
    else:
        ops.append({"op": "fee", "node": b, "feerate": rng.choice([500, 1000, 2000])})
    ops += [{"op": "deliver", "from": b, "to": a}] * s["before"]
    ops.append({"op": "mon_broadcast", "a": a, "b": b, "then": s["then"]})
    ops += fwd_scripts._deliveries(rng, [(0, 1), (1, 0)], rng.randrange(0, 4))
    ops += fwd_scripts._wind_down(npay, rng, [(0, 1)])
    return {"cfg": fwd_scripts._cfg(rng, 2), "ops": ops}


def convert_disc(s, rng):
    """Behaviour of DisComplete.tla -> channet script (A - B - C): the write of the revocation that B's next step waits for
    is in flight; that peer disconnects / reconnects and the write completes in the order TLC chose."""
    import fwd_scripts
    what = s["what"]
    src, dst = rng.choice([(0, 2), (2, 0)])
    ops = []
    npay = 0
    if rng.random() < 0.3:
        ops += [{"op": "send", "from": dst, "to": src, "amt": "big"}, {"op": "deliver_all"}]
        npay += 1
    ops.append({"op": "send", "from": src, "to": dst, "amt": rng.choice(["big", "justabove", "dust"])})
    pay = npay
    npay += 1
    if what == "forward":
        peer = src
        ops += [{"op": "deliver", "from": src, "to": 1}] * 2 + [{"op": "deliver", "from": 1, "to": src}] * 2
    else:
        peer = dst
        ops.append({"op": "deliver_all"})
        ops.append({"op": "fail" if what == "failback" else "claim", "pay": pay})
        ops += [{"op": "deliver", "from": dst, "to": 1}] * 2 + [{"op": "deliver", "from": 1, "to": dst}] * 2
    ops.append({"op": "persist_mode", "node": 1, "mode": "inprogress"})
    a, b = min(1, peer), max(1, peer)
    for st in s["steps"]:
        if st == "raa":
            ops += [{"op": "deliver", "from": peer, "to": 1}] * rng.choice([1, 1, 2])
        elif st == "disconnect":
            ops.append({"op": "disconnect", "a": a, "b": b})
        elif st == "reconnect":
            ops.append({"op": "reconnect", "a": a, "b": b})
            ops += fwd_scripts._deliveries(rng, [(1, peer), (peer, 1)], rng.randrange(0, 4))
        else:
            ops += [{"op": "complete", "node": 1, "which": "all"}, {"op": "forward", "node": 1}]
            other = dst if peer == src else src
            ops += fwd_scripts._deliveries(rng, [(1, other), (other, 1)], rng.randrange(0, 5))
    ops += fwd_scripts._wind_down(npay, rng, [(0, 1), (1, 2)])
    return {"cfg": fwd_scripts._cfg(rng, 3), "ops": ops}



def convert_gossip(s, rng):
    """Behaviour of GossipStatus.tla (D = 3, E = 2) -> channet script on a line 0 - 1 - 2, observed node 1, judged
    channel 1-2 (the link 0-1 stays up so that node 1 has somebody to tell): a model tick while the channel is not live
    stands for 4 timer ticks (3 model ticks >= DISABLE_GOSSIP_TICKS + 1, 2 stay below), one while it is live for 3
    (2 model ticks >= ENABLE_GOSSIP_TICKS + 1, 1 stays below); node 1 is written and re-read where TLC says; a long
    tail of ticks in the final liveness lets the observer judge the announcement."""
    import fwd_scripts
    x, y = 1, rng.choice([0, 2])          # y: the peer whose channel is judged
    z = 2 - y
    a, b = min(x, y), max(x, y)
    ops, live, npay = [], True, 0
    if rng.random() < 0.4:
        ops += [{"op": "send", "from": rng.choice([0, 2]), "to": 1, "amt": "big"}, {"op": "deliver_all"}]
        npay = 1
    for st in s["steps"]:
        if st == "disconnect":
            ops.append({"op": "disconnect", "a": a, "b": b}); live = False
        elif st == "reconnect":
            ops += [{"op": "reconnect", "a": a, "b": b}, {"op": "deliver_all"}]; live = True
        elif st == "reload":
            ops += [{"op": "reload", "node": x}, {"op": "reconnect", "a": min(x, z), "b": max(x, z)}, {"op": "deliver_all"}]; live = False
        else:
            ops += [{"op": "tick", "node": x}] * (3 if live else 4) + [{"op": "deliver_all"}]
    if rng.random() < 0.5 and not live:
        ops += [{"op": "reconnect", "a": a, "b": b}, {"op": "deliver_all"}]; live = True
    for _ in range(17):
        ops += [{"op": "tick", "node": x}, {"op": "deliver_all"}]
    ops += [{"op": "reconnect", "a": 0, "b": 1}, {"op": "reconnect", "a": 1, "b": 2}, {"op": "deliver_all"}]
    for k in range(npay):
        ops += [{"op": "claim", "pay": k}, {"op": "deliver_all"}]
    ops += [{"op": "deliver_all"}, {"op": "proj", "final": True}]
    return {"cfg": fwd_scripts._cfg(rng, 3), "ops": ops}


def convert_downreplay(s, rng):
    """Behaviour of DownReplay.tla -> channet script (A - B - C): K payments A -> C offered over B-C one after the other,
    each exchange on B-C advanced message by message as TLC chose, B's monitor write of the newest commitment in flight
    or not; B is killed, C closes B-C on chain; the close is buried, C claims what the confirmed commitment gives it and B
    restarts (chain catch-up first, then the manager replays the in-flight update) in the order TLC chose; the chain
    settles."""
    import fwd_scripts
    ops = []
    npay = 0
    pay_of = {}
    stage = {}
    restarted = False
    msgs = {1: [(1, 2), (1, 2)], 2: [(2, 1)], 3: [(2, 1)]}       # stage -> the deliveries that lead to the next stage
    for st in s["steps"]:
        op, h = st["op"], st["htlc"]
        if op == "build":
            ops.append({"op": "send", "from": 0, "to": 2, "amt": rng.choice(["big", "big", "justabove"])})
            pay_of[h] = npay
            npay += 1
            ops += [{"op": "deliver", "from": f, "to": t} for (f, t) in [(0, 1), (0, 1), (1, 0), (1, 0), (0, 1)]]
            ops.append({"op": "persist_mode", "node": 1, "mode": "inprogress" if st["inflight"] else "completed"})
            ops.append({"op": "forward", "node": 1})
            stage[h] = 1
        elif op == "complete":
            ops += [{"op": "persist_mode", "node": 1, "mode": "completed"}, {"op": "complete", "node": 1, "which": "all"}]
        elif op == "advance":
            ops += [{"op": "deliver", "from": f, "to": t} for (f, t) in msgs[stage[h]]]
            stage[h] += 1
            if stage[h] == 4 and rng.random() < 0.5:
                ops.append({"op": "deliver", "from": 1, "to": 2})        # B's own revoke_and_ack (not modelled: either way)
        elif op == "kill":
            ops.append({"op": "kill", "node": 1})
        elif op == "close":
            ops.append({"op": "force_close", "a": 2, "b": 1})
            ops.append({"op": "mine"})
        elif op == "bury":
            # the depth at which a node acts on a confirmed close (ANTI_REORG_DELAY = 6), and a little more
            ops += [{"op": "mine"}] * rng.choice([5, 6, 7])
            if restarted and rng.random() < 0.6:
                ops.append({"op": "deliver_all"})
        elif op == "cclaim":
            # C knows every preimage: it claims through its manager what the manager holds, and on chain -- handing the
            # preimage to its monitor -- what is an output of the commitment it confirmed
            ops += [{"op": c, "pay": k} for k in range(npay) for c in ("claim", "claim_onchain")]
            ops += [{"op": "mine"}] * rng.choice([1, 1, 2])
        elif op == "restart":
            restarted = True
            ops.append({"op": "crash", "node": 1, "mgr": 0, "mon": "durable"})
            ops.append({"op": "reconnect", "a": 0, "b": 1})
            ops += fwd_scripts._deliveries(rng, [(0, 1), (1, 0)], rng.randrange(0, 5))
    ops += [{"op": "hold_events", "node": i, "on": False} for i in range(3)]
    ops += [{"op": "settle_chain"}, {"op": "proj", "final": True}]
    return {"cfg": fwd_scripts._cfg(rng, 3), "ops": ops}


MODEL_CONVERTERS = {"DownReplay": convert_downreplay, "GossipStatus": convert_gossip, "BatchOpen": convert_batch, "StaleReconcile": convert_stale, "MonBroadcast": convert_monb, "DisComplete": convert_disc}
# (each behaviour of these small models is run in several concrete variations)
MODEL_CAP = {"DownReplay": 220}


def _downreplay_replays(g):
    """does the node die with a monitor write in flight (so that its restart replays it after the chain catch-up)?"""
    infl = False
    for st in g["steps"]:
        if st["op"] == "build":
            infl = st["inflight"]
        elif st["op"] == "complete":
            infl = False
        elif st["op"] == "kill":
            return infl
    return False


MODEL_PRIORITY = {"DownReplay": _downreplay_replays}
MODEL_REPEAT = {"DownReplay": 1, "MonBroadcast": 6, "StaleReconcile": 2, "DisComplete": 3}


def run_lines(path, run):
    out = []
    with open(path) as f:
        for ln in f:
            if '"run":%d,' % run in ln or ln.rstrip().endswith('"run":%d}' % run):
                if json.loads(ln).get("run") == run:
                    out.append(ln)
    return out


def attribute(pid, wd, fail, tag):
    """Which property's guard group explains this rejected run?  Returns a set of group names."""
    p = os.path.join(wd, "attr-%s.ndjson" % tag)
    with open(p, "w") as f:
        for r in fail["run_events"]:
            f.write(json.dumps(r) + "\n")
    groups = set()
    for g, cfg in GROUPS.items():
        _, fl = vlib.validate_trace(pid, "ChanTrace", cfg, p, max_failures=1, tag="attr" + g)
        if not fl:
            groups.add(g)
    # C09 also states that the messages held for a monitor update come out "in the order the protocol
    # requires": a protocol-order / content rejection of a message released by a completion belongs to it too
    ev = fail["rec"]
    # C10 promises that in-flight monitor updates are replayed after a restart and nothing is revealed before:
    # a release-before-durable rejection in a run in which a node was restarted belongs to it as well
    if groups == {"C09"} and any(e.get("ev") == "crash" for e in fail["run_events"][:fail["pos_in_run"]]):
        groups.add("C10")
    # C12: a node re-read from what it wrote reacts to everything that follows like the original; a rejection
    # after a clean reload (in a run that the original would have passed) belongs to it as well
    if groups and any(e.get("ev") == "crash" and e.get("reload") for e in fail["run_events"][:fail["pos_in_run"]]):
        groups.add("C12")
    # C09: "once completions arrive, in any order and after any delay, exactly the held messages are released":
    # something still pending at the end of a wound-down run in which monitor writes completed late was held
    # for one of them and never released
    if ev.get("ev") == "proj" and ev.get("final") and groups & {"C01", "C10"} and \
            any(e.get("ev") == "complete" for e in fail["run_events"][:fail["pos_in_run"]]):
        groups.add("C09")
    if ev.get("ev") == "msg" and groups & {"C01", "C05"}:
        prior = fail["run_events"][:fail["pos_in_run"] - 1]
        for e in reversed(prior):
            if e["ev"] in ("msg", "persist", "mgr_snap", "event", "broadcast"):
                continue
            if e["ev"] == "complete":
                groups.add("C09")
            break
    return groups


def panic_group(msg):
    m = (msg or "").lower()
    if "test_channel_signer" in m or "revoked" in m or "revocation" in m:
        return "C05"
    if "chainmonitor" in m or "monitor update" in m or "monitorupdate" in m:
        return "C09"
    return "C01"


def panic_groups(msg, run_events):
    """A panic after a restart / while reading persisted state belongs to the restart properties."""
    g = {panic_group(msg)}
    m = (msg or "").lower()
    crashed = [e for e in run_events if e.get("ev") == "crash"]
    if crashed:
        g.add("C12" if all(e.get("reload") for e in crashed) else "C10")
        if any(e.get("reload") for e in crashed):
            g.add("C12")
    if "decodeerror" in m or "round" in m or "serializ" in m or "assertion `left == right` failed" in m and "monitor" in m:
        g.add("C12")
    return g


def _shutdown_over_held_add(fl):
    """Known finding `shutdown_sent_while_update_add_held_behind_monitor_write`, keyed by its mechanism: some node n
    emitted `shutdown` on a channel while (i) a monitor write of (n, channel) was in flight and (ii) an HTLC n's user had
    been told was accepted on that channel had not left yet (its update_add_htlc is held with the commitment update); and
    the run is rejected at one of the consequences: that update_add_htlc leaving after the shutdown, or the channel
    failing with one of the two error texts / its force_closed monitor step."""
    ev = fl["rec"]
    prior = fl["run_events"][:fl["pos_in_run"] - 1]
    cause = False
    for i, e in enumerate(prior):
        if e["ev"] == "msg" and e.get("kind") == "shutdown":
            n, c = e["from"], e["chan"]
            before = prior[:i]
            inflight = set()
            for b in before:
                if b["ev"] == "persist" and b.get("node") == n and b.get("chan") == c and b.get("status") == "inprogress":
                    inflight.add(b.get("id"))
                elif b["ev"] == "complete" and b.get("node") == n and b.get("chan") == c:
                    inflight.discard(b.get("id"))
                elif b["ev"] in ("crash",) and b.get("node") == n:
                    inflight.clear()
            sent = {b["hash"] for b in before if b["ev"] == "send" and b.get("node") == n and b.get("chan") == c and b.get("result") == "ok" and b.get("direct")}
            left = {b["hash"] for b in before if b["ev"] == "msg" and b.get("kind") == "update_add_htlc" and b.get("from") == n and b.get("chan") == c}
            if inflight and (sent - left):
                cause = (n, c, sent - left)
                break
    if not cause:
        return None
    n, c, held = cause
    texts = ("Got add HTLC message when channel was not in an operational state",
             "Remote end sent us a closing_signed while there were still pending HTLCs")
    if ev.get("ev") == "msg" and ev.get("kind") == "update_add_htlc" and ev.get("from") == n and ev.get("chan") == c and ev.get("hash") in held:
        return "shutdown_sent_while_update_add_held_behind_monitor_write"
    if ev.get("ev") == "msg" and ev.get("kind") == "error" and ev.get("chan") == c and any(t in (ev.get("data") or "") for t in texts):
        return "shutdown_sent_while_update_add_held_behind_monitor_write"
    if ev.get("ev") == "persist" and ev.get("chan") == c and any(st.get("k") == "force_closed" for st in ev.get("steps", [])):
        after = fl["run_events"][fl["pos_in_run"]:fl["pos_in_run"] + 3]
        if any(a["ev"] == "msg" and a.get("kind") == "error" and any(t in (a.get("data") or "") for t in texts) for a in after):
            return "shutdown_sent_while_update_add_held_behind_monitor_write"
    return None


def finding_key(pid, fl):
    """Canonical key of a recognised, recorded defect (KNOWN_FINDINGS.jsonl); None for anything else."""
    ev = fl["rec"]
    if ev.get("ev") == "panic" and "some channel balance has been overdrawn" in (ev.get("msg") or ""):
        # recorded only for the way it is known to arise: the funder proposed a feerate more than twice the one in
        # force (beyond what the fee spike buffer absorbs) while the peer's HTLCs were crossing it
        prior = fl["run_events"][:fl["pos_in_run"] - 1]
        rates = [c["feerate"] for e in prior if e["ev"] == "open" for c in e["chans"]]
        for e in prior:
            if e["ev"] == "msg" and e.get("kind") == "update_fee":
                if rates and e["feerate"] > 2 * min(rates):
                    return "debug_assert_balance_overdrawn_after_fee_jump_beyond_spike_buffer"
                rates.append(e["feerate"])
    k = _shutdown_over_held_add(fl)
    if k:
        return k
    if pid == "C09" and ev.get("ev") == "msg" and ev.get("kind") == "channel_ready":
        prior = fl["run_events"][:fl["pos_in_run"] - 1]
        node, chan = ev["from"], ev["chan"]
        first_write_in_flight = any(e["ev"] == "persist" and e.get("kind") == "new" and e["node"] == node and e["chan"] == chan
                                    and e["status"] == "inprogress" for e in prior) and \
            not any(e["ev"] == "complete" and e["node"] == node and e["chan"] == chan for e in prior)
        last = next((e for e in reversed(prior) if e["ev"] == "deliver" and e["to"] == node), None)
        if first_write_in_flight and last and last["kind"] == "channel_reestablish" and last["chan"] == chan:
            return "channel_ready_on_reestablish_before_initial_persist"
    return None


def selftest(pid, wd, tpath):
    """Corrupt an accepted trace in ways that break each guard group; every one must be rejected."""
    with open(tpath) as f:
        lines = f.read().splitlines()
    recs = [json.loads(x) for x in lines]
    # use the first two runs that contain what we need
    muts = []

    def clone():
        return [json.loads(json.dumps(r)) for r in recs]
    for k, r in enumerate(recs):
        if r["ev"] == "msg" and r.get("kind") == "commitment_signed" and r["c"] and r["c"]["to_b"] > 0:
            m = clone()
            m[k]["c"]["to_b"] += 1
            muts.append(("C01-balance-off-by-one", m))
            if sum(1 for n_, _ in muts if n_ == "C01-balance-off-by-one") >= 3:
                break
    for k, r in enumerate(recs):
        if r["ev"] == "msg" and r.get("kind") == "commitment_signed" and r["c"] and r["c"]["nondust"]:
            m = clone()
            h = m[k]["c"]["nondust"].pop()
            m[k]["c"]["dust"].append(h)
            m[k]["nsigs"] -= 1
            muts.append(("C01-htlc-trimmed-as-dust", m))
            if sum(1 for n_, _ in muts if n_ == "C01-htlc-trimmed-as-dust") >= 3:
                break
    for k, r in enumerate(recs):
        # (one that reaches the peer on the same connection -- a revocation lost with its connection is simply
        # sent again -- and whose sender later receives another commitment_signed)
        if r["ev"] == "msg" and r.get("kind") == "revoke_and_ack":
            later = [x for x in recs[k + 1:k + 400] if x["run"] == r["run"]]
            cut = next((n for n, x in enumerate(later) if x["ev"] in ("crash", "disconnect", "force_close")), len(later))
            same_conn = later[:cut]
            if any(x["ev"] == "deliver" and x.get("kind") == "revoke_and_ack" and x.get("from") == r["from"]
                   and x.get("secret_point") == r.get("secret_point") for x in same_conn) and \
               any(x["ev"] == "deliver" and x.get("kind") == "commitment_signed" and x.get("to") == r["from"]
                   and x.get("chan") == r.get("chan") for x in same_conn):
                muts.append(("C05-raa-dropped", recs[:k] + recs[k + 1:]))
                if sum(1 for n_, _ in muts if n_ == "C05-raa-dropped") >= 3:
                    break
    ncd = 0
    for k, r in enumerate(recs):
        if ncd >= 6:
            break
        if r["ev"] == "persist" and r.get("status") == "inprogress" and r.get("has_update"):
            # drop its completion: whatever was released afterwards was released too early.  (Candidates: writes
            # whose completion is followed, in the same run and before that node crashes, by a message of that
            # node on that channel -- something was being held for it.)
            for j in range(k + 1, min(len(recs), k + 600)):
                x = recs[j]
                if x["run"] != r["run"] or (x["ev"] == "crash" and x.get("node") == r["node"]):
                    break
                if x["ev"] == "complete" and x["node"] == r["node"] and x["chan"] == r["chan"] and x["id"] == r["id"]:
                    after = []
                    for y in recs[j + 1:j + 40]:
                        if y["run"] != r["run"] or y["ev"] in ("crash", "complete", "deliver"):
                            break
                        after.append(y)
                    if any(y["ev"] == "msg" and y.get("from") == r["node"] and y.get("chan") == r["chan"]
                           and y.get("kind") in ("revoke_and_ack", "commitment_signed") for y in after):
                        muts.append(("C09-completion-dropped", recs[:j] + recs[j + 1:]))
                        ncd += 1
                    break
    for k, r in enumerate(recs):
        if r["ev"] == "persist" and r.get("has_update") and r["uid"] > 1:
            m = clone()
            m[k]["uid"] += 1
            muts.append(("C09-update-id-gap", m))
            if sum(1 for n_, _ in muts if n_ == "C09-update-id-gap") >= 3:
                break
    for k, r in enumerate(recs):
        if r["ev"] == "persist" and r.get("has_update"):
            m = clone()
            m[k]["rt"]["monitor"] = False
            muts.append(("C12-roundtrip-inequality", m))
            if sum(1 for n_, _ in muts if n_ == "C12-roundtrip-inequality") >= 3:
                break
    for k, r in enumerate(recs):
        # a node that restarted with a stale manager (channel closed) is made to sign again
        if r["ev"] == "event" and r.get("kind") == "ChannelClosed" and r.get("reason") == "OutdatedChannelManager":
            m = clone()
            m.insert(k + 1, {"ev": "msg", "from": r["node"], "to": 1 - r["node"] if r["node"] < 2 else 1, "kind": "revoke_and_ack",
                             "chan": r["chan"], "secret_point": 1, "next_point": 2, "run": r["run"], "seq": 0})
            muts.append(("C10-stale-channel-resumed", m))
            if sum(1 for n_, _ in muts if n_ == "C10-stale-channel-resumed") >= 3:
                break
    for k, r in enumerate(recs):
        if r["ev"] == "rt_sweeper":
            m = clone()
            m[k]["equal"] = False
            muts.append(("C12-sweeper-copy-differs", m))
            if sum(1 for n_, _ in muts if n_ == "C12-sweeper-copy-differs") >= 3:
                break
    for k, r in enumerate(recs):
        if r["ev"] == "rt_scorer":
            m = clone()
            m[k]["answers_equal"] = False
            muts.append(("C12-scorer-copy-differs", m))
            if sum(1 for n_, _ in muts if n_ == "C12-scorer-copy-differs") >= 3:
                break
    for k, r in enumerate(recs):
        # a refused event that is never handed over again
        if r["ev"] == "event_refused" and r.get("kind") in ("PaymentSent", "PaymentFailed", "PaymentClaimable"):
            m = [x for j, x in enumerate(recs) if not (j > k and x["run"] == r["run"] and x["ev"] == "event" and x.get("kind") == r["kind"]
                                                       and x.get("hash") == r["hash"] and x.get("node") == r["node"])
                 and not (x["run"] == r["run"] and x["ev"] == "crash")]
            if len(m) != len(recs):
                muts.append(("C10-refused-event-never-redelivered", m))
                if sum(1 for n_, _ in muts if n_ == "C10-refused-event-never-redelivered") >= 3:
                    break
    rejected = 0
    names = []
    kinds = []
    for name, _ in muts:
        if name not in kinds:
            kinds.append(name)
    for kind in kinds:
        ok = False
        for name, m in [x for x in muts if x[0] == kind]:
            # keep only the affected run (fast)
            run = None
            for a, b in zip(m, recs):
                if a != b:
                    run = b["run"]
                    break
            if run is None:
                run = recs[len(m)]["run"] if len(m) < len(recs) else recs[0]["run"]
            sel = [x for x in m if x["run"] == run]
            p = os.path.join(wd, "selftest-%s.ndjson" % name)
            with open(p, "w") as f:
                for r in sel:
                    f.write(json.dumps(r) + "\n")
            _, fails = vlib.validate_trace(pid, "ChanTrace", "ChanTrace.cfg", p, max_failures=1, tag="st")
            if fails:
                ok = True
                break
        names.append(kind if ok else kind + " (NOT REJECTED)")
        if ok:
            rejected += 1
    if not kinds or rejected != len(kinds):
        raise vlib.ToolError("binding self-test: %d of %d kinds of corruption rejected (%s)" % (rejected, len(kinds), names))
    return {"mutations": len(kinds), "rejected": rejected, "kinds": names}


def channet_part(pid, tier, seed, wd, profiles=(), families=(), thorough_profiles=(), thorough_families=(), tag="net"):
    """A part for checks whose main engine is another one: seeded channet schedules on real ChannelManager networks,
    validated against ChanTrace.tla; a rejection counts for `pid` only if relaxing pid's guard group explains it (the
    other guard groups are the business of the channel checks, which run the same families).
    -> (violations, coverage), the contract of run_check's extra_parts."""
    import fwd_scripts
    bins = vlib.build(["channet"])
    thorough = tier == "thorough"
    rng = random.Random(seed * 7919 + 17)
    batches = []
    for name, nodes, runs in (thorough_profiles if thorough else profiles):
        batches.append(("%s-%s%d" % (tag, name, nodes), ["--random", runs, "--nodes", nodes, "--profile", name]))
    for fam, count in (thorough_families if thorough else families):
        fpath = os.path.join(wd, "scripts-%s-%s.ndjson" % (tag, fam))
        with open(fpath, "w") as f:
            for s_ in fwd_scripts.make(rng, fam, count):
                f.write(json.dumps(s_) + "\n")
        batches.append(("%s-%s" % (tag, fam), ["--scripts", fpath]))

    def do_batch(item):
        bi, (bname, args) = item
        tpath = os.path.join(wd, "trace-%s.ndjson" % bname)
        style = CONNECT_STYLES[(seed + bi) % len(CONNECT_STYLES)]
        try:
            vlib.run_bin(bins["channet"], args + ["--seed", seed * 100 + 50 + bi, "--out", tpath], discard_stdout=True, timeout=3000,
                         env={"LDK_TEST_CONNECT_STYLE": style})
            summ = json.load(open(tpath + ".summary"))
            _engine_own_panic(tpath, summ, bname)
            total, fails = vlib.validate_trace(pid, "ChanTrace", "ChanTrace.cfg", tpath, timeout=2400, tag=bname)
            return (tpath, style, summ, total, fails, None)
        except BaseException as e:
            return (tpath, style, None, 0, [], e)
    from concurrent.futures import ThreadPoolExecutor
    with ThreadPoolExecutor(max_workers=max(1, int(os.environ.get("VERIF_PAR", "4")))) as pool:
        done = list(pool.map(do_batch, list(enumerate(batches))))
    nviol, runs, events, judged = 0, 0, 0, 0
    for bi, (bname, args) in enumerate(batches):
        tpath, style, summ, total, fails, err = done[bi]
        if err is not None:
            raise err
        vlib.log("[channet] %s %s" % (bname, summ))
        runs += summ["runs"]
        events += total
        with open(tpath) as f:
            judged += sum(1 for ln in f if '"kind":"PaymentPathSuccessful"' in ln)
        for k, fl in enumerate(fails):
            ev = fl["rec"]
            groups = panic_groups(ev.get("msg"), fl["run_events"]) if ev.get("ev") == "panic" else attribute(pid, wd, fl, "%s-%d" % (bname, k))
            mine = pid in groups
            vlib.log("[reject] batch %s run %s at event %d (%s): guard groups %s -> %s" %
                     (bname, fl["run"], fl["pos_in_run"], ev.get("ev"), sorted(groups) or "unattributed",
                      "VIOLATION of " + pid if mine else "not this property"))
            if mine and vlib.report_violation(pid, "%s-run%s" % (bname, fl["run"]), {
                    "property": pid, "kind": fl["kind"], "guard_groups": sorted(groups), "first_unmatched_event": ev,
                    "position_in_run": fl["pos_in_run"], "batch": bname, "engine_args": args + ["--seed", seed * 100 + 50 + bi],
                    "env": {"LDK_TEST_CONNECT_STYLE": style}, "trace_of_run": fl["run_events"],
                    "how_to_replay": "harness/target/debug/channet <engine_args> --out t.ndjson ; tools/tv.sh ChanTrace t.ndjson"},
                    key=finding_key(pid, fl)):
                nviol += 1
    return nviol, {"engine": "channet", "spec": "ChanTrace.tla (guard group %s)" % pid, "runs": runs, "events_validated": events,
                   "path_success_events_judged": judged, "batches": [b[0] for b in batches]}


def _engine_own_panic(tpath, summ, bname):
    """A panic raised by the engine's own code (not inside the library under test) is a tool error, never a verdict."""
    if not summ.get("panics"):
        return
    for line in open(tpath):
        if '"ev":"panic"' in line:
            msg = json.loads(line).get("msg", "")
            loc = msg.split("\n")[0]
            if "lightning" not in loc and "/repo/" not in loc:
                raise vlib.ToolError("engine panic outside the library in batch %s: %s" % (bname, msg[:300]))


def run_check(pid, tier, seed, mc_cfgs, profiles, thorough_profiles, assumptions, mc_types=("static",),
              mc_actions=("MAdd", "MSendCS", "MSendRAA", "MDeliver"), mc_module="ChanMC", mutant_cfgs=(),
              families=(), thorough_families=(), mc_actions_by_module=None, extra_parts=()):
    t0 = time.time()
    wd = vlib.workdir(pid)
    bins = vlib.build(["channet"])
    thorough = tier == "thorough"
    rng = random.Random(seed)

    # ---- design check + behaviours
    mcs, scripts = [], []
    model_scripts = {}
    for cfg in mc_cfgs[1 if thorough else 0]:
        mod = mc_module
        if ":" in cfg:
            mod, cfg = cfg.split(":")
        r = vlib.tlc_mc(pid, mod, cfg, workers=12, timeout=3000 if thorough else 900)
        if r["violated"]:
            raise vlib.ToolError("design model violates %s in %s (spec needs correction)" % (r["violated"], cfg))
        vlib.require_coverage(r, list((mc_actions_by_module or {}).get(mod, mc_actions)), cfg)
        # (TLC's workers print in no fixed order: sort, so that a seed names the same sample of behaviours in every run)
        got = sorted(vlib.tlc_printed(r["out"], "SCRIPT"), key=lambda g: json.dumps(g, sort_keys=True))
        vlib.log("[mc] %s: %d distinct states, %d generated, depth %d, %d scripts, %.0fs" %
                 (cfg, r["distinct"], r["states"], r["depth"], len(got), r["wall_s"]))
        if mod in MODEL_CONVERTERS:
            model_scripts.setdefault(mod, [])
            model_scripts[mod] += got
        else:
            scripts += got
        r.pop("out")
        mcs.append((cfg, r))
    # spec-side rehearsal: with the guard removed TLC must find the loss (the invariants are not vacuous)
    for cfg in mutant_cfgs:
        mod = mc_module
        if ":" in cfg:
            mod, cfg = cfg.split(":")
        r = vlib.tlc_mc(pid, mod, cfg, workers=4, timeout=600, coverage=False)
        if not r["violated"]:
            raise vlib.ToolError("spec mutant %s is not rejected by TLC: invariants are vacuous" % cfg)
        vlib.log("[mc] spec mutant %s violates %s as expected" % (cfg, r["violated"]))
    cap = 3000 if thorough else 400
    if len(scripts) > cap:
        scripts = rng.sample(scripts, cap)
    types = ["static", "anchors", "zerofee"]
    conv = [convert_script(s, types[k % 3], rng) for k, s in enumerate(scripts)]
    spath = os.path.join(wd, "scripts.ndjson")
    with open(spath, "w") as f:
        for s in conv:
            f.write(json.dumps(s) + "\n")

    # ---- real code
    batches = [("tlc", ["--scripts", spath], 2)] if conv else []
    # behaviours of the small design models (BatchOpen, StaleReconcile, ...), each with its own translation to engine ops
    for mod, got in model_scripts.items():
        mcap = 1500 if thorough else MODEL_CAP.get(mod, 260)
        if len(got) > mcap:
            # behaviours that reach the model's central action (MODEL_PRIORITY) are all run, the rest are sampled
            pri = MODEL_PRIORITY.get(mod, lambda g: False)
            first = [g for g in got if pri(g)]
            rest = [g for g in got if not pri(g)]
            if len(first) > mcap:
                first = rng.sample(first, mcap)
            got = first + rng.sample(rest, min(len(rest), mcap - len(first)))
        made = [MODEL_CONVERTERS[mod](g, rng) for g in got for _ in range(MODEL_REPEAT.get(mod, 1))]
        made = [x for x in made if x]
        if not made:
            raise vlib.ToolError("design model %s emitted no usable behaviour" % mod)
        mpath = os.path.join(wd, "scripts-tlc-%s.ndjson" % mod)
        with open(mpath, "w") as f:
            for s_ in made:
                f.write(json.dumps(s_) + "\n")
        batches.append(("tlc-" + mod, ["--scripts", mpath], made[0]["cfg"]["nodes"]))
        conv = conv + made
    for name, nodes, runs in (thorough_profiles if thorough else profiles):
        batches.append((name + str(nodes), ["--random", runs, "--nodes", nodes, "--profile", name], nodes))
    # structured schedules (checks/fwd_scripts.py): a fixed skeleton around a narrow window, the rest random
    import fwd_scripts
    for fam, count in (thorough_families if thorough else families):
        fpath = os.path.join(wd, "scripts-%s.ndjson" % fam)
        made = fwd_scripts.make(rng, fam, count)
        with open(fpath, "w") as f:
            for s_ in made:
                f.write(json.dumps(s_) + "\n")
        batches.append((fam, ["--scripts", fpath], made[0]["cfg"]["nodes"]))
    nviol, total_events, total_runs, executed, skipped, panics = 0, 0, 0, 0, 0, 0
    first_trace = None

    # the batches are independent (own script file, own trace, own TLC metadir): engine run + trace validation of
    # several batches proceed side by side (VERIF_PAR, default 4); the verdicts are then read in batch order
    def do_batch(item):
        bi, (bname, args, nodes) = item
        tpath = os.path.join(wd, "trace-%s.ndjson" % bname)
        # the functional-test chain style (how blocks are handed to a node) is otherwise drawn from process-random
        # state: fix it per batch so that a replay file reproduces its run
        style = CONNECT_STYLES[(seed + bi) % len(CONNECT_STYLES)]
        try:
            vlib.run_bin(bins["channet"], args + ["--seed", seed * 100 + bi, "--out", tpath], discard_stdout=True, timeout=3000,
                         env={"LDK_TEST_CONNECT_STYLE": style})
            summ = json.load(open(tpath + ".summary"))
            _engine_own_panic(tpath, summ, bname)
            total, fails = vlib.validate_trace(pid, "ChanTrace", "ChanTrace.cfg", tpath, timeout=2400, tag=bname)
            return (tpath, style, summ, total, fails, None)
        except BaseException as e:          # re-raised in batch order by the consumer below
            return (tpath, style, None, 0, [], e)
    from concurrent.futures import ThreadPoolExecutor
    with ThreadPoolExecutor(max_workers=max(1, int(os.environ.get("VERIF_PAR", "4")))) as pool:
        done = list(pool.map(do_batch, list(enumerate(batches))))
    for bi, (bname, args, nodes) in enumerate(batches):
        tpath, style, summ, total, fails, err = done[bi]
        if err is not None:
            raise err
        vlib.log("[channet] %s %s" % (bname, summ))
        if summ["setup_failures"]:
            # opening channels between honest nodes is honest traffic too: a panic there is a verdict about the code
            # under test (the script generators only use configurations the unchanged library accepts)
            vlib.log("[channet] %d runs panicked while the network was being opened: %s" % (summ["setup_failures"], summ.get("setup_panic", "")[:300]))
            if vlib.report_violation(pid, "%s-setup" % bname, {
                    "property": pid, "kind": "panic while opening channels", "message": summ.get("setup_panic", ""),
                    "batch": bname, "engine_args": args + ["--seed", seed * 100 + bi]}, key=None):
                nviol += 1
        total_runs += summ["runs"]
        executed += summ["executed"]
        skipped += summ["skipped"]
        panics += summ["panics"]
        total_events += total
        if first_trace is None and not fails:
            first_trace = tpath
        for k, fl in enumerate(fails):
            ev = fl["rec"]
            if ev.get("ev") == "panic":
                groups = panic_groups(ev.get("msg"), fl["run_events"])
            else:
                groups = attribute(pid, wd, fl, "%s-%d" % (bname, k))
            mine = (pid in groups) or not groups
            vlib.log("[reject] batch %s run %s at event %d (%s): guard groups %s -> %s" %
                     (bname, fl["run"], fl["pos_in_run"], ev.get("ev"), sorted(groups) or "unattributed",
                      "VIOLATION of " + pid if mine else "not this property"))
            if not mine:
                continue
            key = finding_key(pid, fl)
            if vlib.report_violation(pid, "%s-run%s" % (bname, fl["run"]), {
                    "property": pid, "kind": fl["kind"], "invariant": fl["inv"], "guard_groups": sorted(groups),
                    "first_unmatched_event": ev, "position_in_run": fl["pos_in_run"],
                    "batch": bname, "engine_args": args + ["--seed", seed * 100 + bi], "env": {"LDK_TEST_CONNECT_STYLE": style},
                    "trace_of_run": fl["run_events"], "last_state": fl["last_state"],
                    "how_to_replay": "harness/target/debug/channet <engine_args> --out t.ndjson ; "
                                     "tools/tv.sh ChanTrace t.ndjson   (run id = `run` field)"}, key=key):
                nviol += 1
    if executed < 2 * skipped and not thorough:
        pass
    if total_runs and executed == 0:
        raise vlib.ToolError("no script step executed")

    # further parts of the check with their own specification and engine: (name, fn(pid, tier, seed, wd) -> (violations, coverage))
    parts_cov = {}
    for pname, fn in extra_parts:
        pv, pc = fn(pid, tier, seed, wd)
        nviol += pv
        parts_cov[pname] = pc
        vlib.log("[part %s] violations=%d" % (pname, pv))

    st = None
    if nviol == 0:
        # self-test on an async trace if there is one (it contains every kind of event)
        cand = [os.path.join(wd, "trace-%s.ndjson" % b[0]) for b in batches if b[0].startswith(("async", "crash"))]
        st = selftest(pid, wd, (cand or [first_trace])[0])
        vlib.log("[selftest] %s" % st)

    samples = conv[:2]
    if first_trace:
        with open(first_trace) as f:
            samples.append({"trace_head": [json.loads(next(f)) for _ in range(8)]})
    cov = {
        "states": sum(r["distinct"] for _, r in mcs), "transitions": sum(r["states"] for _, r in mcs),
        "traces_validated_against_impl": total_runs, "samples": samples,
        "mc_runs": [{"cfg": c, "distinct": r["distinct"], "generated": r["states"], "depth": r["depth"],
                     "action_coverage": r["coverage"], "wall_s": round(r["wall_s"], 1)} for c, r in mcs],
        "scripts_from_tlc": len(conv), "events_validated": total_events,
        "script_steps_executed": executed, "script_steps_skipped": skipped, "impl_panics": panics,
        "batches": [b[0] for b in batches], "binding_selftest": st, "exhaustive": False,
    }
    if parts_cov:
        cov["parts"] = parts_cov
    vlib.write_evidence(pid, tier, seed, "model_checking", cov, assumptions, time.time() - t0, nviol)
    return nviol


COMMON_ASSUMPTIONS = [
    "both peers are the implementation under test (honest runs); peers' fee estimators never make a proposed "
    "feerate fall below the receiver's own minimum (LDK documents closing in that case)",
    "channel value <= 2,000,000 sat so that msat amounts fit TLC's 32-bit integers",
    "channel opening, splicing and cooperative close are outside the traced part of a run",
]
