"""BOLT-12 payment flow, end to end: part "bolt12-flow" of C03 (engine `offernet`, spec OfferFlow.tla).

C03 speaks of every outbound payment; payments started with pay_for_offer / create_refund_builder live a while before
any HTLC exists (awaiting the invoice, invoice received), and that part of their life is what this part drives.

    design check   TLC on OfferFlowMC.tla -- the payer / payee algorithm of outbound_payment.rs, offers/flow.rs and the
                   OffersMessageHandler impl, composed with the observable specification OfferFlow.tla; the network
                   owns every onion message (any order, duplication, loss), 1-2 payment ids, ticks, abandon,
                   invoice_error, manual invoice handling, held events, manager snapshot + restart (in sync with the
                   monitors, or stale: the channel is closed, the HTLC taken up from the monitor, the chain decides).
                   An observation the property forbids is a deadlock.  Spec mutants (a planted defect each) must be refuted.
    behaviours     TLC's quiescent states -> scripts for `offernet` (2 nodes, and the same with a forwarding node)
    schedules      structured families (duplicates / reordering of invoice_request and invoice, expiry by ticks,
                   abandon at every point, invoice_error, refunds, manual handling, altered / foreign offers, the
                   idempotency window, disconnections, snapshot + restart at every point, stale restarts with on-chain
                   settlement) and seeded random scripts
    oracle         TLC validates every recorded run against OfferFlowTrace.tla

    run_part(pid, tier, seed, wd) -> (violations, coverage)          python3 checks/offer_common.py quick [seed]
"""
import json, os, random, re, subprocess, sys, time
sys.path.insert(0, os.path.join(os.path.dirname(os.path.dirname(os.path.abspath(__file__))), "lib"))
import vlib

TRACE = "OfferFlowTrace"
DOC_REQ_TICKS = 1      # ChannelManager::send_payment_for_bolt12_invoice: "one full timer tick has elapsed since initially requesting the invoice"

MC_QUICK = ["OfferFlowMC.cfg", "OfferFlowMC_man.cfg", "OfferFlowMC_hold.cfg", "OfferFlowMC_two.cfg", "OfferFlowMC_alt.cfg",
            "OfferFlowMC_stale.cfg", "OfferFlowMC_staleman.cfg"]
MC_THOROUGH = ["OfferFlowMCt.cfg", "OfferFlowMC_mant.cfg", "OfferFlowMC_holdt.cfg", "OfferFlowMC_twot.cfg", "OfferFlowMC_alt.cfg",
               "OfferFlowMC_stalet.cfg", "OfferFlowMC_stalemant.cfg"]
MC_MUTANTS = ["OfferFlowMC_mut_dupAwait.cfg", "OfferFlowMC_mut_secondInvoice.cfg", "OfferFlowMC_mut_earlyExpiry.cfg",
              "OfferFlowMC_mut_abandonSilent.cfg", "OfferFlowMC_mut_errOther.cfg", "OfferFlowMC_mut_lateInvoice.cfg",
              "OfferFlowMC_mut_answerAltered.cfg", "OfferFlowMC_mut_manualAutopay.cfg", "OfferFlowMC_mut_staleNotTaken.cfg",
              "OfferFlowMC_mut_dupSendsRequest.cfg"]
# what the behaviours of the design model must have shown (vacuity of the design check)
MC_FEATURES = ["paid", "sent", "htlc-failed", "expired", "retransmit", "pay-refused", "refused-fulfilled", "id-reused", "request-twice",
               "invoice-twice", "invoice-while-in-flight", "invoice-after-sent", "invoice-for-gone-id", "abandon-awaiting",
               "abandon-in-flight", "rejected", "error-ignored", "restart", "restart-retransmits", "restart-with-queued-events",
               "failed-repeated", "invoice-shown", "paid-by-user", "sendinv-dup", "sendinv-unexpected", "abandon-invoice-received",
               "second-invoice-not-shown", "restart-forgets-invoice", "altered-offer-unanswered", "idempotency-over",
               "dropped-invreq", "dropped-invoice", "stale-restart", "stale-awaiting-takes-htlc", "stale-invoice-received-takes-htlc",
               "stale-unknown-id-takes-htlc", "refused-call-other-offer"]

ASSUMPTIONS = [
    "every node is the implementation under test; the network (the harness) may deliver, drop, duplicate, delay and reorder onion "
    "messages at will but does not forge them; HTLC traffic is delivered in order; channels close only through a stale restart; monitor "
    "persistence is synchronous",
    "a payment id that is used AGAIN after an earlier use of it ended (failed, expired, abandoned, idempotency window over) names the "
    "same offer: the payer cannot tell an invoice that answers a request of the earlier use from the one it waits for -- the library asks "
    "for a new payment id to retry (ChannelManager::send_payment_for_bolt12_invoice); probe `reused-id-other-offer`. A call that is "
    "REFUSED (DuplicatePaymentId) may name any offer and amount and must have no effect: the default scripts make such calls and try to "
    "hand over their request and invoice (fixed defect /repo 544d6a1: pay_for_offer_intern used to enqueue the request before the "
    "duplicate check, and its invoice was paid under the pending id)",
    "a node restarts from its last manager snapshot: in sync with its monitors, or -- `stale` -- after HTLCs were locked into the "
    "monitors since (LDK closes the channel and takes the HTLCs up from the monitors; a miner then mines every broadcast transaction as "
    "soon as it can confirm until all timelocks have expired, and the specification follows the chain). Left out of the default runs: a "
    "restart after the node's user handled a PaymentFailed for an id the snapshot still holds as pending (the restored manager takes the id "
    "up again and may complete it -- inherent to losing the abandon / expiry with the crash, but a PaymentSent after a handled "
    "PaymentFailed contradicts the property's letter: probe `restart-revives-failed-id`), and, for stale restarts, the user behaviours of "
    "the registered C03 findings (snapshot taken with an HTLC in a holding cell, payment id used twice, PaymentSent handled since the "
    "snapshot); only static_remote_key channels, no reorgs, one restart after which a channel is closed",
    "an id awaiting its invoice must fail with InvoiceRequestExpired no earlier than documented (more than %d timer tick(s) after the "
    "request) and -- the assignment's reading of 'once no HTLC remains pending the sender reports a terminal event' -- has failed once "
    "that many ticks have passed without an invoice and the network is quiet; refunds are created with an expiry far in the future "
    "(no wall-clock time enters a run)" % DOC_REQ_TICKS,
    "invoice amounts <= 20,000,000 msat (TLC's 32-bit integers); Retry::Attempts(0..1); single-path payments",
]


# ------------------------------------------------------------------------------------------ TLC behaviours -> scripts

def convert_script(s, nodes, rng):
    """TLC behaviour of OfferFlowMC (payee 0, payer 1) -> offernet script; with 3 nodes the payer is node 2 and its
    HTLCs travel through node 1."""
    payer = nodes - 1
    amt = rng.choice([1000000, 5000000, 20000000])
    ops = [{"op": "offer", "node": 0, "amt": amt, "variant": "own"},
           {"op": "offer", "node": 0, "amt": amt + 1000, "variant": "tampered", "base": 1},
           {"op": "offer", "node": 0, "amt": 2 * amt, "variant": "own"}]
    if s.get("hold"):
        ops.append({"op": "hold", "node": payer, "on": True})
    for o in s["ops"]:
        o = dict(o)
        if o.get("node") == 1:
            o["node"] = payer
        if o.get("payer") == 1:
            o["payer"] = payer
        if o["op"] == "reconnect":
            o = {"op": "reconnect_all"}
        ops.append(o)
    ops.append({"op": "settle"})
    manual = [False] * nodes
    manual[payer] = bool(s.get("manual"))
    return {"cfg": {"nodes": nodes, "manual": manual}, "ops": ops, "feat": s.get("feat", [])}


def pick_scripts(got, cap, rng):
    """Every feature is represented; rare ones first."""
    by = {}
    for k, s in enumerate(got):
        for f in s.get("feat", []):
            by.setdefault(f, []).append(k)
    chosen = set()
    for f in sorted(by, key=lambda f: len(by[f])):
        ks = by[f]
        rng.shuffle(ks)
        chosen.update(ks[:max(3, cap // (2 * max(1, len(by))))])
    rest = [k for k in range(len(got)) if k not in chosen]
    rng.shuffle(rest)
    ks = list(chosen)[:cap] + rest[:max(0, cap - len(chosen))]
    return [got[k] for k in ks]


# ------------------------------------------------------------------------------------------ structured schedules

def _base(nodes, manual=False, amt=5000000, extra_offers=()):
    payer = nodes - 1
    m = [False] * nodes
    m[payer] = manual
    ops = [{"op": "offer", "node": 0, "amt": amt, "variant": "own"}]
    for v in extra_offers:
        ops.append({"op": "offer", "node": 0, "amt": amt + (1000 if v == "tampered" else 0), "variant": v, "base": 1})
    return payer, {"nodes": nodes, "manual": m}, ops


def _dl(kind, payer, pid, n=0, keep=False):
    return {"op": "deliver", "kind": kind, "payer": payer, "id": pid, "n": n, "keep": keep}


def fam_dup(rng, count):
    """Duplicates and reordering: the request is handed over 1-3 times (as many invoices come back), the invoices in
    any order, some twice, before / while / after the HTLC travels."""
    out = []
    for i in range(count):
        nodes = 2 + (i % 2)
        manual = i % 5 == 4
        payer, cfg, ops = _base(nodes, manual, rng.choice([1000000, 5000000, 20000000]))
        ops.append({"op": "pay", "node": payer, "id": 1, "off": 1, "retries": rng.randrange(2)})
        if rng.random() < 0.4:
            ops.append({"op": "msgrecv", "node": payer})
        k = rng.randrange(1, 4)
        for j in range(k):
            ops.append(_dl("invreq", payer, 1, 0, keep=(j < k - 1)))
        order = list(range(k))
        rng.shuffle(order)
        held = k
        for j in order:
            n = min(j, held - 1)
            keep = rng.random() < 0.35
            ops.append(_dl("invoice", payer, 1, rng.randrange(held), keep))
            if not keep:
                held -= 1
            r = rng.random()
            if manual and r < 0.6:
                ops.append({"op": "sendinv", "node": payer, "id": 1, "which": rng.randrange(2)})
            if r < 0.3:
                ops.append({"op": "pump"})
            elif r < 0.45:
                ops += [{"op": "pump"}, {"op": rng.choice(["claim", "claim", "failback"])}, {"op": "pump"}]
            if held == 0:
                break
        if manual:
            ops.append({"op": "sendinv", "node": payer, "id": 1, "which": 0})
            ops.append({"op": "sendinv", "node": payer, "id": 1, "which": rng.randrange(2)})
        ops.append({"op": "replay", "kind": "invoice", "payer": payer, "id": 1, "n": rng.randrange(2)})
        ops += [{"op": "pump"}, {"op": rng.choice(["claim", "claim", "claim", "failback"])}, {"op": "pump"}]
        ops.append({"op": "replay", "kind": "invoice", "payer": payer, "id": 1, "n": rng.randrange(2)})
        ops.append({"op": "settle", "fail": rng.random() < 0.2})
        out.append({"cfg": cfg, "ops": ops})
    return out


def fam_expiry(rng, count):
    """The request is lost / answered late: t ticks before, between and after; retransmission by message_received."""
    out = []
    for i in range(count):
        nodes = 2 + (i % 2)
        payer, cfg, ops = _base(nodes, i % 6 == 5)
        t1, t2, t3 = i % 3, (i // 3) % 3, (i // 9) % 3
        ops.append({"op": "pay", "node": payer, "id": 1, "off": 1})
        ops += [{"op": "tick", "node": payer}] * t1
        lose = rng.random() < 0.5
        if lose:
            ops.append({"op": "drop", "kind": "invreq", "payer": payer, "id": 1})
            if rng.random() < 0.6:
                ops.append({"op": "msgrecv", "node": payer})
        ops.append(_dl("invreq", payer, 1))
        ops += [{"op": "tick", "node": payer}] * t2
        if rng.random() < 0.3:
            ops.append({"op": "pay", "node": payer, "id": 1, "off": 1})
        ops.append(_dl("invoice", payer, 1, 0, keep=rng.random() < 0.3))
        ops += [{"op": "tick", "node": payer}] * t3
        if cfg["manual"][payer]:
            ops.append({"op": "sendinv", "node": payer, "id": 1, "which": 0})
        ops.append({"op": "settle"})
        if rng.random() < 0.5:
            ops += [{"op": "pay", "node": payer, "id": 1, "off": 1}, {"op": "tick", "node": payer}, {"op": "tick", "node": payer}, {"op": "settle"}]
        out.append({"cfg": cfg, "ops": ops})
    return out


def fam_abandon(rng, count):
    """abandon_payment at every point of the flow; the invoice comes late."""
    out = []
    for i in range(count):
        nodes = 2 + (i % 2)
        manual = (i // 2) % 3 == 2
        payer, cfg, ops = _base(nodes, manual)
        point = (i // 6) % 6
        ab = {"op": "abandon", "node": payer, "id": 1}
        if rng.random() < 0.25:
            ops.append({"op": "hold", "node": payer, "on": True})
        ops.append({"op": "pay", "node": payer, "id": 1, "off": 1})
        if point == 0: ops.append(ab)
        ops.append(_dl("invreq", payer, 1, 0, keep=rng.random() < 0.3))
        if point == 1: ops.append(ab)
        ops.append(_dl("invoice", payer, 1, 0, keep=rng.random() < 0.4))
        if point == 2: ops.append(ab)
        if manual:
            ops.append({"op": "sendinv", "node": payer, "id": 1, "which": 0})
        if point == 3: ops.append(ab)
        ops.append({"op": "pump"})
        if point == 4: ops.append(ab)
        ops.append({"op": rng.choice(["claim", "failback"])})
        ops.append({"op": "pump"})
        if point == 5: ops.append(ab)
        ops.append({"op": "handle", "node": payer})
        ops.append(_dl("invoice", payer, 1, 0))
        ops.append({"op": "replay", "kind": "invoice", "payer": payer, "id": 1, "n": 0})
        if manual:
            ops.append({"op": "sendinv", "node": payer, "id": 1, "which": 0})
        if rng.random() < 0.4:
            ops.append({"op": "pay", "node": payer, "id": 1, "off": 1})
        ops.append({"op": "settle"})
        out.append({"cfg": cfg, "ops": ops})
    return out


def fam_restart(rng, count):
    """The payer's manager is persisted at point i of the flow, the flow goes on for a while, the payer restarts from
    the snapshot: retransmission, late / repeated invoices, duplicate ids and ticks after the restart."""
    out = []
    for i in range(count):
        nodes = 2 + (i % 2)
        manual = (i // 2) % 3 == 2
        hold = (i // 6) % 4 == 3
        payer, cfg, ops = _base(nodes, manual)
        flow = [{"op": "pay", "node": payer, "id": 1, "off": 1}]
        if rng.random() < 0.3:
            flow.append({"op": "msgrecv", "node": payer})
        if rng.random() < 0.3:
            flow.append({"op": "tick", "node": payer})
        flow.append(_dl("invreq", payer, 1, 0, keep=rng.random() < 0.3))
        if rng.random() < 0.2:
            flow.append({"op": "abandon", "node": payer, "id": 1})
        if rng.random() < 0.2:
            flow.append({"op": "inverr", "payer": payer, "id": 1})
            flow.append(_dl("inverr", payer, 1))
        if manual or rng.random() < 0.3:
            flow.append(_dl("invoice", payer, 1, 0, keep=True))
        if rng.random() < 0.3:
            flow.append({"op": "tick", "node": payer})
        if hold:
            ops.append({"op": "hold", "node": payer, "on": True})
        sp = rng.randrange(len(flow) + 1)
        rp = rng.randrange(sp, len(flow) + 1)
        for k, o in enumerate(flow):
            if k == sp: ops.append({"op": "save", "node": payer})
            if k == rp: ops += [{"op": "restart", "node": payer, "use": "last"}, {"op": "reconnect_all"}, {"op": "pump"}]
            ops.append(o)
            if hold and rng.random() < 0.3:
                ops.append({"op": "handle", "node": payer})
        if sp == len(flow): ops.append({"op": "save", "node": payer})
        if rp == len(flow): ops += [{"op": "restart", "node": payer, "use": "last"}, {"op": "reconnect_all"}, {"op": "pump"}]
        tail = [{"op": "pay", "node": payer, "id": 1, "off": 1}, {"op": "msgrecv", "node": payer}, {"op": "tick", "node": payer},
                _dl("invreq", payer, 1), _dl("invoice", payer, 1, 0, keep=True), {"op": "handle", "node": payer},
                {"op": "sendinv", "node": payer, "id": 1, "which": 0}, {"op": "replay", "kind": "invoice", "payer": payer, "id": 1, "n": 0},
                {"op": "restart", "node": payer, "use": "now"}, {"op": "reconnect_all"}, {"op": "pump"}]
        for o in tail:
            if rng.random() < 0.45:
                ops.append(o)
        ops.append({"op": "settle"})
        if rng.random() < 0.3:
            ops += [{"op": "tick", "node": payer}, {"op": "tick", "node": payer}, {"op": "pay", "node": payer, "id": 1, "off": 1}, {"op": "settle"}]
        out.append({"cfg": cfg, "ops": ops})
    return out


def fam_inverr(rng, count):
    """Two ids in flight; the payee's user rejects the request of one of them (possibly twice, possibly late)."""
    out = []
    for i in range(count):
        nodes = 2 + (i % 2)
        payer, cfg, ops = _base(nodes, i % 7 == 6)
        a, b = (1, 2) if i % 4 < 2 else (2, 1)
        ops += [{"op": "pay", "node": payer, "id": 1, "off": 1}, {"op": "pay", "node": payer, "id": 2, "off": 1}]
        ops += [_dl("invreq", payer, 1), _dl("invreq", payer, 2)]
        ops.append({"op": "inverr", "payer": payer, "id": a})
        stage = (i // 4) % 4
        if stage >= 1:
            ops.append(_dl("invoice", payer, a, 0))
        if stage >= 2:
            ops.append({"op": "pump"})
        if stage >= 3:
            ops += [{"op": "claim"}, {"op": "pump"}]
        ops.append(_dl("inverr", payer, a, 0, keep=rng.random() < 0.5))
        if rng.random() < 0.5:
            ops.append(_dl("inverr", payer, a, 0))
        ops.append(_dl("invoice", payer, b, 0))
        if cfg["manual"][payer]:
            ops += [{"op": "sendinv", "node": payer, "id": b, "which": 0}]
        ops.append({"op": "settle", "fail": rng.random() < 0.2})
        out.append({"cfg": cfg, "ops": ops})
    return out


def fam_refund(rng, count):
    """create_refund_builder / request_refund_payment: one or two invoices for the refund, duplicates, abandon,
    duplicate ids shared with an offer payment."""
    out = []
    for i in range(count):
        nodes = 2 + (i % 2)
        manual = i % 5 == 3
        payer, cfg, ops = _base(nodes, manual)
        amt = rng.choice([1000000, 5000000])
        ops.append({"op": "refund", "node": payer, "id": 3, "amt": amt})
        if rng.random() < 0.3:
            ops.append({"op": "refund", "node": payer, "id": 3, "amt": amt})
        if rng.random() < 0.3:
            ops.append({"op": "pay", "node": payer, "id": 3, "off": 1})
        if rng.random() < 0.2:
            ops.append({"op": "abandon", "node": payer, "id": 3})
        k = rng.randrange(1, 3)
        for _ in range(k):
            ops.append({"op": "refund_req", "node": 0, "payer": payer, "id": 3})
        if rng.random() < 0.2:
            ops += [{"op": "tick", "node": payer}] * 2
        if rng.random() < 0.15:
            ops.append({"op": "abandon", "node": payer, "id": 3})
        for _ in range(k):
            ops.append(_dl("invoice", payer, 3, 0, keep=rng.random() < 0.3))
            if manual:
                ops.append({"op": "sendinv", "node": payer, "id": 3, "which": 0})
            if rng.random() < 0.4:
                ops.append({"op": "pump"})
        ops.append({"op": "settle", "fail": rng.random() < 0.2})
        if rng.random() < 0.4:
            ops += [{"op": "refund", "node": payer, "id": 3, "amt": amt}, {"op": "settle"}]
        out.append({"cfg": cfg, "ops": ops})
    return out


def fam_altered(rng, count):
    """Requests built against an altered copy of an offer / an offer the payee never created: no invoice may come."""
    out = []
    for i in range(count):
        nodes = 2 + (i % 2)
        payer, cfg, ops = _base(nodes, False, 5000000, ("tampered", "foreign"))
        off = 2 + (i // 2) % 2
        ops.append({"op": "pay", "node": payer, "id": 1, "off": off})
        if rng.random() < 0.5:
            ops.append({"op": "pay", "node": payer, "id": 2, "off": 1})
        ops.append({"op": "msgrecv", "node": payer})
        ops.append({"op": "deliver_all"})
        ops.append({"op": "replay", "kind": "invreq", "payer": payer, "id": 1, "n": 0})
        ops.append({"op": "deliver_all"})
        ops += [{"op": "tick", "node": payer}] * rng.randrange(0, 3)
        ops.append({"op": "settle"})
        ops += [{"op": "tick", "node": payer}] * 2
        ops.append({"op": "settle"})
        out.append({"cfg": cfg, "ops": ops})
    return out


def fam_idem(rng, count, idem=7):
    """A completed payment: the id stays refused for the idempotency window, then may be used again."""
    out = []
    for i in range(count):
        nodes = 2 + (i % 2)
        payer, cfg, ops = _base(nodes, False)
        ops += [{"op": "pay", "node": payer, "id": 1, "off": 1}, {"op": "deliver_all"}, {"op": "pump"}, {"op": "claim"}, {"op": "settle"}]
        t = (i // 2) % (idem + 3)
        for k in range(t):
            ops.append({"op": "tick", "node": payer})
            if rng.random() < 0.2:
                ops.append({"op": "pay", "node": payer, "id": 1, "off": 1})
        ops.append({"op": "pay", "node": payer, "id": 1, "off": 1})
        ops.append({"op": "replay", "kind": "invoice", "payer": payer, "id": 1, "n": 0})
        ops.append({"op": "settle"})
        out.append({"cfg": cfg, "ops": ops})
    return out


def fam_disc(rng, count):
    """Disconnections: the call is made / the answer arrives while a link is down."""
    out = []
    for i in range(count):
        nodes = 2 + (i % 2)
        payer, cfg, ops = _base(nodes, i % 5 == 4)
        link = rng.choice([(a, b) for a in range(nodes) for b in range(a + 1, nodes)])
        d = {"op": "disconnect", "a": link[0], "b": link[1]}
        r = {"op": "reconnect", "a": link[0], "b": link[1]}
        point = (i // 2) % 5
        flow = [{"op": "pay", "node": payer, "id": 1, "off": 1, "retries": rng.randrange(2)}, _dl("invreq", payer, 1), _dl("invoice", payer, 1),
                {"op": "pump"}, {"op": "claim"}]
        for k, o in enumerate(flow):
            if k == point:
                ops.append(d)
                if rng.random() < 0.5:
                    ops += [{"op": "tick", "node": payer}]
            if k == point + 1 + rng.randrange(2):
                ops += [r, {"op": "pump"}, {"op": "msgrecv", "node": payer}]
            ops.append(o)
            if cfg["manual"][payer] and o.get("kind") == "invoice":
                ops.append({"op": "sendinv", "node": payer, "id": 1, "which": 0})
        ops.append({"op": "settle"})
        out.append({"cfg": cfg, "ops": ops})
    return out


def fam_dupcall(rng, count):
    """A second call for a pending id names ANOTHER offer (another amount) and is refused: it must have no effect. Whatever it
    may have sent is handed over -- its request, the invoice answering it --, with the first call's request lost, delivered or
    answered, before / after a restart, the user paying by hand or not."""
    out = []
    for i in range(count):
        nodes = 2 + (i % 2)
        manual = (i // 2) % 4 == 3
        amt = rng.choice([1000000, 5000000, 10000000])
        payer, cfg, ops = _base(nodes, manual, amt)
        ops.append({"op": "offer", "node": 0, "amt": rng.choice([2 * amt, amt + 3000, amt // 2]), "variant": "own"})
        first = (i // 8) % 4          # the first call's request: lost / held / delivered / answered and paid
        ops.append({"op": "pay", "node": payer, "id": 1, "off": 1})
        if first == 0: ops.append({"op": "drop", "kind": "invreq", "call": 1})
        if first >= 2: ops.append({"op": "deliver", "kind": "invreq", "call": 1, "n": 0, "keep": rng.random() < 0.3})
        if first == 3:
            ops.append({"op": "deliver", "kind": "invoice", "call": 1, "n": 0})
            if manual: ops.append({"op": "sendinv", "node": payer, "id": 1, "which": 0})
            if rng.random() < 0.5: ops.append({"op": "pump"})
        if rng.random() < 0.2:
            ops += [{"op": "save", "node": payer}, {"op": "restart", "node": payer, "use": "last"}, {"op": "reconnect_all"}, {"op": "pump"}]
        ops.append({"op": "pay", "node": payer, "id": 1, "off": 1, "alt_off": 2})
        if rng.random() < 0.3:
            ops.append({"op": "msgrecv", "node": payer})
        ops.append({"op": "deliver", "kind": "invreq", "call": 2, "n": 0, "keep": rng.random() < 0.3})
        if rng.random() < 0.3:
            ops.append({"op": "tick", "node": payer})
        ops.append({"op": "deliver", "kind": "invoice", "call": 2, "n": 0, "keep": rng.random() < 0.3})
        if manual:
            ops += [{"op": "sendinv", "node": payer, "id": 1, "which": 0}, {"op": "sendinv", "node": payer, "id": 1, "which": 1}]
        if rng.random() < 0.3:
            ops.append({"op": "pay", "node": payer, "id": 1, "off": 1, "alt_off": 2})
            ops.append({"op": "deliver_all"})
        ops += [{"op": "pump"}, {"op": rng.choice(["claim", "claim", "failback"])}, {"op": "pump"}]
        ops.append({"op": "deliver", "kind": "invoice", "call": 2, "n": 0})
        ops.append({"op": "settle", "fail": rng.random() < 0.2})
        out.append({"cfg": cfg, "ops": ops})
    return out


def with_other_offer(script, rng, p=0.6):
    """One more offer of the payee (its own, another amount); calls for an id that is in use name it (`alt_off`: the engine
    asks list_recent_payments): a call that is going to be refused asks for something else than the accepted one."""
    ops = script["ops"]
    offers = [o for o in ops if o["op"] == "offer"]
    if not offers or any("alt_off" in o for o in ops):
        return script
    k = max(i for i, o in enumerate(ops) if o["op"] == "offer")
    alt = len(offers) + 1
    new = {"op": "offer", "node": offers[0]["node"], "amt": rng.choice([2 * offers[0]["amt"], offers[0]["amt"] + 3000]), "variant": "own"}
    out = ops[:k + 1] + [new]
    for o in ops[k + 1:]:
        if o["op"] == "pay" and rng.random() < p:
            o = dict(o)
            o["alt_off"] = alt
        out.append(o)
    script["ops"] = out
    return script


def fam_stale(rng, count):
    """The payer's manager is persisted while the id awaits its invoice (or the user was shown it), the invoice is paid
    (HTLCs are locked into the monitors), the payer restarts from the snapshot: LDK closes the channel and takes the HTLC
    up from the monitor; duplicate / replayed invoices after the restart; the chain settles (claim or timeout)."""
    out = []
    for i in range(count):
        nodes = 2 + (i % 2)
        manual = (i // 2) % 3 == 2
        payer, cfg, ops = _base(nodes, manual, rng.choice([1000000, 5000000, 20000000]))
        ops.append({"op": "pay", "node": payer, "id": 1, "off": 1, "retries": rng.randrange(2)})
        sp = (i // 6) % 3            # snapshot: right after the call / after the request was answered / after the invoice was shown (manual)
        if sp == 0: ops.append({"op": "save", "node": payer})
        if rng.random() < 0.3:
            ops.append({"op": "tick", "node": payer})
        ops.append(_dl("invreq", payer, 1, 0, keep=rng.random() < 0.4))
        if sp == 1: ops.append({"op": "save", "node": payer})
        if rng.random() < 0.4:
            ops.append(_dl("invreq", payer, 1, 0))
        ops.append(_dl("invoice", payer, 1, 0, keep=True))
        if sp == 2: ops.append({"op": "save", "node": payer})
        if manual:
            ops.append({"op": "sendinv", "node": payer, "id": 1, "which": 0})
        stage = rng.randrange(4)     # how far the HTLC got before the crash
        if stage >= 1: ops.append({"op": "pump"})
        if stage >= 2: ops.append({"op": rng.choice(["claim", "claim", "failback"])})
        if stage >= 3 and rng.random() < 0.5: ops.append({"op": "pump"})
        ops += [{"op": "restart", "node": payer, "use": "stale"}, {"op": "reconnect_all"}]
        tail = [_dl("invoice", payer, 1, 0, keep=True), {"op": "replay", "kind": "invoice", "payer": payer, "id": 1, "n": 0},
                _dl("invoice", payer, 1, 1), {"op": "sendinv", "node": payer, "id": 1, "which": 0}, {"op": "pay", "node": payer, "id": 1, "off": 1},
                {"op": "tick", "node": payer}, {"op": "tick", "node": payer}, {"op": "abandon", "node": payer, "id": 1}, {"op": "msgrecv", "node": payer},
                {"op": "pump"}]
        for o in tail:
            if rng.random() < 0.5:
                ops.append(o)
        ops.append({"op": "settle", "fail": rng.random() < 0.4})
        if rng.random() < 0.3:
            ops += [{"op": "pay", "node": payer, "id": 1, "off": 1}, {"op": "settle"}]
        out.append({"cfg": cfg, "ops": ops})
    return out


FAMILIES = [("dup", fam_dup, 140), ("expiry", fam_expiry, 108), ("abandon", fam_abandon, 108), ("restart", fam_restart, 160),
            ("inverr", fam_inverr, 64), ("refund", fam_refund, 80), ("altered", fam_altered, 24), ("idem", fam_idem, 40), ("disc", fam_disc, 60),
            ("stale", fam_stale, 120), ("dupcall", fam_dupcall, 128)]


def random_script(rng):
    """A seeded random script that keeps track of what the network holds, so that most steps apply."""
    nodes = rng.choice([2, 2, 3])
    manual = rng.random() < 0.3
    payer, cfg, ops = _base(nodes, manual, rng.choice([1000000, 5000000, 20000000]),
                            tuple(v for v in ("tampered", "foreign") if rng.random() < 0.2))
    noff = len(ops)
    off_of = {}
    held = {"invreq": 0, "invoice": 0, "inverr": 0}
    ids = [1, 2] if rng.random() < 0.4 else [1]
    if rng.random() < 0.15:
        ops.append({"op": "hold", "node": payer, "on": True})
    for _ in range(rng.randrange(6, 24)):
        pid = rng.choice(ids)
        r = rng.random()
        if r < 0.14:
            o = off_of.setdefault(pid, rng.randrange(1, noff + 1))
            ops.append({"op": "pay", "node": payer, "id": pid, "off": o, "retries": rng.randrange(2)})
            held["invreq"] += 1
        elif r < 0.17:
            ops.append({"op": "refund", "node": payer, "id": 3, "amt": 1000000})
        elif r < 0.20:
            ops.append({"op": "refund_req", "node": 0, "payer": payer, "id": 3})
            held["invoice"] += 1
        elif r < 0.42:
            kind = rng.choice([k for k in held if held[k] > 0] or ["invreq"])
            keep = rng.random() < 0.25
            ops.append(_dl(kind, payer, rng.choice(ids + [3]) if kind == "invoice" and rng.random() < 0.2 else pid, rng.randrange(2), keep))
            if not keep and held[kind] > 0:
                held[kind] -= 1
            if kind == "invreq":
                held["invoice"] += 1
        elif r < 0.48:
            ops.append({"op": "replay", "kind": rng.choice(["invreq", "invoice", "invoice", "inverr"]), "payer": payer, "id": pid, "n": rng.randrange(2)})
        elif r < 0.52:
            ops.append({"op": "drop", "kind": rng.choice(list(held)), "payer": payer, "id": pid})
        elif r < 0.62:
            ops.append({"op": "tick", "node": payer})
        elif r < 0.66:
            ops.append({"op": "abandon", "node": payer, "id": rng.choice(ids + [3])})
        elif r < 0.70:
            ops.append({"op": "msgrecv", "node": payer})
            held["invreq"] += 1
        elif r < 0.73:
            ops.append({"op": "inverr", "payer": payer, "id": pid})
            held["inverr"] += 1
        elif r < 0.78:
            ops.append({"op": "sendinv", "node": payer, "id": pid, "which": rng.randrange(2)})
        elif r < 0.85:
            ops.append({"op": "pump"})
        elif r < 0.89:
            ops += [{"op": rng.choice(["claim", "claim", "claim", "failback"])}, {"op": "pump"}]
        elif r < 0.92:
            ops.append({"op": "save", "node": payer})
        elif r < 0.95:
            ops += [{"op": "restart", "node": payer, "use": rng.choice(["last", "last", "now", "stale"])}, {"op": "reconnect_all"}, {"op": "pump"}]
        elif r < 0.97:
            a = rng.randrange(nodes - 1)
            ops.append({"op": rng.choice(["disconnect", "reconnect"]), "a": a, "b": rng.randrange(a + 1, nodes)})
        elif r < 0.985:
            ops.append({"op": "handle", "node": payer})
        else:
            ops.append({"op": "deliver_all"})
    if rng.random() < 0.3:
        ops.append({"op": "drop_all"})
    ops.append({"op": "settle", "fail": rng.random() < 0.15})
    if rng.random() < 0.5:
        ops += [{"op": "tick", "node": payer}] * rng.randrange(1, 4)
        if rng.random() < 0.5:
            ops.append({"op": "pay", "node": payer, "id": 1, "off": off_of.get(1, 1)})
        ops.append({"op": "settle"})
    return {"cfg": cfg, "ops": ops}


# Directed scripts for behaviours that are left out of the default runs (see ASSUMPTIONS); `python3 checks/offer_common.py probes`
PROBES = [
    # a refused second call names another offer; its request is answered and the answer is paid under the pending id
    ("dup-call-other-offer", {"cfg": {"nodes": 2, "manual": [False, False]}, "ops": [
        {"op": "offer", "node": 0, "amt": 5000000, "variant": "own"}, {"op": "offer", "node": 0, "amt": 9000000, "variant": "own"},
        {"op": "pay", "node": 1, "id": 1, "off": 1}, {"op": "pay", "node": 1, "id": 1, "off": 2},
        {"op": "drop", "kind": "invreq", "call": 1}, {"op": "deliver", "kind": "invreq", "call": 2}, {"op": "deliver", "kind": "invoice", "call": 2},
        {"op": "pump"}, {"op": "claim"}, {"op": "settle"}]}),
    # an id whose first use expired is used again for another offer; the invoice answering the FIRST use's request arrives and is
    # paid under the second use (the remaining assumption "an id that is used again names the same offer")
    ("reused-id-other-offer", {"cfg": {"nodes": 2, "manual": [False, False]}, "ops": [
        {"op": "offer", "node": 0, "amt": 5000000, "variant": "own"}, {"op": "offer", "node": 0, "amt": 9000000, "variant": "own"},
        {"op": "pay", "node": 1, "id": 1, "off": 1}, {"op": "tick", "node": 1}, {"op": "tick", "node": 1},
        {"op": "pay", "node": 1, "id": 1, "off": 2}, {"op": "drop", "kind": "invreq", "call": 2},
        {"op": "deliver", "kind": "invreq", "call": 1}, {"op": "deliver", "kind": "invoice", "call": 1},
        {"op": "pump"}, {"op": "claim"}, {"op": "settle"}]}),
    # the user handles PaymentFailed (abandon), the node restarts from a snapshot taken before: the id is awaiting again and a
    # late invoice is paid: PaymentSent after PaymentFailed
    ("restart-revives-failed-id", {"cfg": {"nodes": 2, "manual": [False, False]}, "ops": [
        {"op": "offer", "node": 0, "amt": 5000000, "variant": "own"}, {"op": "pay", "node": 1, "id": 1, "off": 1},
        {"op": "deliver", "kind": "invreq", "call": 1}, {"op": "save", "node": 1}, {"op": "abandon", "node": 1, "id": 1},
        {"op": "restart", "node": 1, "use": "last", "allow_unclean": True}, {"op": "reconnect_all"}, {"op": "pump"},
        {"op": "deliver", "kind": "invoice", "call": 1}, {"op": "pump"}, {"op": "claim"}, {"op": "settle"}]}),
]


# ------------------------------------------------------------------------------------------ engine, statistics

def run_engine(binpath, wd, scripts, seed, tag, procs=6):
    """Run the scripts in `procs` engine processes; returns (trace path, summary, scripts by run id)."""
    chunks = [c for c in (scripts[i::procs] for i in range(procs)) if c]
    ps = []
    for k, ch in enumerate(chunks):
        sp = os.path.join(wd, "offer-scripts-%s-%d.ndjson" % (tag, k))
        with open(sp, "w") as f:
            for s in ch:
                f.write(json.dumps({"cfg": s["cfg"], "ops": s["ops"]}) + "\n")
        tp = os.path.join(wd, "offer-trace-%s-%d.ndjson" % (tag, k))
        ps.append((k, tp, subprocess.Popen([binpath, "--scripts", sp, "--out", tp, "--seed", str(seed)],
                                           stdout=subprocess.DEVNULL, stderr=subprocess.DEVNULL)))
    summ = {"runs": 0, "events": 0, "panics": 0, "executed": 0, "skipped": 0, "restarts": 0, "setup_failures": 0}
    out = os.path.join(wd, "offer-trace-%s.ndjson" % tag)
    index = []
    setup_panic = ""
    with open(out, "w") as fo:
        for k, tp, p in ps:
            rc = p.wait(timeout=3000)
            if rc != 0:
                raise vlib.ToolError("engine offernet exited %d (chunk %d of %s)" % (rc, k, tag))
            s = json.load(open(tp + ".summary"))
            for key in summ:
                summ[key] += s[key]
            setup_panic = setup_panic or s.get("setup_panic", "")
            base = len(index)
            index += chunks[k]
            with open(tp) as f:
                for ln in f:
                    r = json.loads(ln)
                    r["run"] += base
                    fo.write(json.dumps(r) + "\n")
            for x in (tp, tp + ".summary", tp + ".scripts"):
                try:
                    os.remove(x)
                except OSError:
                    pass
    summ["setup_panic"] = setup_panic
    return out, summ, index


def trace_stats(path, c):
    """What the recorded runs contain (vacuity guards, evidence)."""
    def inc(k, n=1):
        c[k] = c.get(k, 0) + n
    cur = None
    st = {}

    def close():
        if st.get("failed") and any(v > 1 for v in st["failed"].values()):
            inc("runs_with_repeated_PaymentFailed")
        if st.get("restart") and st.get("paid_after_restart"):
            inc("runs_paid_after_restart")
    with open(path) as f:
        for ln in f:
            r = json.loads(ln)
            if r["run"] != cur:
                close()
                cur = r["run"]
                st = {"failed": {}, "restart": False, "inv_delivered": {}, "adds": {}, "awaiting_before_restart": False}
            e = r["ev"]
            if e == "pay":
                inc("pay_%s_%s" % (r["kind"], r["res"]))
                if r["res"] == "ok":
                    st.setdefault("accepted", {})[r["pid"]] = (r["off"], r["amt"])
                elif r["res"] == "dup" and r["pid"] in st.get("accepted", {}) and st["accepted"][r["pid"]] != (r["off"], r["amt"]):
                    # a refused call that names another offer / amount than the accepted one
                    inc("dup_call_other_offer")
                    st["other"] = True
                if not r["okoffer"]:
                    inc("pay_not_own_offer")
                if r["res"] == "dup" and st["restart"]:
                    inc("dup_refused_after_restart")
            elif e == "om":
                inc("om_" + r["kind"])
                if r["kind"] == "invreq" and st["restart"]:
                    inc("invreq_after_restart")
            elif e == "deliver":
                inc("deliver_" + r["kind"])
                if st.get("other") and r["kind"] in ("invreq", "invoice"):
                    inc("deliveries_after_dup_call_other_offer")
                if r["nth"] > 1:
                    inc("deliver_%s_again" % r["kind"])
                if r["kind"] == "invoice" and st.get("stale"):
                    inc("invoice_after_stale_restart")
                if r["kind"] == "invoice":
                    n = st["inv_delivered"].setdefault(r["pid"], set())
                    n.add(r["hash"])
                    if len(n) == 2:
                        inc("ids_with_two_invoices")
            elif e == "htlc" and r["kind"] == "update_add_htlc":
                inc("htlc_add")
                if st["restart"]:
                    st["paid_after_restart"] = True
            elif e == "event":
                k = r["kind"]
                if k == "PaymentFailed":
                    inc("ev_PaymentFailed_" + r["reason"])
                    st["failed"][r["pid"]] = st["failed"].get(r["pid"], 0) + 1
                elif k in ("PaymentSent", "InvoiceReceived", "PaymentClaimable"):
                    inc("ev_" + k)
                    if k == "PaymentClaimable":
                        inc("claimable_" + r["purpose"])
            elif e == "sendinv":
                inc("sendinv_" + r["res"])
            elif e == "restart":
                inc("restart")
                if r["stale"]:
                    inc("restart_stale")
                    st["stale"] = True
                st["restart"] = True
            elif e == "chain":
                inc("chain_" + ("commitment" if r["what"] == "commitment" else "htlc_claimed" if r["preimage"] else "htlc_timeout"))
            elif e == "recent" and r["after_restart"]:
                if any(x["st"] == "awaiting" for x in r["list"]):
                    inc("restart_with_id_awaiting")
            elif e in ("tick", "abandon", "msgrecv", "inverr", "quiet", "refund_req", "save", "drop", "disconnect", "hold", "claim", "failback", "panic"):
                inc(e)
    close()
    return c


NEED = {"pay_offer_ok": 300, "pay_offer_dup": 60, "pay_refund_ok": 30, "pay_not_own_offer": 20, "deliver_invreq_again": 40, "deliver_invoice_again": 40,
        "ids_with_two_invoices": 40, "htlc_add": 150, "ev_PaymentSent": 100, "ev_PaymentFailed_InvoiceRequestExpired": 40,
        "ev_PaymentFailed_UserAbandoned": 40, "ev_PaymentFailed_InvoiceRequestRejected": 15, "ev_InvoiceReceived": 40, "sendinv_ok": 25,
        "sendinv_dup": 5, "sendinv_unexpected": 5, "claimable_offer": 100, "claimable_refund": 10, "restart": 80, "restart_with_id_awaiting": 40,
        "dup_refused_after_restart": 10, "invreq_after_restart": 10, "runs_with_repeated_PaymentFailed": 3, "tick": 200, "abandon": 80,
        "msgrecv": 60, "quiet": 500, "restart_stale": 60, "chain_commitment": 60, "chain_htlc_claimed": 10, "chain_htlc_timeout": 15,
        "invoice_after_stale_restart": 30, "dup_call_other_offer": 200, "deliveries_after_dup_call_other_offer": 200}


# ------------------------------------------------------------------------------------------ binding self-test

def _st_second_htlc_set(rs):
    """a second invoice of the id is paid too: a second update_add_htlc with that invoice's hash"""
    for k, r in enumerate(rs):
        if r["ev"] == "htlc" and r["kind"] == "update_add_htlc":
            inv = [x for x in rs[:k] if x["ev"] == "deliver" and x["kind"] == "invoice" and x["to"] == r["from"]]
            mine = [x for x in inv if x["hash"] == r["hash"]]
            other = [x for x in inv if mine and x["pid"] == mine[0]["pid"] and x["hash"] != r["hash"]]
            if mine and other:
                d = dict(r)
                d["hash"], d["id"] = other[0]["hash"], r["id"] + 50
                return rs[:k + 1] + [d] + rs[k + 1:]


def _st_htlc_without_invoice(rs):
    for k, r in enumerate(rs):
        if r["ev"] == "htlc" and r["kind"] == "update_add_htlc":
            j = [i for i in range(k) if rs[i]["ev"] == "deliver" and rs[i]["kind"] == "invoice" and rs[i]["hash"] == r["hash"]]
            if len(j) == 1 and not any(x["ev"] == "hdeliver" and x["kind"] == "update_add_htlc" and x["to"] == r["from"] for x in rs[:k]):
                return rs[:j[0]] + rs[j[0] + 1:]


def _st_dup_accepted(rs):
    for k, r in enumerate(rs):
        if r["ev"] == "pay" and r["res"] == "dup" and r["handled"] and not any(x["ev"] in ("restart", "hold") for x in rs[:k]):
            d = dict(r)
            d["res"] = "ok"
            return rs[:k] + [d] + rs[k + 1:]


def _st_expired_early(rs):
    """the second of the two ticks before an InvoiceRequestExpired is dropped"""
    for k, r in enumerate(rs):
        if r["ev"] == "event" and r["kind"] == "PaymentFailed" and r["reason"] == "InvoiceRequestExpired" and \
                not any(x["ev"] in ("restart", "hold") for x in rs[:k]):
            p = [i for i in range(k) if rs[i]["ev"] == "pay" and rs[i]["pid"] == r["pid"] and rs[i]["res"] == "ok"]
            if not p:
                continue
            t = [i for i in range(p[-1], k) if rs[i]["ev"] == "tick" and rs[i]["node"] == r["node"]]
            if len(t) == 2:
                return rs[:t[1]] + rs[t[1] + 1:]


def _st_abandon_not_reported(rs):
    for k, r in enumerate(rs):
        if r["ev"] == "event" and r["kind"] == "PaymentFailed" and r["reason"] == "UserAbandoned" and r["hash"] == 0 and \
                not any(x["ev"] in ("restart", "hold") for x in rs) and \
                sum(1 for x in rs if x["ev"] == "pay" and x["pid"] == r["pid"] and x["res"] == "ok") == 1 and rs[-1]["ev"] == "quiet":
            return rs[:k] + rs[k + 1:]


def _st_second_terminal(rs):
    for k, r in enumerate(rs):
        if r["ev"] == "event" and r["kind"] in ("PaymentSent", "PaymentFailed") and not any(x["ev"] == "restart" for x in rs) and \
                sum(1 for x in rs if x["ev"] == "pay" and x["pid"] == r["pid"] and x["res"] == "ok") == 1:
            return rs[:k + 1] + [dict(r)] + rs[k + 1:]


def _st_sent_unclaimed(rs):
    for k, r in enumerate(rs):
        if r["ev"] == "claim" and any(x["ev"] == "event" and x["kind"] == "PaymentSent" and x["hash"] == r["hash"] for x in rs[k:]) and \
                sum(1 for x in rs if x["ev"] == "claim" and x["hash"] == r["hash"]) == 1:
            return rs[:k] + rs[k + 1:]


def _st_failed_in_flight(rs):
    """PaymentFailed is moved in front of the delivery of the update_fail_htlc"""
    for k, r in enumerate(rs):
        if r["ev"] == "hdeliver" and r["kind"] == "update_fail_htlc":
            pf = [i for i in range(k + 1, len(rs)) if rs[i]["ev"] == "event" and rs[i]["kind"] == "PaymentFailed" and rs[i]["node"] == r["to"]]
            pays = [x for x in rs if x["ev"] == "pay" and x["res"] == "ok" and x["node"] == r["to"]]
            if pf and len(pays) == 1 and rs[pf[0]]["pid"] == pays[0]["pid"] and \
                    not any(x["ev"] == "hdeliver" and x["kind"] != "update_add_htlc" and x["to"] == r["to"] for x in rs[k + 1:pf[0]]):
                return rs[:k] + [rs[pf[0]]] + rs[k:pf[0]] + rs[pf[0] + 1:]


def _st_error_for_other_id(rs):
    for k, r in enumerate(rs):
        if r["ev"] == "deliver" and r["kind"] == "inverr" and r["final"] and \
                any(x["ev"] == "event" and x["kind"] == "PaymentFailed" and x["reason"] == "InvoiceRequestRejected" and x["pid"] == r["pid"] for x in rs[k:]) and \
                sum(1 for x in rs if x["ev"] == "deliver" and x["kind"] == "inverr" and x["pid"] == r["pid"]) == 1:
            d = dict(r)
            d["pid"] = r["pid"] + 1
            return rs[:k] + [d] + rs[k + 1:]


def _st_invoice_for_altered_offer(rs):
    """the request that was answered is said to be built against an altered offer"""
    for k, r in enumerate(rs):
        if r["ev"] == "pay" and r["res"] == "ok" and r["okoffer"] and r["kind"] == "offer" and \
                any(x["ev"] == "om" and x["kind"] == "invoice" and x["call"] == r["call"] for x in rs[k:]):
            d = dict(r)
            d["okoffer"] = False
            return rs[:k] + [d] + rs[k + 1:]


def _st_invoice_unrequested(rs):
    """the invoice leaves the payee before the request arrives"""
    for k, r in enumerate(rs):
        if r["ev"] == "om" and r["kind"] == "invoice":
            j = [i for i in range(k) if rs[i]["ev"] == "deliver" and rs[i]["kind"] == "invreq" and rs[i]["call"] == r["call"]]
            if len(j) == 1 and not any(x["ev"] == "refund_req" for x in rs):
                return rs[:j[0]] + rs[j[0] + 1:]


def _st_claimable_other_offer(rs):
    for k, r in enumerate(rs):
        if r["ev"] == "event" and r["kind"] == "PaymentClaimable" and r["purpose"] == "offer":
            d = dict(r)
            d["off"] = r["off"] + 1
            return rs[:k] + [d] + rs[k + 1:]


def _st_manual_autopaid(rs):
    """the user's send_payment_for_bolt12_invoice call is dropped: the HTLC left by itself"""
    for k, r in enumerate(rs):
        if r["ev"] == "sendinv" and r["res"] == "ok" and sum(1 for x in rs if x["ev"] == "sendinv" and x["res"] == "ok" and x["pid"] == r["pid"]) == 1 and \
                any(x["ev"] == "htlc" and x["kind"] == "update_add_htlc" and x["hash"] == r["hash"] for x in rs[k:]):
            return rs[:k] + rs[k + 1:]


def _st_paid_after_abandon(rs):
    """abandon_payment is moved in front of the delivery of the invoice that was paid"""
    for k, r in enumerate(rs):
        if r["ev"] == "abandon" and not any(x["ev"] in ("restart", "hold") for x in rs):
            inv = [i for i in range(k) if rs[i]["ev"] == "deliver" and rs[i]["kind"] == "invoice" and rs[i]["pid"] == r["pid"]]
            add = [i for i in range(k) if rs[i]["ev"] == "htlc" and rs[i]["kind"] == "update_add_htlc" and inv and rs[i]["hash"] == rs[inv[0]]["hash"]]
            if inv and add and sum(1 for x in rs if x["ev"] == "pay" and x["pid"] == r["pid"] and x["res"] == "ok") == 1:
                return rs[:inv[0]] + [r] + rs[inv[0]:k] + rs[k + 1:]


def _st_forgotten_alive(rs):
    """after the restart the id is no longer listed although it goes on to complete"""
    for k, r in enumerate(rs):
        if r["ev"] == "recent" and r["after_restart"] and r["list"]:
            for x in r["list"]:
                if any(y["ev"] == "event" and y["kind"] == "PaymentSent" and y["pid"] == x["pid"] for y in rs[k:]):
                    d = dict(r)
                    d["list"] = [y for y in r["list"] if y["pid"] != x["pid"]]
                    return rs[:k] + [d] + rs[k + 1:]


SELFTESTS = [("second-set-of-HTLCs-for-second-invoice", _st_second_htlc_set), ("HTLC-without-invoice", _st_htlc_without_invoice),
             ("duplicate-id-accepted", _st_dup_accepted), ("invoice-request-expired-one-tick-early", _st_expired_early),
             ("abandon-while-awaiting-not-reported", _st_abandon_not_reported), ("second-terminal-event", _st_second_terminal),
             ("PaymentSent-without-claim", _st_sent_unclaimed), ("PaymentFailed-with-HTLC-in-flight", _st_failed_in_flight),
             ("invoice-error-of-another-id", _st_error_for_other_id), ("invoice-for-altered-offer", _st_invoice_for_altered_offer),
             ("invoice-without-request", _st_invoice_unrequested), ("PaymentClaimable-names-another-offer", _st_claimable_other_offer),
             ("manual-handling-paid-by-itself", _st_manual_autopaid), ("paid-after-abandon-while-awaiting", _st_paid_after_abandon),
             ("forgotten-id-completes", _st_forgotten_alive)]


def selftest(pid, wd, tpaths):
    by_run = {}
    for n, tp in enumerate(tpaths):
        with open(tp) as f:
            for x in f:
                r = json.loads(x)
                by_run.setdefault((n, r["run"]), []).append(r)
    runs = [rs for rs in by_run.values() if not any(r["ev"] == "panic" for r in rs)]
    done, rejected, names = 0, 0, []
    jobs = []
    for name, fn in SELFTESTS:
        variants = []
        for rs in runs:
            m = fn(rs)
            if m is not None:
                variants.append(m)
                if len(variants) == 2:
                    break
        if not variants:
            names.append(name + " (no run to corrupt)")
            continue
        jobs.append((name, variants))

    def judge(job):
        name, variants = job
        for v, m in enumerate(variants):
            p = os.path.join(wd, "offer-selftest-%s-%d.ndjson" % (name, v))
            with open(p, "w") as f:
                for r in m:
                    r = dict(r)
                    r["run"] = 1
                    f.write(json.dumps(r) + "\n")
            _, fails = vlib.validate_trace(pid, TRACE, TRACE + ".cfg", p, max_failures=1, tag="ofst-%s-%d" % (name, v))
            if fails:
                return name, True
        return name, False
    from concurrent.futures import ThreadPoolExecutor
    with ThreadPoolExecutor(max_workers=6) as ex:
        for name, ok in ex.map(judge, jobs):
            done += 1
            rejected += 1 if ok else 0
            names.append(name if ok else name + " (NOT REJECTED)")
    if done < len(SELFTESTS) - 2 or rejected != done:
        raise vlib.ToolError("binding self-test (bolt12-flow): %d of %d kinds of corruption rejected (%s)" % (rejected, done, names))
    return {"mutations": done, "rejected": rejected, "kinds": names}


# ------------------------------------------------------------------------------------------ the code's constant

def code_req_ticks():
    """StaleExpiration::TimerTicks(n) as written in pay_for_offer (the value is a literal of ln/channelmanager.rs; it is
    read from the source the engine is built from)."""
    src = os.path.normpath(os.path.join(vlib.HARNESS, "..", "..", "repo", "lightning", "src", "ln", "channelmanager.rs"))
    try:
        txt = open(src).read()
    except OSError:
        return None
    k = txt.find("pub fn pay_for_offer(")
    m = re.search(r"StaleExpiration::TimerTicks\((\d+)\)", txt[k:k + 3000]) if k >= 0 else None
    return int(m.group(1)) if m else None


def instantiate(cfg, code_ticks):
    """A copy of an MC configuration whose design constant CodeTicks is the code's value."""
    src = os.path.join(vlib.SPEC, cfg)
    dst = cfg.replace(".cfg", "_i.cfg")
    txt = open(src).read()
    txt = re.sub(r"CodeTicks = \d+", "CodeTicks = %d" % code_ticks, txt)
    with open(os.path.join(vlib.SPEC, dst), "w") as f:
        f.write(txt)
    return dst


def run_mutants(pid, cfgs):
    """Design models with a planted defect (all at once, two workers each): TLC must refute every one."""
    wd = vlib.workdir(pid)
    ps = []
    for cfg in cfgs:
        meta = os.path.join(wd, "meta-" + cfg.replace(".cfg", ""))
        cmd = ["timeout", "600"] + vlib._java(xmx="2g", xss="512m") + ["-workers", "2", "-metadir", meta, "-cleanup", "-noGenerateSpecTE",
                                                                         "-config", cfg, "OfferFlowMC.tla"]
        ps.append((cfg, meta, subprocess.Popen(cmd, cwd=vlib.SPEC, stdout=subprocess.PIPE, stderr=subprocess.STDOUT, text=True)))
    done = []
    for cfg, meta, p in ps:
        out, _ = p.communicate()
        subprocess.run(["rm", "-rf", meta])
        with open(os.path.join(wd, "tlc-%s.out" % cfg.replace(".cfg", "")), "w") as f:
            f.write(out)
        if p.returncode == 124:
            raise vlib.ToolError("TLC timeout on OfferFlowMC/%s" % cfg)
        refuted = "Error: Deadlock reached" in out or " is violated" in out
        if not refuted and "Model checking completed. No error has been found" not in out:
            vlib.log(out[-2000:])
            raise vlib.ToolError("TLC error on OfferFlowMC/%s" % cfg)
        if not refuted:
            raise vlib.ToolError("spec mutant %s is not refuted by TLC: the observable specification does not notice the planted defect" % cfg)
        done.append(cfg)
    return done


def run_mc(pid, cfg, timeout, workers=12):
    """TLC on the design model (no -coverage: vacuity is judged by the features the behaviours show)."""
    wd = vlib.workdir(pid)
    meta = os.path.join(wd, "meta-" + cfg.replace(".cfg", ""))
    cmd = ["timeout", str(timeout)] + vlib._java(xmx="6g", xss="512m") + ["-workers", str(workers), "-metadir", meta, "-cleanup", "-noGenerateSpecTE",
                                                                          "-config", cfg, "OfferFlowMC.tla"]
    t0 = time.time()
    p = subprocess.run(cmd, cwd=vlib.SPEC, stdout=subprocess.PIPE, stderr=subprocess.STDOUT, text=True)
    subprocess.run(["rm", "-rf", meta])
    out = p.stdout
    with open(os.path.join(wd, "tlc-%s.out" % cfg.replace(".cfg", "")), "w") as f:
        f.write("\n".join(x for x in out.splitlines() if not x.startswith('<<"SCRIPT"')))
    if p.returncode == 124:
        raise vlib.ToolError("TLC timeout on OfferFlowMC/%s" % cfg)
    res = {"cfg": cfg, "wall_s": round(time.time() - t0, 1), "states": 0, "distinct": 0, "depth": 0, "failed": None}
    m = None
    for m in vlib._RE_STATES.finditer(out):
        pass
    if m:
        res["states"], res["distinct"] = int(m.group(1)), int(m.group(2))
    m = vlib._RE_DEPTH.search(out)
    if m:
        res["depth"] = int(m.group(1))
    m = vlib._RE_INV.search(out)
    if m:
        res["failed"] = "invariant " + m.group(1)
    elif "Error: Deadlock reached" in out:
        res["failed"] = "deadlock (an observation the observable specification forbids)"
    elif "Model checking completed. No error has been found" not in out:
        vlib.log(out[-3000:])
        raise vlib.ToolError("TLC error on OfferFlowMC/%s" % cfg)
    return res, vlib.tlc_printed(out, "SCRIPT")


# ------------------------------------------------------------------------------------------ the part

def run_part(pid, tier, seed, wd):
    t0 = time.time()
    thorough = tier == "thorough"
    rng = random.Random(seed * 7919 + 17)
    bins = vlib.build(["offernet"])
    only = [x for x in os.environ.get("OFFER_ONLY", "").split(",") if x]       # (development: a subset of the batches)

    # ---- design check + behaviours
    ticks = code_req_ticks()
    vlib.log("[offer] StaleExpiration::TimerTicks in pay_for_offer: %s (documented: %d full timer tick(s))" % (ticks, DOC_REQ_TICKS))
    mcs, conv, feats, mc_failed = [], [], set(), []
    cfgs = [] if (only and "tlc" not in only) else (MC_THOROUGH if thorough else MC_QUICK)
    from concurrent.futures import ThreadPoolExecutor
    t_mc = time.time()
    # (the instances are small: three at a time, four workers each)
    with ThreadPoolExecutor(max_workers=3) as ex:
        results = list(ex.map(lambda cfg: run_mc(pid, instantiate(cfg, ticks if ticks is not None else DOC_REQ_TICKS),
                                                 3000 if thorough else 600, workers=4), cfgs))
    for cfg, (r, got) in zip(cfgs, results):
        r["cfg"] = cfg
        for s in got:
            feats.update(s.get("feat", []))
        vlib.log("[mc] %s: %d distinct states, %d generated, depth %d, %d behaviours, %.0fs%s" %
                 (cfg, r["distinct"], r["states"], r["depth"], len(got), r["wall_s"], "  FAILED: " + r["failed"] if r["failed"] else ""))
        if r["failed"]:
            # not a verdict about the code by itself: the runs below decide (the behaviours printed so far are still driven)
            mc_failed.append("%s: %s" % (cfg, r["failed"]))
        cap = (1200 if thorough else 150)
        for k, s in enumerate(pick_scripts(got, cap, rng)):
            conv.append(convert_script(s, 2 + (k % 3 == 2), rng))
        mcs.append(r)
    mc_wall = round(time.time() - t_mc, 1)
    mutants = run_mutants(pid, [] if only else MC_MUTANTS)
    if mutants:
        vlib.log("[mc] %d spec mutants refuted: %s" % (len(mutants), ", ".join(m.replace("OfferFlowMC_mut_", "").replace(".cfg", "") for m in mutants)))

    # ---- real code
    batches = []
    if conv:
        batches.append(("tlc", conv))
    fams = []
    for name, fn, count in FAMILIES:
        made = [with_other_offer(x, rng) for x in fn(rng, count * (6 if thorough else 1))]
        for s in made:
            s["family"] = name
        fams += made
    batches.append(("families", fams))
    batches.append(("random", [with_other_offer(random_script(rng), rng) for _ in range(6000 if thorough else 700)]))
    if only:
        batches = [b for b in batches if b[0] in only]
    nviol, total_events, total_runs, executed, skipped, panics = 0, 0, 0, 0, 0, 0
    stats, accepted, summs = {}, [], {}
    for bname, scripts in batches:
        tpath, summ, index = run_engine(bins["offernet"], wd, scripts, seed, bname)
        summs[bname] = {k: v for k, v in summ.items() if k != "setup_panic"}
        vlib.log("[offernet] %s %s" % (bname, summs[bname]))
        if summ["setup_failures"]:
            if vlib.report_violation(pid, "offer-%s-setup" % bname, {"property": pid, "part": "bolt12-flow", "kind": "panic while opening channels",
                                     "message": summ.get("setup_panic", ""), "batch": bname, "engine": "offernet"}):
                nviol += 1
        total_runs += summ["runs"]
        executed += summ["executed"]
        skipped += summ["skipped"]
        panics += summ["panics"]
        trace_stats(tpath, stats)
        total, fails = vlib.validate_trace(pid, TRACE, TRACE + ".cfg", tpath, timeout=2400, tag="of-" + bname)
        total_events += total
        if not fails:
            accepted.append(tpath)
        for fl in fails:
            ev = fl["rec"]
            vlib.log("[reject] bolt12-flow batch %s run %s at event %d (%s %s)" % (bname, fl["run"], fl["pos_in_run"], ev.get("ev"), ev.get("kind", "")))
            script = index[fl["run"] - 1] if isinstance(fl["run"], int) and 0 < fl["run"] <= len(index) else None
            if vlib.report_violation(pid, "offer-%s-run%s" % (bname, fl["run"]), {
                    "property": pid, "part": "BOLT-12 flow (OfferFlow.tla)", "kind": fl["kind"], "invariant": fl["inv"],
                    "first_unmatched_event": ev, "position_in_run": fl["pos_in_run"], "batch": bname, "engine": "offernet", "seed": seed,
                    "script": script, "trace_of_run": fl["run_events"], "last_state": fl["last_state"],
                    "how_to_replay": "put `script` (cfg + ops) on one line of s.ndjson; harness/target/debug/offernet --scripts s.ndjson --out t.ndjson ; "
                                     "tools/tv.sh OfferFlowTrace t.ndjson"}):
                nviol += 1
    if nviol == 0 and mc_failed:
        raise vlib.ToolError("design model OfferFlowMC does not meet the observable specification (%s) although no recorded run is rejected: "
                             "the model (or its constant read from the source, TimerTicks = %s) needs correction" % ("; ".join(mc_failed), ticks))
    if nviol == 0 and not only:
        if total_runs and executed < 3 * skipped:
            raise vlib.ToolError("offernet: drivers mostly skip (%d executed, %d skipped)" % (executed, skipped))
        missing = [f for f in MC_FEATURES if f not in feats]
        if missing:
            raise vlib.ToolError("vacuity: the behaviours of OfferFlowMC never show %s" % missing)
        for k, n in NEED.items():
            n = n * (4 if thorough else 1)
            if stats.get(k, 0) < n:
                raise vlib.ToolError("vacuity: the runs contain %d x %s (need >= %d): %s" % (stats.get(k, 0), k, n, stats))

    st = None
    if nviol == 0 and not only and accepted:
        st = selftest(pid, wd, accepted)
        vlib.log("[selftest] bolt12-flow %s" % st)

    cov = {
        "states": sum(r["distinct"] for r in mcs), "transitions": sum(r["states"] for r in mcs),
        "mc_runs": mcs, "mc_wall_s": mc_wall, "mc_features_shown": sorted(feats), "spec_mutants_refuted": mutants,
        "code_constants": {"StaleExpiration::TimerTicks in pay_for_offer (read from the source)": ticks, "documented_full_timer_ticks": DOC_REQ_TICKS},
        "scripts_from_tlc": len(conv), "scripts_structured": len(fams), "traces_validated_against_impl": total_runs,
        "events_validated": total_events, "script_steps_executed": executed, "script_steps_skipped": skipped, "impl_panics": panics,
        "engine": summs, "observed": stats, "need": NEED, "binding_selftest": st,
        "samples": [{"cfg": s["cfg"], "ops": s["ops"]} for s in conv[:1]], "wall_s": round(time.time() - t0, 1),
    }
    return nviol, cov


def run_probes(pid="C03"):
    """The behaviours left out of the default runs (ASSUMPTIONS): shows what the specification says about them."""
    wd = vlib.workdir("offer")
    bins = vlib.build(["offernet"])
    for key, script in PROBES:
        tpath, summ, index = run_engine(bins["offernet"], wd, [script], 1, "probe-" + key, procs=1)
        _, fails = vlib.validate_trace(pid, TRACE, TRACE + ".cfg", tpath, max_failures=1, tag="ofprobe")
        if fails:
            vlib.log("[probe] %s: REJECTED at event %d %s" % (key, fails[0]["pos_in_run"], json.dumps(fails[0]["rec"])))
        else:
            vlib.log("[probe] %s: accepted" % key)


def main():
    def fn(tier, seed):
        wd = vlib.workdir("offer")
        nviol, cov = run_part("C03", tier, seed, wd)
        with open(os.path.join(wd, "coverage.json"), "w") as f:
            json.dump({"tier": tier, "seed": seed, "violations": nviol, "coverage": cov, "assumptions": ASSUMPTIONS}, f, indent=1, default=str)
        vlib.log("[offer] %s: %d violation(s); %d MC states, %d TLC scripts, %d structured, %d runs, %d events, %.0fs" %
                 (tier, nviol, cov["states"], cov["scripts_from_tlc"], cov["scripts_structured"], cov["traces_validated_against_impl"],
                  cov["events_validated"], cov["wall_s"]))
        return nviol
    if len(sys.argv) > 1 and sys.argv[1] == "probes":
        vlib.isolate("offer")
        run_probes()
        return
    if len(sys.argv) > 1 and sys.argv[1] in ("quick", "thorough"):
        os.environ["VERIF_TIER"] = sys.argv[1]
    if len(sys.argv) > 2 and sys.argv[2].isdigit():
        os.environ["VERIF_SEED"] = sys.argv[2]
        sys.argv[2] = "x"
    vlib.main_wrapper("offer", fn)


if __name__ == "__main__":
    main()
