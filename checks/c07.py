"""C07 -- after a unilateral close every entitled output is recovered, validly and in time (engine `onchain`, spec OnChain.tla)."""
import onchain_common as oc

def run(tier, seed):
    return oc.run_check("C07", tier, seed, oc.COMMON_ASSUMPTIONS + [
        "balances: sum of ClaimableAwaitingConfirmations + ContentiousClaimable + MaybeTimeoutClaimableHTLC equals the gross value "
        "of the outputs still owed (Balance docs: amounts exclude the on-chain fees still to be paid); between a peer's spend of an HTLC "
        "output and its ANTI_REORG_DELAY-th confirmation the balance may or may not still be listed (get_claimable_balances docs)",
        "a preimage claim must win only if the preimage was known when the commitment confirmed, more than 12 blocks before the "
        "expiry, and no live claim of the node was ever left out of a block",
        "reorganisations may unconfirm the commitment and confirmed claims of an honest close (same rules as for C06: depth within "
        "ANTI_REORG_DELAY, the network keeps or forgets dependent claims, periodic rebroadcast_pending_claims for ten blocks after it "
        "forgot some, obligations judged from the first block of the new chain on, a reorganisation that unconfirms anything counts "
        "as unfair mining for the must-win rule); preimages arrive before the close in those schedules",
    ])
