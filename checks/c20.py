"""C20 -- the chain-sync client keeps listeners on one consistent chain at the best tip.

1. TLC model-checks the design model spec/SpvClient.tla (all trees of NB blocks, all tip moves,
   every single-request fault position; in the *lie* instance every lying get_header answer --
   overstated / understated chainwork, height off by one on a correct header -- that the client
   has to compare with a fetched header) : it refines SpvAbstract (deadlock-free = every guard of
   the observable spec is met) and keeps TipAgreement.
2. TLC's reachable quiescent states are printed as driver scripts; the Rust engine `spv` executes
   them (plus seeded random scripts on larger trees with multi-faults) on the real SpvClient /
   synchronize_listeners and records the observable events.
3. TLC validates the recorded trace against spec/SpvAbstract.tla (SpvTrace.tla).
"""
import json, os, random, time
import vlib

PID = "C20"


def convert(script):
    ops = script["ops"]
    init = ops[0]
    rest = []
    for o in ops[1:]:
        o = dict(o)
        if o["op"] in ("poll", "sync"):
            o["fh"] = [o["fh"]] if o["fh"] >= 0 else []
            o["fb"] = [o["fb"]] if o["fb"] >= 0 else []
            lie = o.pop("lie", None)
            if lie and lie["b"] >= 0 and o["op"] == "poll":
                o["lb"], o["lk"], o["ld"] = lie["b"], lie["k"], lie["d"]
        rest.append(o)
    return {"parent": script["parent"], "work": script["work"], "src": init["src"],
            "ltips": init["ltips"], "sync": bool(rest and rest[0]["op"] == "sync"), "ops": rest}


def selftest(wd, good_lines):
    """Binding self-test: three corruptions of an accepted trace must each be rejected."""
    recs = [json.loads(x) for x in good_lines]
    muts = []
    # (a) a connected block renamed to a block that is not in the tree
    for k, r in enumerate(recs):
        if r["ev"] == "conn" and r["b"] > 0:
            m = [dict(x) for x in recs]
            m[k]["b"] = 99
            muts.append(("conn-renamed", m))
            break
    # (b) a disconnect dropped (one that is followed by a connect on the same listener in the same run)
    for k, r in enumerate(recs):
        if r["ev"] == "disc" and any(x["ev"] == "conn" and x["run"] == r["run"] and x["i"] == r["i"] for x in recs[k + 1:k + 40]):
            muts.append(("disc-dropped", recs[:k] + recs[k + 1:]))
            break
    # (c) an honest 'better' poll reported as 'common'
    for k, r in enumerate(recs):
        if r["ev"] == "poll_end" and r["res"] == "better" and r["flag"]:
            m = [dict(x) for x in recs]
            m[k]["res"] = "common"
            m[k]["flag"] = False
            muts.append(("result-flipped", m))
            break
    # (d) wrong height on a connect
    for k, r in enumerate(recs):
        if r["ev"] == "conn":
            m = [dict(x) for x in recs]
            m[k]["h"] = r["h"] + 1
            muts.append(("height-off-by-one", m))
            break
    # (e) a reorganising poll whose tree is re-weighted so that the branch the listeners left has at
    #     least the work of the branch they were moved to (binds the recorded block work to TowardsMoreWork)
    for k, r in enumerate(recs):
        if r["ev"] != "reset" or len(r["ltips"]) != 1 or k + 1 >= len(recs) or recs[k + 1]["ev"] != "poll_begin":
            continue
        par, old, src = r["parent"], r["ltips"][0], r["src"]
        first_poll = []
        for x in recs[k + 2:]:
            if x["run"] != r["run"] or x["ev"] == "poll_end":
                break
            first_poll.append(x)
        disc = [x for x in first_poll if x["ev"] == "disc"]
        if not disc or disc[0]["to"] < 0:
            continue
        f = disc[0]["to"]

        def path(b):
            out = []
            while b != f and b != 0:
                out.append(b)
                b = par[b - 1]
            return out if b == f else None
        po, pn = path(old), path(src)
        if not po or not pn or 2 * len(po) < len(pn):
            continue
        m = [dict(x) for x in recs]
        w = list(r["work"])
        for b in po:
            w[b - 1] = 2
        for b in pn:
            w[b - 1] = 1
        m[k]["work"] = w
        muts.append(("reorg-to-less-work", m))
        break
    rejected = 0
    for name, m in muts:
        p = os.path.join(wd, "selftest-%s.ndjson" % name)
        with open(p, "w") as f:
            for r in m:
                f.write(json.dumps(r) + "\n")
        _, fails = vlib.validate_trace(PID, "SpvTrace", "SpvTrace.cfg", p, max_failures=1, tag="st")
        if fails:
            rejected += 1
    if rejected != len(muts) or not muts:
        raise vlib.ToolError("binding self-test: %d of %d corrupted traces rejected" % (rejected, len(muts)))
    return {"mutations": len(muts), "rejected": rejected}


def run(tier, seed):
    t0 = time.time()
    wd = vlib.workdir(PID)
    bins = vlib.build(["spv"])
    thorough = tier == "thorough"

    # ---- 1. design check + behaviour generation
    mcs = []
    # the *lie* instance: the source's deviations are correct headers carrying a wrong accumulated
    # chainwork / height, restricted to answers the client has to compare with a fetched header
    cfgs = [("SpvClientMC.cfg", {}), ("SpvClientMCsync.cfg", {}), ("SpvClientMClie.cfg", {})]
    if thorough:
        cfgs = [("SpvClientMC5.cfg", {}), ("SpvClientMCsync4.cfg", {}), ("SpvClientMClie4.cfg", {})]
    scripts = []
    lie_scripts = []
    for cfg, env in cfgs:
        r = vlib.tlc_mc(PID, "SpvClientMC", cfg, workers=12, timeout=3000 if thorough else 600)
        if r["violated"]:
            # a design-level counterexample is not yet a violation of the code (DESIGN 8): tool error
            raise vlib.ToolError("design model violates %s in %s (spec needs correction)" % (r["violated"], cfg))
        vlib.require_coverage(r, ["MSetTip", "MNotify", "MPollEnd"] + (["MSync", "MSyncEnd"] if "sync" in cfg else [])
                              + (["MPollLie"] if "MClie" in cfg else []), cfg)
        got = vlib.tlc_printed(r["out"], "SCRIPT")
        if "MClie" in cfg:
            # histories without a lying answer are those of SpvClientMC.cfg minus the failures
            got = [s for s in got if any(o.get("lie", {}).get("b", -1) >= 0 for o in s["ops"][1:])]
            if not got:
                raise vlib.ToolError("no script with a lying answer was generated by %s" % cfg)
        vlib.log("[mc] %s: %d distinct states, %d generated, depth %d, %d scripts, %.0fs" %
                 (cfg, r["distinct"], r["states"], r["depth"], len(got), r["wall_s"]))
        if "MClie" in cfg:
            lie_scripts += got
        else:
            scripts += got
        r.pop("out")
        mcs.append((cfg, r))
    rng = random.Random(seed)
    cap = 60000 if thorough else 15000
    if len(scripts) > cap:
        scripts = rng.sample(scripts, cap)
    lcap = 40000 if thorough else 8000
    if len(lie_scripts) > lcap:
        lie_scripts = rng.sample(lie_scripts, lcap)
    scripts += lie_scripts
    conv = [convert(s) for s in scripts]
    spath = os.path.join(wd, "scripts.ndjson")
    with open(spath, "w") as f:
        for s in conv:
            f.write(json.dumps(s) + "\n")

    # ---- 2. run the real code
    nrand = 30000 if thorough else 4000
    tpath = os.path.join(wd, "trace.ndjson")
    p = vlib.run_bin(bins["spv"], ["--scripts", spath, "--random", nrand, "--seed", seed, "--out", tpath])
    summ = json.loads(p.stdout.strip().splitlines()[-1])
    vlib.log("[spv] %s" % summ)

    # ---- 3. trace validation (the oracle)
    total, fails = vlib.validate_trace(PID, "SpvTrace", "SpvTrace.cfg", tpath, timeout=1200)
    nviol = 0
    for fl in fails:
        runid = fl["run"]
        script = (conv[runid - 1] if runid - 1 < len(conv) else {"random_index": runid - 1 - len(conv), "seed": seed})
        key = "panic" if fl["rec"].get("ev") == "panic" else None
        if vlib.report_violation(PID, "run%d" % runid, {
                "property": PID, "kind": fl["kind"], "invariant": fl["inv"],
                "first_unmatched_event": fl["rec"], "position_in_run": fl["pos_in_run"],
                "script": script, "trace_of_run": fl["run_events"], "last_state": fl["last_state"],
                "how_to_replay": "harness/target/debug/spv --scripts <file with `script`> --out t.ndjson; "
                                 "TRACE=t.ndjson tlc -config SpvTrace.cfg SpvTrace.tla"}, key=key):
            nviol += 1

    # vacuity guard (only when nothing was found: a change to the code under test must never turn a verdict into a tool error)
    if nviol == 0 and summ["runs_with_notifications"] * 5 < summ["runs"]:
        raise vlib.ToolError("most runs never moved a listener: driver is not exercising the client")

    # ---- 4. binding self-test on the head of the accepted trace
    st = None
    if not fails:
        with open(tpath) as f:
            head = []
            for ln in f:
                head.append(ln)
                if len(head) >= 4000:
                    break
        # cut at a run boundary
        last_run = json.loads(head[-1])["run"]
        head = [x for x in head if json.loads(x)["run"] != last_run]
        st = selftest(wd, head)
        vlib.log("[selftest] %s" % st)

    samples = [conv[0], conv[len(conv) // 2]] if conv else []
    with open(tpath) as f:
        samples.append({"trace_head": [json.loads(next(f)) for _ in range(12)]})
    cov = {
        "states": sum(r["distinct"] for _, r in mcs),
        "transitions": sum(r["states"] for _, r in mcs),
        "traces_validated_against_impl": summ["runs"],
        "samples": samples,
        "mc_runs": [{"cfg": c, "distinct": r["distinct"], "generated": r["states"], "depth": r["depth"],
                     "action_coverage": r["coverage"], "wall_s": round(r["wall_s"], 1)} for c, r in mcs],
        "scripts_from_tlc": len(conv), "scripts_with_lying_answer": len(lie_scripts),
        "lying_answers_served": summ.get("lies_served"), "random_scripts": nrand, "events_validated": total,
        "polls_and_syncs": summ["ops"], "runs_with_notifications": summ["runs_with_notifications"],
        "impl_panics": summ["panics"], "binding_selftest": st,
        "exhaustive": False,
    }
    vlib.write_evidence(PID, tier, seed, "model_checking", cov, [
        "a wrong height/chainwork attached to a correct header is injected only where the client has to compare it "
        "with a header it fetches (tip with uncached parent, or a fetched parent); with a cached parent, or when "
        "nothing is walked, the source is trusted for that metadata; no such lies during start-up sync",
        "HEADER_CACHE_LIMIT (1008) eviction is not exercised: trees have at most 9 blocks",
        "futures complete immediately (no concurrent tip change inside one poll)",
    ], time.time() - t0, nviol)
    return nviol
