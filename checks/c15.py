"""C15 -- the encrypted transport delivers the exact message sequence or disconnects.

1. TLC model-checks the design model spec/Transport.tla (sender buffer / partial socket accepts,
   byte-granular reader state machine, nonce counters with key rotation, Init gating, tampering of
   every frame class, garbage instead of act one): it refines TransportAbstract (its actions conjoin
   the abstract ones) and keeps ExactDelivery / TamperDisconnects / InitFirst / KeysMatch.
2. Every reachable quiescent state of the bounded instances is printed as a driver script; the Rust
   engine `transport` executes them (several size assignments each) plus seeded random scripts and
   long key-rotation scripts on two real PeerManagers (or a PeerManager and a raw BOLT-8 peer built
   on PeerChannelEncryptor) joined by the harness socket pair, and records the observable events.
   InitFirst is enumerated by TLC over EVERY message class (one well-formed message per wire message
   type, spec/TransportMCfirst*.cfg): each is sent by the raw peer as its first message before Init
   (alone, followed by Init, and in runs of three incl. start_batch + commitment_signed batches) and
   after Init; the PeerManager's channel / routing / onion / custom message handlers are recorders
   and every callback is an event of the trace ("delivered" / "callback").
3. TLC validates the recorded trace against spec/TransportAbstract.tla (TransportTrace.tla).
"""
import json, os, random, re, time
import vlib

PID = "C15"

# (cfg, driver operations that must occur as the last operation of some emitted script)
MC_CFGS_QUICK = [
    ("TransportMC.cfg", ["queue", "pe", "read"]),
    ("TransportMChs.cfg", ["pe", "read"]),
    ("TransportMCbp.cfg", ["queue", "pe", "read", "budget", "disc"]),
    ("TransportMCtamper.cfg", ["pe", "read", "tamper"]),
    ("TransportMCraw.cfg", ["pe", "read", "tamper", "raw_init", "raw_garbage", "queue"]),
    ("TransportMCrawinit.cfg", ["read", "raw_init", "queue"]),
    ("TransportMCraw2.cfg", ["read", "tamper", "raw_init", "queue"]),
]
# first-message enumeration over all message classes (both tiers; all of their scripts are executed)
MC_CFGS_FIRST = [
    ("TransportMCfirst.cfg", ["read", "raw_init", "queue"]),
    ("TransportMCfirst2.cfg", ["read", "raw_init", "queue"]),
    ("TransportMCfirstb.cfg", ["read", "raw_init", "queue"]),
    ("TransportMCfirstb2.cfg", ["read", "raw_init", "queue"]),
]
MC_CFGS_THOROUGH = [
    ("TransportMCbig.cfg", ["queue", "pe", "read", "disc"]),
    ("TransportMCbpbig.cfg", ["queue", "pe", "read", "budget"]),
    ("TransportMCtamperbig.cfg", ["pe", "read", "tamper"]),
    ("TransportMCrawbig.cfg", ["pe", "read", "tamper", "raw_init", "raw_garbage", "queue"]),
    ("TransportMCrawinit.cfg", ["read", "raw_init", "queue"]),
    ("TransportMCraw2big.cfg", ["read", "tamper", "raw_init", "queue"]),
]


def last_op_counts(scripts):
    """Vacuity guard: which driver operation (= model action) produced each emitted state."""
    c = {}
    for s in scripts:
        ops = s["ops"]
        last = ops[-2] if len(ops) > 1 and ops[-1]["op"] == "drain" else ops[-1]
        c[last["op"]] = c.get(last["op"], 0) + 1
    return c


SIZE_CLASSES = [2, 3, 4, 17, 18, 19, 34, 60, 255, 256, 1000, 2047, 2048, 4096, 8192, 8193, 20000, 65533, 65534, 65535]


def cfg_classes(cfg):
    with open(os.path.join(vlib.SPEC, cfg)) as f:
        m = re.search(r'Classes\s*=\s*\{([^}]*)\}', f.read())
    return set(re.findall(r'"(\w+)"', m.group(1))) if m else set()


def model_nodeliver():
    with open(os.path.join(vlib.SPEC, "Transport.tla")) as f:
        m = re.search(r'NoDeliver\s*==\s*\{([^}]*)\}', f.read())
    return set(re.findall(r'"(\w+)"', m.group(1)))


def first_message_positions(scripts, raw_side_of):
    """(classes sent by the raw peer as its first message before its Init, classes sent after its Init)"""
    pre, post = set(), set()
    for s in scripts:
        rs = raw_side_of.get(s["mode"])
        seen_init, seen_msg = False, False
        for o in s["ops"]:
            if o["op"] == "raw_init":
                seen_init = True
            elif o["op"] == "queue" and o.get("d") == rs:
                if seen_init:
                    post.add(o["kind"])
                elif not seen_msg:
                    pre.add(o["kind"])
                seen_msg = True
    return pre, post


def callback_of(cls):
    return "custom" if cls == "custom" else "handle_" + cls


def convert(script, rng, variant):
    """TLC script (abstract positions) -> engine script. Message sizes are not part of the model
    state: each variant gets its own seeded assignment (variant 0: all minimal)."""
    ops = []
    for o in script["ops"]:
        o = dict(o)
        if o["op"] == "queue":
            if variant > 0 and o.get("kind", "custom") == "custom" and rng.random() < 0.1:
                o["kind"] = "chan"
            # (the size of a message of a standard type is fixed by its class; the engine ignores it)
            o["size"] = (2 if variant == 0 else rng.choice(SIZE_CLASSES)) if o.get("kind", "custom") == "custom" else 67
        if o["op"] == "raw_garbage":
            o["n"] = 50 if variant == 0 else rng.choice([1, 49, 50, 51, 66, 116, 200])
            o["flavour"] = rng.randrange(3)
        ops.append(o)
    return {"mode": script["mode"], "ops": ops}


def clause_of(wd, tag):
    """The clause TLC printed when it refused the offending step (TransportTrace!Report)."""
    try:
        with open(os.path.join(wd, "tlc-trace-%s.out" % tag)) as f:
            m = re.findall(r'<<"CLAUSE", "(\w+)", \d+>>', f.read())
        return m[-1] if m else "no action of the specification matches this event"
    except OSError:
        return None


def validate_chunked(wd, tpath, chunk_events):
    """The runs of a trace are independent: validate the file in chunks of whole runs (TLC holds the
    deserialized trace in memory)."""
    total, fails = 0, []
    chunk, n, idx, last_run = [], 0, 0, None

    def flush():
        nonlocal chunk, n, idx, total, fails
        if not chunk:
            return
        idx += 1
        cp = tpath + ".chunk%d" % idx
        with open(cp, "w") as f:
            f.writelines(chunk)
        t, fl = vlib.validate_trace(PID, "TransportTrace", "TransportTrace.cfg", cp, timeout=3000, tag="c%d_" % idx)
        for i, x in enumerate(fl):
            x["inv"] = clause_of(wd, "c%d_%d" % (idx, i + 1))
        total += t
        fails += fl
        os.remove(cp)
        chunk, n = [], 0

    with open(tpath) as f:
        for ln in f:
            j = ln.find('"run":') + 6
            k = j
            while ln[k].isdigit():
                k += 1
            run = ln[j:k]
            if run != last_run and n >= chunk_events:
                flush()
            last_run = run
            chunk.append(ln)
            n += 1
    flush()
    return total, fails


def selftest(wd, good_lines):
    """Binding self-test: corruptions of an accepted trace must each be rejected."""
    recs = [json.loads(x) for x in good_lines]
    muts = []

    def first(pred, start=0):
        for k in range(start, len(recs)):
            if pred(recs[k]):
                return k
        return None

    def clone():
        return [dict(x) for x in recs]

    # (a) a delivered message dropped (the next delivery is then out of order, or the run ends short)
    k = first(lambda r: r["ev"] == "delivered")
    if k is not None:
        muts.append(("delivery-dropped", recs[:k] + recs[k + 1:]))
    # (b) a delivery reported twice
    if k is not None:
        muts.append(("delivery-duplicated", recs[:k + 1] + [dict(recs[k])] + recs[k + 1:]))
    # (c) content of a delivered message not intact
    if k is not None:
        m = clone(); m[k]["ok"] = False
        muts.append(("content-corrupt", m))
    # (d) size of a delivered message differs from what was queued
    if k is not None:
        m = clone(); m[k]["size"] = m[k]["size"] + 1
        muts.append(("size-changed", m))
    # (e) a delivery moved before the peer_connected of its side
    for k2, r in enumerate(recs):
        if r["ev"] == "delivered":
            run, s = r["run"], r["s"]
            pc = first(lambda x: x["run"] == run and x["ev"] == "peer_connected" and x["s"] == s)
            if pc is not None and pc < k2:
                m = recs[:pc] + [dict(r)] + recs[pc:k2] + recs[k2 + 1:]
                muts.append(("delivered-before-init", m))
                break
    # (f) the Err of a read_event after a tamper reported as Ok (and following events of that side kept)
    for k2, r in enumerate(recs):
        if r["ev"] == "tamper" and r["kind"] == "flip":
            run = r["run"]
            e = first(lambda x: x["run"] == run and x["ev"] == "read_end" and not x["ok"], k2)
            if e is not None:
                m = clone(); m[e]["ok"] = True
                muts.append(("tamper-not-noticed", m))
                break
    # (g) a delivery appended after a tamper's disconnect: the next queued message of the tampered
    #     stream reported as delivered
    for k2, r in enumerate(recs):
        if r["ev"] == "tamper" and r["kind"] == "flip":
            run, d = r["run"], r["d"]
            e = first(lambda x: x["run"] == run and x["ev"] == "read_end" and not x["ok"] and x["s"] == 3 - d, k2)
            if e is None:
                continue
            qd = [x for x in recs[:e] if x["run"] == run and ((x["ev"] == "queue" and x["d"] == d) or
                                                               (x["ev"] == "raw_send" and x["s"] == d and x["kind"] in ("msg", "chan")))]
            dl = [x for x in recs[:e] if x["run"] == run and x["ev"] == "delivered" and x["s"] == 3 - d]
            if len(qd) > len(dl):
                nxt = qd[len(dl)]
                ins = {"ev": "delivered", "run": run, "s": 3 - d, "id": nxt["id"], "size": nxt["size"], "ok": True,
                       "what": "selftest"}
                muts.append(("delivered-after-tamper", recs[:e] + [ins] + recs[e:]))
                break
    # (h) a quiesce of a clean run with one message never delivered
    for k2, r in enumerate(recs):
        if r["ev"] == "quiesce":
            run = r["run"]
            runrecs = [x for x in recs if x["run"] == run]
            if any(x["ev"] in ("tamper", "socket_disconnected") for x in runrecs):
                continue
            if any(x["ev"] == "raw_send" and x["kind"] == "garbage" for x in runrecs):
                continue
            dl = [i for i, x in enumerate(recs) if x["run"] == run and x["ev"] == "delivered"]
            if dl:
                muts.append(("last-message-lost", recs[:dl[-1]] + recs[dl[-1] + 1:]))
                break
    # (j) a handler callback for a message of the peer before the Init of that connection was received
    k = first(lambda r: r["ev"] == "peer_connected")
    if k is not None:
        ins = {"ev": "callback", "run": recs[k]["run"], "s": recs[k]["s"], "role": "chan", "name": "selftest"}
        muts.append(("callback-before-init", recs[:k] + [ins] + recs[k:]))
    # (k) a message of a standard type that the raw peer sent before its Init reported as handed to a handler
    for k2, r in enumerate(recs):
        if r["ev"] == "raw_send" and r["kind"] in ("chan", "msg"):
            run, d = r["run"], r["s"]
            if any(x["run"] == run and x["ev"] == "raw_send" and x["kind"] == "init" for x in recs[:k2]):
                continue
            e = first(lambda x: x["run"] == run and x["ev"] == "read_begin" and x["s"] == 3 - d, k2)
            if e is None:
                continue
            ins = {"ev": "delivered", "run": run, "s": 3 - d, "id": r["id"], "size": r["size"], "ok": True,
                   "what": "selftest"}
            muts.append(("first-message-handled-before-init", recs[:e + 1] + [ins] + recs[e + 1:]))
            break
    # (i) a panic
    k = first(lambda r: r["ev"] == "read_end")
    if k is not None:
        muts.append(("panic", recs[:k] + [{"ev": "panic", "run": recs[k]["run"]}]))
    rejected = 0
    names = []
    for name, m in muts:
        p = os.path.join(wd, "selftest-%s.ndjson" % name)
        with open(p, "w") as f:
            for r in m:
                f.write(json.dumps(r) + "\n")
        _, fails = vlib.validate_trace(PID, "TransportTrace", "TransportTrace.cfg", p, max_failures=1, tag="st")
        if fails:
            rejected += 1
        else:
            names.append(name)
    if "callback-before-init" not in [n for n, _ in muts]:
        raise vlib.ToolError("binding self-test: no run to insert a callback before Init into")
    if rejected != len(muts) or len(muts) < 7:
        raise vlib.ToolError("binding self-test: %d of %d corrupted traces rejected (accepted: %s)" %
                             (rejected, len(muts), names))
    return {"mutations": len(muts), "rejected": rejected, "kinds": [n for n, _ in muts]}


def run(tier, seed):
    t0 = time.time()
    wd = vlib.workdir(PID)
    bins = vlib.build(["transport"])
    thorough = tier == "thorough"
    rng = random.Random(seed)

    # ---- 1. design check + behaviour generation
    mcs = []
    scripts = []
    first_scripts = []
    # the message classes: engine table = model constant = the model's split into deliverable / not
    pl = vlib.run_bin(bins["transport"], ["--list-classes"], timeout=60)
    table = json.loads(pl.stdout.strip().splitlines()[-1])
    all_classes = set(table["deliverable"]) | set(table["nodeliver"])
    if cfg_classes("TransportMCfirst.cfg") != all_classes or cfg_classes("TransportMCfirst2.cfg") != all_classes \
            or model_nodeliver() != set(table["nodeliver"]) or len(all_classes) < 50:
        raise vlib.ToolError("message classes of the engine and of spec/TransportMCfirst*.cfg / Transport.tla differ")
    for cfg, need in (MC_CFGS_THOROUGH if thorough else MC_CFGS_QUICK) + MC_CFGS_FIRST:
        # (-coverage slows this model down 3x; the action coverage is measured on the emitted scripts)
        r = vlib.tlc_mc(PID, "TransportMC", cfg, workers=12, timeout=3000 if thorough else 600, coverage=False)
        if r["violated"]:
            raise vlib.ToolError("design model violates %s in %s (spec needs correction)" % (r["violated"], cfg))
        got = vlib.tlc_printed(r["out"], "SCRIPT")
        cnt = last_op_counts(got) if got else {}
        missing = [a for a in need if cnt.get(a, 0) == 0]
        if missing or not any(s["ops"][-1]["op"] == "drain" and len(s["ops"]) > 1 for s in got):
            raise vlib.ToolError("vacuity: model actions never taken in %s: %s" % (cfg, missing))
        vlib.log("[mc] %s: %d distinct states, %d generated, depth %d, %d scripts, %.0fs %s" %
                 (cfg, r["distinct"], r["states"], r["depth"], len(got), r["wall_s"], cnt))
        r["coverage"] = cnt
        if (cfg, need) in MC_CFGS_FIRST:
            first_scripts += got
        else:
            scripts += got
        r.pop("out")
        mcs.append((cfg, r))
    cap = 25000 if thorough else 4000
    if len(scripts) > cap:
        scripts = rng.sample(scripts, cap)
    # vacuity of the first-message enumeration (a fact about the TLC output, not about the code under test)
    pre, post = first_message_positions(first_scripts, {"raw1": 1, "raw2": 2})
    if pre != all_classes or post != set(table["deliverable"]):
        raise vlib.ToolError("first-message enumeration incomplete: never first before Init: %s; never after Init: %s" %
                             (sorted(all_classes - pre), sorted(set(table["deliverable"]) - post)))
    nvar = 3 if thorough else 2
    conv = []
    for v in range(nvar):
        for s in scripts:
            conv.append(convert(s, rng, v))
    for s in first_scripts:
        conv.append(convert(s, rng, 0))
    spath = os.path.join(wd, "scripts.ndjson")
    with open(spath, "w") as f:
        for s in conv:
            f.write(json.dumps(s) + "\n")

    # ---- 2. run the real code
    nrand = 25000 if thorough else 4000
    rots = ["--rot", "24:3300", "--rot", "8:6200"] if thorough else ["--rot", "6:640", "--rot", "4:1100"]
    tpath = os.path.join(wd, "trace.ndjson")
    rpath = os.path.join(wd, "random-scripts.ndjson")
    p = vlib.run_bin(bins["transport"], ["--scripts", spath, "--random", nrand] + rots +
                     ["--seed", seed, "--out", tpath], env={"TRANSPORT_DUMP_SCRIPTS": rpath}, timeout=3000)
    summ = json.loads(p.stdout.strip().splitlines()[-1])
    vlib.log("[transport] %s" % summ)
    # vacuity guards (judged after the trace validation: a badly broken transport delivers nothing,
    # which must surface as a violation, not as a tool error)
    vacuity = []
    if summ["runs_with_delivery"] * 3 < summ["runs"]:
        vacuity.append("most runs never delivered a message: driver is not exercising the transport")
    if summ["max_delivered_one_run"] < 1001:
        vacuity.append("no run went past two key rotations")
    if summ["tampers"] * 20 < summ["runs"] or summ["partial_writes"] * 20 < summ["runs"]:
        vacuity.append("too few tamper / back-pressure operations took effect")
    if summ["class_table_errors"]:
        vacuity.append("message class table: %s" % summ["class_table_errors"][:3])
    miss = sorted(all_classes - set(summ["first_message_classes_read"]))
    if miss:
        vacuity.append("classes never read by a PeerManager as first message before Init: %s" % miss)
    miss = sorted(c for c in table["deliverable"] if callback_of(c) not in summ["delivered_callbacks"])
    if miss:
        vacuity.append("recording handlers never saw (after Init): %s" % miss)

    # ---- 3. trace validation (the oracle)
    total, fails = validate_chunked(wd, tpath, 900000)
    nviol = 0
    rand_scripts = None
    for fl in fails:
        runid = fl["run"]
        if runid - 1 < len(conv):
            script = conv[runid - 1]
        else:
            if rand_scripts is None:
                with open(rpath) as f:
                    rand_scripts = [json.loads(x) for x in f if x.strip()]
            script = rand_scripts[runid - 1 - len(conv)]
            script["generated_with_seed"] = seed
        evs = fl["run_events"]
        pos = fl["pos_in_run"]
        key = "panic" if fl["rec"].get("ev") == "panic" else None
        if vlib.report_violation(PID, "run%d" % runid, {
                "property": PID, "kind": fl["kind"], "violated_clause": fl["inv"],
                "first_offending_event": fl["rec"], "position_in_run": pos,
                "script": script if len(json.dumps(script)) < 400000 else {"note": "script too long to inline",
                                                                          "seed": seed, "run": runid},
                "trace_of_run_up_to_offence": evs[max(0, pos - 400):pos],
                "last_state": fl["last_state"],
                "how_to_replay": "harness/target/debug/transport --scripts <file with `script` on one line> "
                                 "--seed %d --out t.ndjson; cd spec; TRACE=$PWD/../t.ndjson java -cp "
                                 "<tla2tools.jar:CommunityModules-deps.jar> tlc2.TLC -config TransportTrace.cfg "
                                 "TransportTrace.tla" % seed}, key=key):
            nviol += 1

    if nviol == 0 and vacuity:
        raise vlib.ToolError("vacuity: " + "; ".join(vacuity))

    # ---- 4. binding self-test on the head of the accepted trace
    st = None
    if not fails:
        head = []
        with open(tpath) as f:
            # the random part of the trace has tamper runs; take runs from there
            want_from = len(conv) + 1
            for ln in f:
                r = json.loads(ln)
                if r["run"] < want_from:
                    continue
                head.append(ln)
                if len(head) >= 6000:
                    break
        last_run = json.loads(head[-1])["run"]
        head = [x for x in head if json.loads(x)["run"] != last_run]
        st = selftest(wd, head)
        vlib.log("[selftest] %s" % st)

    samples = [conv[0], conv[len(conv) // 2]] if conv else []
    with open(tpath) as f:
        samples.append({"trace_head": [json.loads(next(f)) for _ in range(14)]})
    cov = {
        "states": sum(r["distinct"] for _, r in mcs),
        "transitions": sum(r["states"] for _, r in mcs),
        "traces_validated_against_impl": summ["runs"],
        "samples": samples,
        "mc_runs": [{"cfg": c, "distinct": r["distinct"], "generated": r["states"], "depth": r["depth"],
                     "action_coverage": r["coverage"], "wall_s": round(r["wall_s"], 1)} for c, r in mcs],
        "scripts_from_tlc": len(scripts), "size_variants_per_script": nvar, "random_scripts": nrand,
        "first_message_scripts_from_tlc": len(first_scripts), "message_classes": sorted(all_classes),
        "message_classes_read_as_first_message_before_init": len(summ["first_message_classes_read"]),
        "handler_callbacks_observed_after_init": len(summ["delivered_callbacks"]),
        "other_handler_callbacks": summ["other_callbacks"],
        "rotation_scripts": rots, "events_validated": total,
        "messages_queued": summ["queued"], "messages_delivered": summ["delivered"],
        "read_events": summ["reads"], "tamper_ops_applied": summ["tampers"],
        "partial_write_resumes": summ["partial_writes"], "max_messages_delivered_in_one_run": summ["max_delivered_one_run"],
        "impl_panics": summ["panics"], "binding_selftest": st,
        "exhaustive": False,
    }
    vlib.write_evidence(PID, tier, seed, "model_checking", cov, [
        "the position of a frame inside a PeerManager-written stream is only bounded from below (pings may be "
        "interleaved); exact per-frame tamper timing is judged on streams written by the raw BOLT-8 peer",
        "the raw peer uses the library's own PeerChannelEncryptor: a cipher error that is symmetric in "
        "encrypt and decrypt is not observable (the BOLT-8 vectors in the unit tests cover that)",
        "single-threaded driver: no concurrent read_event / process_events on one PeerManager",
        "a peer that sends messages after its own Init but before having received ours is not treated as an "
        "InitFirst violation of the receiving node (the PeerManager queues its Init when the handshake completes, "
        "before it can decrypt any message; the code has no later gate)",
        "InitFirst is judged on handler callbacks: a message before Init that is silently swallowed without a "
        "disconnect is not reported (the design model expects Err; the property text only forbids acting on it)",
        "messages without a one-to-one callback (ping, pong, warning, error, start_batch and batched "
        "commitment_signed, gossip_timestamp_filter, unknown types) are modelled as first messages only; after "
        "Init they occur in the random scripts and are judged by InitFirst / NoPanic / the disconnect rules only",
    ], time.time() - t0, nviol)
    return nviol
