"""C09 -- no state is revealed to the peer before its monitor update is durable."""
import chan_common as cc

def run(tier, seed):
    return cc.run_check("C09", tier, seed,
        mc_cfgs=(["ChanMC_c05.cfg"], ["ChanMC_c05.cfg", "ChanMC_c05t.cfg"]),
        profiles=[("async", 2, 150), ("asyncreest", 2, 250), ("deferred", 2, 80), ("asyncopen", 2, 60), ("asyncopen", 3, 50), ("async", 3, 60)],
        thorough_profiles=[("async", 2, 4000), ("asyncreest", 2, 5000), ("deferred", 2, 2000), ("deferred", 3, 800), ("asyncopen", 2, 1500), ("asyncopen", 3, 1000), ("async", 3, 1500)],
        families=[("blockedjump", 250), ("opendisc", 250), ("asynccross", 200)],
        thorough_families=[("blockedjump", 5000), ("opendisc", 5000), ("asynccross", 4000)],
        assumptions=cc.COMMON_ASSUMPTIONS + [
            "immediate and deferred (queue + flush) ChainMonitor modes; Persist returns InProgress/Completed as the script says; completion is reported through "
            "ChainMonitor::channel_monitor_updated in any order"])
