"""C09 -- no state is revealed to the peer before its monitor update is durable."""
import chan_common as cc

def run(tier, seed):
    return cc.run_check("C09", tier, seed,
        mc_cfgs=(["ChanMC_c05.cfg", "BatchOpen:BatchOpen2.cfg", "BatchOpen:BatchOpen.cfg", "DisComplete:DisComplete.cfg"], ["ChanMC_c05.cfg", "ChanMC_c05t.cfg", "BatchOpen:BatchOpen2.cfg", "BatchOpen:BatchOpen.cfg", "DisComplete:DisComplete.cfg"]),
        mutant_cfgs=("BatchOpen:BatchOpenMutant.cfg", "DisComplete:DisCompleteMutant.cfg"),
        mc_actions_by_module={"BatchOpen": ("FundingSigned", "Complete"), "DisComplete": ("RecvRevocation", "Disconnect", "Reconnect", "Complete")},
        profiles=[("async", 2, 150), ("asyncreest", 2, 250), ("deferred", 2, 80), ("asyncopen", 2, 60), ("asyncopen", 3, 50), ("async", 3, 60)],
        thorough_profiles=[("async", 2, 2000), ("asyncreest", 2, 2500), ("deferred", 2, 1000), ("deferred", 3, 400), ("asyncopen", 2, 800), ("asyncopen", 3, 500), ("async", 3, 700)],
        families=[("blockedjump", 250), ("opendisc", 250), ("asynccross", 200), ("discomplete", 200), ("batchopen", 200), ("openshut", 150), ("pausetwice", 200)],
        thorough_families=[("blockedjump", 2500), ("opendisc", 2500), ("asynccross", 2000), ("discomplete", 1500), ("batchopen", 1500), ("openshut", 1500), ("pausetwice", 2000)],
        assumptions=cc.COMMON_ASSUMPTIONS + [
            "immediate and deferred (queue + flush) ChainMonitor modes; Persist returns InProgress/Completed as the script says; completion is reported through "
            "ChainMonitor::channel_monitor_updated in any order"])
