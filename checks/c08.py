"""C08 -- HTLC deadlines: the node acts before money can be lost to a timeout.

1. The harness binary `consts` prints the code's timing constants; the model spec/Deadlines.tla is
   instantiated FROM THEM at every run (generated .cfg files).
2. TLC model-checks the design model spec/DeadlinesMC.tla (node B acting by the rules transcribed
   from the code, adversarial peers / miner within the library's stated bounds) over every expiry
   offset in a window around each boundary and every delta in [MIN, MIN+3]: the invariants of
   Deadlines.tla are the property.  A changed constant that loses a race violates them IN THE MODEL;
   that alone is not a verdict -- the counterexample is replayed on real nodes (step 3/4).
3. TLC prints one driver script per finished scenario; the engine `deadlines` sets up exactly those
   offsets on real ChannelManagers/ChannelMonitors and records what happened and at which height.
4. TLC validates the recorded runs against spec/DeadlinesTrace.tla (the oracle).
"""
import json, os, random, shutil, subprocess, time
import vlib

PID = "C08"
NAMES = ["CCB", "LGP", "MBC", "ARD", "HFB", "MIND", "MINF", "FAR"]
INVS = ("TypeOK NeverShowOrForwardTooSoon ClaimableBelowDeadline OnChainInTimeOutbound "
        "OnChainInTimeInbound WinInboundRace BoundedLoss FailBackAfterBurial")
H0 = 100


def read_consts(bin_path):
    p = vlib.run_bin(bin_path, [])
    c = json.loads(p.stdout.strip().splitlines()[-1])
    return {"CCB": c["CLTV_CLAIM_BUFFER"], "LGP": c["LATENCY_GRACE_PERIOD_BLOCKS"], "MBC": c["MAX_BLOCKS_FOR_CONF"],
            "ARD": c["ANTI_REORG_DELAY"], "HFB": c["HTLC_FAIL_BACK_BUFFER"], "MIND": c["MIN_CLTV_EXPIRY_DELTA"],
            "MINF": c["MIN_FINAL_CLTV_EXPIRY_DELTA"], "FAR": c["CLTV_FAR_FAR_AWAY"]}


def tla_set(xs):
    return "{" + ",".join(str(x) for x in sorted(set(xs))) + "}"


def write_cfgs(k, thorough):
    """Generated instantiations of the model from the code's constants."""
    consts = "".join("  %s = %d\n" % (n, k[n]) for n in NAMES)
    w = 10 if thorough else 2
    off_final = [o for o in range(k["HFB"] + 1 - w, k["HFB"] + 1 + w + 2) if o >= 1]
    off_a = [o for o in range(k["LGP"] + 1 - w, k["LGP"] + 1 + w + 2) if o >= 1]
    # C (an LDK node) holds an HTLC only if it expires later than HFB + 1 blocks from now
    off_b = list(range(k["HFB"] + 2, k["HFB"] + (8 if thorough else 4)))
    deltas = list(range(k["MIND"], k["MIND"] + 4))
    slack1 = list(range(0, 5 if thorough else 3))
    far = list(range(0, 3))
    mc = ("SPECIFICATION Spec\nCONSTANTS\n" + consts +
          "  H0 = %d\n  OffFinal = %s\n  OffFwdA = %s\n  OffFwdB = %s\n  Deltas = %s\n  Slack1 = %s\n  FarProbe = %s\n" %
          (H0, tla_set(off_final), tla_set(off_a), tla_set(off_b), tla_set(deltas), tla_set(slack1), tla_set(far)) +
          "INVARIANTS " + INVS + " EmitScripts\nCONSTRAINT Horizon\nCHECK_DEADLOCK FALSE\n")
    tr = ("SPECIFICATION TraceSpec\nCONSTANTS\n" + consts + "INVARIANTS " + INVS +
          "\nPOSTCONDITION TraceAccepted\nCHECK_DEADLOCK FALSE\n")
    with open(os.path.join(vlib.SPEC, "DeadlinesMC_gen.cfg"), "w") as f:
        f.write(mc)
    with open(os.path.join(vlib.SPEC, "DeadlinesTrace_gen.cfg"), "w") as f:
        f.write(tr)
    return {"OffFinal": off_final, "OffFwdA": off_a, "OffFwdB": off_b, "Deltas": deltas,
            "Slack": [s - 1 for s in slack1], "FarProbe": far}


def to_engine(s, k):
    """A finished scenario of the model (state variables) -> a script of the engine."""
    mbc = k["MBC"]

    def delay(v, dflt):
        return v if 1 <= v <= mbc else dflt
    if s["role"] == "final":
        on_chain = s["cuconf"] >= 0
        claim = (s["x"] - s["dl"]) if (s["x"] >= 0 and s["dl"] > 0) else None
        return {"role": "final", "offu": s["offu"], "offd": 0, "d": s["d"], "up": s["up"], "dn": "honest", "x": 0,
                "claim": claim, "c1": delay(s["c1u"], mbc), "c2": delay(s["c2u"], mbc),
                "heavy": on_chain or s["up"] == "silent"}
    ed = H0 + s["offd"]
    c_holds = s["offd"] > k["HFB"] + 1
    mode, x = s["dn"], 0
    if mode == "cell":
        # the forward waited in B's holding cell until C answered at height x (or was refused at once)
        x = (s["x"] - ed) if s["x"] >= 0 else 0
        return {"role": "fwd", "offu": s["offu"], "offd": s["offd"], "d": s["d"], "up": s["up"], "dn": "cell", "x": x,
                "claim": None, "c1": 1, "c2": 1, "heavy": False}
    if mode == "offchain":
        if s["dnres"] == "fulfilled":
            mode, x = ("honest", 0) if s["x"] == H0 else ("lastmoment", s["x"] - ed)
        elif s["dnres"] == "failed":
            mode, x = ("lastfail", s["x"] - ed) if c_holds else ("honest", 0)
        elif s["dnres"] in ("gone", "pending"):
            mode = "silent"
        else:
            mode = "honest"
    if s["cuconf"] >= 0 or s["up"] == "silent":
        c1, c2 = delay(s["c1u"], mbc), delay(s["c2u"], mbc)
    else:
        c1, c2 = delay(s["c1d"], mbc), delay(s["c2d"], mbc)
    heavy = s["cdconf"] >= 0 or s["cuconf"] >= 0      # something was confirmed on chain
    if not heavy and mode in ("lastmoment", "lastfail") and s["x"] > H0:
        heavy = "blocks"                                  # C answers off chain after some blocks
    return {"role": "fwd", "offu": s["offu"], "offd": s["offd"], "d": s["d"], "up": s["up"], "dn": mode, "x": x,
            "claim": None, "c1": c1, "c2": c2, "heavy": heavy}


def cex_to_script(path, k):
    """The last state of a TLC counterexample (JSON dump) -> engine script with worst-case delays."""
    try:
        t = json.load(open(path))
        st = t["counterexample"]["action"][-1][2][1]
    except Exception:
        return None, None

    def mx(a, b):
        return a if a >= b else b
    s = {"role": st["role"], "up": st["upMode"], "dn": st["dnMode"], "offu": st["eu"] - H0, "offd": st["ed"] - H0,
         "d": st["d"], "dl": st["dl"], "x": st["xH"], "dnres": st["dn"], "upres": st["up"],
         "c1d": st["cDc"] - st["cDb"], "c2d": st["dnH"] - mx(st["toB"], st["cDc"]), "cdconf": st["cDc"],
         "c1u": st["cUc"] - st["cUb"], "c2u": st["suC"] - mx(st["suB"], st["cUc"]), "cuconf": st["cUc"]}
    if s["role"] == "fwd" and s["dn"] == "offchain" and s["dnres"] == "pending":
        s["dnres"] = "gone"
    return to_engine(s, k), st


def pick_scripts(scripts, k, rng, cap_blocks, cap_chain):
    """All scenarios decided at once; of those that need blocks a stratified sample: for the on-chain
    ones the worst case (both confirmation delays = MBC) of every class first, then the other extreme
    delays and random ones; for late off-chain answers the last moments first."""
    seen, cheap, blocks, heavy = set(), [], [], {}
    for s in scripts:
        e = to_engine(s, k)
        key = json.dumps(e, sort_keys=True)
        if key in seen:
            continue
        seen.add(key)
        if not e["heavy"]:
            cheap.append(e)
        elif e["heavy"] == "blocks":
            blocks.append(e)
        else:
            cls = (e["role"], e["up"], e["dn"], e["offu"], e["offd"], e["d"], e["x"], e["claim"])
            heavy.setdefault(cls, []).append(e)
    mbc = k["MBC"]
    # late off-chain answers: the three last heights before B's own go-on-chain point always
    last = [e for e in blocks if e["x"] >= k["LGP"] - 3]
    other = [e for e in blocks if e["x"] < k["LGP"] - 3]
    rng.shuffle(last)
    rng.shuffle(other)
    chosen_blocks = (last + other)[:cap_blocks]
    classes = sorted(heavy.keys(), key=lambda c: json.dumps(c))
    rng.shuffle(classes)
    chosen, rest = [], []
    for cls in classes:
        es = heavy[cls]
        worst = [e for e in es if e["c1"] == mbc and e["c2"] == mbc][:1]
        chosen += worst
        ext = [e for e in es if e["c1"] in (1, mbc) and e["c2"] in (1, mbc) and e not in worst]
        rest += ext + rng.sample(es, min(2, len(es)))
    chosen = chosen[:cap_chain]
    rng.shuffle(rest)
    have = {json.dumps(e, sort_keys=True) for e in chosen}
    for e in rest:
        if len(chosen) >= cap_chain:
            break
        kk = json.dumps(e, sort_keys=True)
        if kk not in have:
            have.add(kk)
            chosen.append(e)
    return cheap, chosen_blocks, chosen, len(heavy), len(blocks)


def apalache(wd, k):
    """Unbounded heights: discharge the inductive-invariant obligations of spec/DeadlinesApalache.tla
    (integers only, constants from the code) with Apalache.  Returns (obligations, failed names)."""
    out = os.path.join(wd, "apalache")
    shutil.rmtree(out, ignore_errors=True)
    os.makedirs(out, exist_ok=True)
    consts = "".join("  %s = %d\n" % (n, k[n]) for n in ["CCB", "LGP", "MBC", "ARD", "HFB", "MIND"])
    obligations = [  # name, INIT, INVARIANT, length, expected to hold
        ("base: Init => IndInv", "Init", "IndInv", 0, True),
        ("step: IndInv /\\ Next => IndInv'", "IndInit", "IndInv", 1, True),
        ("safety: IndInv => Safe", "IndInit", "Safe", 0, True),
        ("non-vacuity: a fail-back step is enabled", "IndInit", "NotFailed", 1, False),
        ("non-vacuity: a winning confirmation is enabled", "IndInit", "NotWon", 1, False),
    ]
    res, failed = [], []
    for i, (name, init, inv, length, expect) in enumerate(obligations):
        cfg = os.path.join(out, "o%d.cfg" % i)
        with open(cfg, "w") as f:
            f.write("CONSTANTS\n" + consts + "INIT %s\nNEXT Next\nINVARIANT %s\n" % (init, inv))
        t0 = time.time()
        p = subprocess.run(["timeout", "600", "apalache-mc", "check", "--config=" + cfg, "--length=%d" % length,
                            "--out-dir=" + os.path.join(out, "run%d" % i), "DeadlinesApalache.tla"],
                           cwd=vlib.SPEC, stdout=subprocess.PIPE, stderr=subprocess.STDOUT, text=True)
        with open(os.path.join(out, "o%d.out" % i), "w") as f:
            f.write(p.stdout)
        if "The outcome is: NoError" in p.stdout:
            holds = True
        elif "The outcome is: Error" in p.stdout and "invariant" in p.stdout:
            holds = False
        else:
            vlib.log(p.stdout[-2000:])
            raise vlib.ToolError("apalache failed on obligation %r" % name)
        ok = holds == expect
        res.append({"obligation": name, "holds": holds, "expected": expect, "wall_s": round(time.time() - t0, 1)})
        if not ok:
            failed.append(name)
    shutil.rmtree(os.path.join(vlib.SPEC, "_apalache-out"), ignore_errors=True)
    return res, failed


def selftest(wd, tpath, cfg):
    """Binding self-test: corrupted copies of accepted runs must each be rejected."""
    recs = [json.loads(x) for x in open(tpath) if x.strip()]
    byrun = {}
    for r in recs:
        byrun.setdefault(r["run"], []).append(r)
    muts = []

    def find(pred):
        for run, rs in byrun.items():
            if pred(rs):
                return [json.loads(json.dumps(x)) for x in rs]
        return None

    def has(rs, **kw):
        return any(all(r.get(a) == b for a, b in kw.items()) for r in rs)
    # (a) the advertised claim deadline one block later than what the node enforces
    rs = find(lambda rs: has(rs, ev="show") and has(rs, ev="resolve", dir="up", kind="fail") and not has(rs, ev="claim"))
    if rs:
        for r in rs:
            if r["ev"] == "show":
                r["deadline"] += 1
        muts.append(("deadline-off-by-one", rs))
    # (b) holder commitment of the downstream channel broadcast one block later
    rs = find(lambda rs: has(rs, ev="bcast", node=1, kind="commitment", chan="dn"))
    if rs:
        i = next(j for j, r in enumerate(rs) if r["ev"] == "bcast" and r["node"] == 1 and r["kind"] == "commitment")
        j = next(j for j in range(i, len(rs)) if rs[j]["ev"] == "block")
        hnew = rs[j]["h"]
        moved = [r for r in rs[:j] if r["ev"] in ("bcast", "closed") and r.get("h") == rs[i]["h"] and r.get("node") == 1]
        rest = [r for r in rs[:j] if r not in moved]
        for r in moved:
            r["h"] = hnew
        muts.append(("go-on-chain-one-block-late", rest + [rs[j]] + moved + rs[j + 1:]))
    # (c) upstream fail-back one block before the timeout is buried
    rs = find(lambda rs: has(rs, ev="resolve", dir="up", kind="fail", reason="OnChainTimeout"))
    if rs:
        i = next(j for j, r in enumerate(rs) if r["ev"] == "resolve" and r.get("reason") == "OnChainTimeout")
        j = max(jj for jj in range(i) if rs[jj]["ev"] == "block")
        rs[i]["h"] -= 1
        rs[j], rs[i] = rs[i], rs[j]
        muts.append(("fail-back-before-burial", rs))
    # (d) an HTLC shown as claimable although it is one block too close
    rs = find(lambda rs: has(rs, ev="show"))
    if rs:
        for r in rs:
            if r["ev"] == "offer":
                dlt = r["eu"]
        off = next(r for r in rs if r["ev"] == "offer")
        sh = next(r for r in rs if r["ev"] == "show")
        shift = (sh["deadline"] - sh["h"]) - 1
        off["eu"] -= shift
        sh["deadline"] -= shift
        cut = [r for r in rs if r["ev"] in ("case", "offer", "show")]
        muts.append(("shown-too-soon", cut))
    # (e) a forward whose incoming expiry is one block short of the delta
    rs = find(lambda rs: has(rs, ev="forward"))
    if rs:
        off = next(r for r in rs if r["ev"] == "offer")
        fw = next(r for r in rs if r["ev"] == "forward")
        case = next(r for r in rs if r["ev"] == "case")
        off["eu"] = fw["ed"] + case["d"] - 1
        muts.append(("forward-delta-short", [r for r in rs if r["ev"] in ("case", "offer", "forward")]))
    # (f) our HTLC-success confirmed one block after the payer's timeout became minable
    rs = find(lambda rs: any(r["ev"] == "block" and any(c["kind"] == "htlc_success" and c["node"] == 1 for c in r["conf"]) for r in rs))
    if rs:
        i = next(j for j, r in enumerate(rs) if r["ev"] == "block" and any(c["kind"] == "htlc_success" and c["node"] == 1 for c in r["conf"]))
        eu = next(r for r in rs if r["ev"] == "offer")["eu"]
        # move the confirmation to block eu + 1
        tgt = next((j for j, r in enumerate(rs) if r["ev"] == "block" and r["h"] == eu + 1), None)
        if tgt is not None and tgt != i:
            c = rs[i]["conf"]
            rs[i]["conf"] = []
            rs[tgt]["conf"] = c
            muts.append(("success-after-timeout-minable", rs))
    # (g) a claim below the deadline that fails
    rs = find(lambda rs: has(rs, ev="claim", ok=True))
    if rs:
        i = next(j for j, r in enumerate(rs) if r["ev"] == "claim")
        rs[i]["ok"] = False
        muts.append(("claim-below-deadline-refused", rs[:i + 1]))
    rejected = 0
    names = []
    for name, m in muts:
        p = os.path.join(wd, "selftest-%s.ndjson" % name)
        with open(p, "w") as f:
            for r in m:
                f.write(json.dumps(r) + "\n")
        _, fails = vlib.validate_trace(PID, "DeadlinesTrace", cfg, p, max_failures=1, tag="st")
        if fails:
            rejected += 1
            names.append("%s:%s" % (name, fails[0]["inv"] or "rejected"))
        else:
            names.append("%s:ACCEPTED" % name)
    if rejected != len(muts) or len(muts) < 5:
        raise vlib.ToolError("binding self-test: %d of %d corrupted traces rejected (%s)" % (rejected, len(muts), names))
    return {"mutations": len(muts), "rejected": rejected, "detail": names}


def run(tier, seed):
    t0 = time.time()
    wd = vlib.workdir(PID)
    thorough = tier == "thorough"
    rng = random.Random(seed)
    bins = vlib.build(["consts", "deadlines"])
    k = read_consts(bins["consts"])
    windows = write_cfgs(k, thorough)
    vlib.log("[consts] %s" % k)

    # ---- 1. design model instantiated from the code's constants
    cex = os.path.join(wd, "cex.json")
    if os.path.exists(cex):
        os.remove(cex)
    r = vlib.tlc_mc(PID, "DeadlinesMC", "DeadlinesMC_gen.cfg", workers=12, timeout=2400 if thorough else 600,
                    extra=["-dumpTrace", "json", cex])
    model_violation = r["violated"]
    scripts = vlib.tlc_printed(r["out"], "SCRIPT")
    vlib.log("[mc] %d distinct states, %d generated, depth %d, %d finished scenarios, %.0fs%s" %
             (r["distinct"], r["states"], r["depth"], len(scripts), r["wall_s"],
              (", MODEL VIOLATES %s" % model_violation) if model_violation else ""))
    if model_violation == "TypeOK" or model_violation == "EmitScripts":
        raise vlib.ToolError("design model broken: %s" % model_violation)
    cex_script, cex_state = (None, None)
    if model_violation:
        cex_script, cex_state = cex_to_script(cex, k)
        vlib.log("[mc] counterexample state: %s" % cex_state)
        vlib.log("[mc] replaying it on real nodes: %s" % cex_script)
    else:
        vlib.require_coverage(r, ["MShow", "MRefuseFinal", "MForward", "MRefuseForward", "MAutoFail", "MFulfilUp",
                                  "MGoOnChainDn", "MGoOnChainUp", "MFailUpBuried", "MFailUpDn", "MClaim", "MClaimLate",
                                  "MDnFulfil", "MDnFail", "MNewBlock", "MQueue", "MCellTimeout", "MCellRelease",
                                  "MCellReleaseLate", "MDnFulfilCell", "MDnFailCell"], "DeadlinesMC")
    if not scripts:
        raise vlib.ToolError("the model produced no scenarios")
    # ---- 1b. thorough: the same races for unbounded heights (inductive invariant, Apalache)
    ap = None
    if thorough:
        obl, failed = apalache(wd, k)
        ap = {"obligations": len(obl), "discharged": len(obl) - len(failed), "detail": obl}
        vlib.log("[apalache] %d obligations, %d as expected %s" % (len(obl), len(obl) - len(failed), failed or ""))
        if failed and not model_violation:
            raise vlib.ToolError("apalache: obligations not discharged although the bounded model holds: %s" % failed)
    cheap, late, heavy, nclasses, nlate = pick_scripts(scripts, k, rng, 2500 if thorough else 300,
                                                       6000 if thorough else 1100)
    conv = ([cex_script] if cex_script else []) + cheap + late + heavy
    spath = os.path.join(wd, "scripts.ndjson")
    with open(spath, "w") as f:
        for s in conv:
            f.write(json.dumps(s) + "\n")

    # ---- 2. the same offsets on real nodes
    tpath = os.path.join(wd, "trace.ndjson")
    vlib.run_bin(bins["deadlines"], ["--scripts", spath, "--out", tpath], timeout=3000, discard_stdout=True)
    summ = json.load(open(tpath + ".summary"))
    vlib.log("[deadlines] %s (decided at once %d, late off-chain answers %d of %d, on-chain %d runs over %d classes)" %
             (summ, len(cheap), len(late), nlate, len(heavy), nclasses))
    if summ["setup_failures"] or summ["skipped"] * 10 > summ["runs"]:
        raise vlib.ToolError("engine could not set up %d / skipped %d of %d scenarios" %
                             (summ["setup_failures"], summ["skipped"], summ["runs"]))
    # outcome table per (role, offset) and the vacuity guards: both sides of every boundary were seen
    stats = {"shown": 0, "refused_final": 0, "forwarded": 0, "refused_fwd": 0, "go_onchain_dn": 0, "go_onchain_up": 0,
             "fail_after_burial": 0, "claims_ok": 0, "claims_refused": 0, "autofail": 0, "c_claim_onchain": 0,
             "success_confirmed": 0, "holding_cell_timeout": 0, "holding_cell_release": 0}
    table = {}
    cur = None
    for ln in open(tpath):
        e = json.loads(ln)
        ev = e["ev"]
        if ev == "case":
            cur = {"role": e["role"], "h": e["h"], "decided": False, "dn": e["dn"]}
        elif ev == "offer":
            cur["off"] = (e["eu"] - e["h"], (e["ed"] - e["h"]) if e["ed"] else 0)
        elif ev == "show":
            stats["shown"] += 1
            cur["decided"] = True
            table.setdefault("final eu-h=%d" % cur["off"][0], set()).add("claimable")
        elif ev == "forward":
            stats["forwarded"] += 1
            cur["decided"] = True
            if cur["dn"] == "cell":
                if e["h"] > cur["h"]:
                    stats["holding_cell_release"] += 1
            else:
                table.setdefault("fwd eu-h=%d ed-h=%d" % cur["off"], set()).add("forwarded")
        elif ev == "resolve" and e["dir"] == "up" and e["kind"] == "fail":
            if not cur["decided"] and cur["dn"] == "cell" and e["h"] > cur["h"]:
                cur["decided"] = True
                stats["holding_cell_timeout"] += 1
            elif not cur["decided"]:
                cur["decided"] = True
                if cur["role"] == "final":
                    stats["refused_final"] += 1
                    table.setdefault("final eu-h=%d" % cur["off"][0], set()).add(e["reason"])
                else:
                    stats["refused_fwd"] += 1
                    table.setdefault("fwd eu-h=%d ed-h=%d" % cur["off"], set()).add(e["reason"])
            elif e["reason"] == "OnChainTimeout":
                stats["fail_after_burial"] += 1
            elif e["reason"] == "PaymentClaimBuffer":
                stats["autofail"] += 1
        elif ev == "bcast" and e["node"] == 1 and e["kind"] == "commitment":
            stats["go_onchain_dn" if e["chan"] == "dn" else "go_onchain_up"] += 1
        elif ev == "claim":
            stats["claims_ok" if e["ok"] else "claims_refused"] += 1
        elif ev == "block":
            for c in e["conf"]:
                if c["kind"] == "htlc_success" and c["node"] == 2:
                    stats["c_claim_onchain"] += 1
                if c["kind"] == "htlc_success" and c["node"] == 1:
                    stats["success_confirmed"] += 1
    vlib.log("[deadlines] %s" % stats)

    # ---- 3. trace validation (the oracle)
    total, fails = vlib.validate_trace(PID, "DeadlinesTrace", "DeadlinesTrace_gen.cfg", tpath, timeout=2400)
    nviol = 0
    for fl in fails:
        runid = fl["run"]
        script = conv[runid - 1] if runid and runid - 1 < len(conv) else None
        key = "panic" if fl["rec"].get("ev") == "panic" else None
        if vlib.report_violation(PID, "run%d" % runid, {
                "property": PID, "kind": fl["kind"], "invariant": fl["inv"],
                "first_unmatched_event": fl["rec"], "position_in_run": fl["pos_in_run"],
                "constants_from_code": k, "model_violation": model_violation,
                "replays_model_counterexample": bool(cex_script) and runid == 1,
                "script": script, "trace_of_run": [e for e in fl["run_events"] if e["ev"] != "block" or e["conf"]],
                "last_state": fl["last_state"],
                "how_to_replay": "harness/target/debug/deadlines --scripts <file with `script`> --out t.ndjson; "
                                 "tools/tv.sh DeadlinesTrace t.ndjson DeadlinesTrace_gen.cfg"}, key=key):
            nviol += 1
    # vacuity guard (only meaningful when every run was accepted): each kind of outcome was observed
    empty = [n for n, v in stats.items() if v == 0]
    if empty and not fails and not model_violation:
        raise vlib.ToolError("vacuity: never observed on the real nodes: %s" % empty)
    if model_violation and not nviol:
        # DESIGN 8: a design-level counterexample is not a violation of the code; it was replayed on real
        # nodes (run 1 of the trace) and every real run satisfied the property
        raise vlib.ToolError("with the code's constants %s the model loses a race (%s), but the replay on real nodes "
                             "showed no money at risk: the model needs correction (see %s)" %
                             (k, model_violation, os.path.join(wd, "tlc-DeadlinesMC_gen.out")))

    # ---- 4. binding self-test
    st = None
    if not fails:
        st = selftest(wd, tpath, "DeadlinesTrace_gen.cfg")
        vlib.log("[selftest] %s" % st)

    with open(tpath) as f:
        head = [json.loads(next(f)) for _ in range(8)]
    cov = {
        "states": r["distinct"], "transitions": r["states"],
        "traces_validated_against_impl": summ["runs"] - summ["skipped"],
        "samples": [conv[0], conv[len(conv) // 2], conv[-1], {"trace_head": head}],
        "constants_from_code": k, "windows": windows, "model_violation": model_violation,
        "mc": {"distinct": r["distinct"], "generated": r["states"], "depth": r["depth"], "wall_s": round(r["wall_s"], 1),
               "action_coverage": {a: c for a, c in r["coverage"].items() if a.startswith("M")},
               "finished_scenarios": len(scripts)},
        "scenario_classes_needing_chain": nclasses, "runs_decided_at_once": len(cheap), "runs_late_offchain": len(late),
        "late_offchain_scenarios": nlate, "runs_onchain": len(heavy),
        "events_validated": total, "impl_panics": summ["panics"], "observed": stats,
        "boundary_outcomes": {kk: sorted(v) for kk, v in sorted(table.items())},
        "apalache_unbounded_heights": ap, "binding_selftest": st, "exhaustive": False,
    }
    vlib.write_evidence(PID, tier, seed, "model_checking", cov, [
        "blocks reach the honest nodes one at a time and at the same time; a peer that is up to LGP blocks ahead is "
        "accounted for arithmetically (upstream resolution required at h + LGP < expiry)",
        "a broadcast transaction confirms within MAX_BLOCKS_FOR_CONF blocks of becoming minable (child after parent); "
        "the adversary's competing spend wins ties",
        "non-anchor channels (HTLC transactions broadcast by the monitor itself); one HTLC per scenario, no MPP",
        "no reorganisations (C07/C11 cover them); the upstream peer is responsive in dead-downstream scenarios",
    ], time.time() - t0, nviol)
    return nviol
