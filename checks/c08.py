"""C08 -- HTLC deadlines: the node acts before money can be lost to a timeout.

1. The harness binary `consts` prints the code's timing constants; the model spec/Deadlines.tla is
   instantiated FROM THEM at every run (generated .cfg files).
2. TLC model-checks the design model spec/DeadlinesMC.tla (node B acting by the rules transcribed
   from the code, adversarial peers / miner within the library's stated bounds) over every expiry
   offset in a window around each boundary and every delta in [MIN, MIN+3]: the invariants of
   Deadlines.tla are the property.  A changed constant that loses a race violates them IN THE MODEL;
   that alone is not a verdict -- the counterexample is replayed on real nodes (step 3/4).
3. TLC prints one driver script per finished scenario; the engine `deadlines` sets up exactly those
   offsets on real ChannelManagers/ChannelMonitors and records what happened and at which height.
4. TLC validates the recorded runs against spec/DeadlinesTrace.tla (the oracle).
5. Acceptance probes (model-generated and a seeded random sweep): the sender builds the onion itself,
   so the hop delta B is left with (incoming - outgoing expiry) is swept around B's CONFIGURED
   cltv_expiry_delta (values below the minimum included: 12, 18, 47, ...) and around the hard minimum
   MIN_CLTV_EXPIRY_DELTA, and the outgoing expiry around height + LATENCY_GRACE_PERIOD_BLOCKS (down to
   already expired) with a far-away incoming expiry.  Rule (Deadlines.tla MayForward): a forward goes
   out only if incoming - outgoing >= max(configured, MIN) and outgoing > height + LGP.
6. Dead downstream peers whose HTLC is resolved by B's commitment transaction itself (C silent right after
   B's update_add_htlc + commitment_signed: the HTLC is only in the commitment B signed for C; a dust HTLC),
   a miner that starves B's commitment transaction beyond MAX_BLOCKS_FOR_CONF (late or never: the early
   upstream fail-back at incoming expiry - LGP is all that saves the upstream channel; rule MayFailUpEarly:
   not one block earlier, BoundedLoss: not one block later) and a restart of B (ChannelManager and
   ChannelMonitors written and read back) at every height between the on-chain resolution and its burial
   (FailBackAfterBurial holds across the restart); enumerated by TLC and sampled by the random sweep.
7. Other per-block work of the same channel coinciding with a deadline block: for every deadline the model
   enumerates (holding-cell give-up block, automatic fail-back at the claim deadline, both go-on-chain
   blocks, the early upstream fail-back, the fail-back at burial) the channel concerned (or a second channel
   with the same peer) has another duty on that block, the one before or the one after: a splice reaches its
   depth (splice_locked out of best_block_updated at depth 6 / out of transactions_confirmed at depth 1), a
   fresh channel reaches its depth (channel_ready, same two paths), the announcement depth is reached
   (announcement_signatures).  The engine sets up exactly those offsets (B splices funds out / opens a second
   channel before the payment, the harness mines that transaction at the height that makes the chosen
   confirmation land on the chosen block) under all three block-delivery styles (Confirm with
   best_block_updated first, Confirm with transactions_confirmed first, Listen::block_connected).  The rule
   stays the property's: whatever else a block triggers, the HTLC is passed on / given back / taken on chain
   by its deadline (BoundedLoss now also covers an HTLC that B took from A and has not passed on yet).  A
   spec mutant (the splice exit of the per-block routine forgets the timed-out HTLCs) must be refuted by TLC.
"""
import json, os, random, shutil, subprocess, time
from concurrent.futures import ThreadPoolExecutor
import vlib

PID = "C08"
NAMES = ["CCB", "LGP", "MBC", "ARD", "HFB", "MIND", "MINF", "FAR"]
INVS = ("TypeOK NeverShowOrForwardTooSoon ClaimableBelowDeadline OnChainInTimeOutbound "
        "OnChainInTimeInbound WinInboundRace BoundedLoss FailBackAfterBurial")
H0 = 100
NEVER = 100000      # confirmation delay of a transaction the miner never takes
# other per-block work (model kind -> what B sets up, minimum depth of every channel, which confirmation of
# that transaction is the chosen block)
COKINDS = {"splice6": ("splice", 6, 6), "splice1": ("splice", 1, 1), "spliceann": ("splice", 1, 6),
           "open6": ("open", 6, 6), "open1": ("open", 1, 1), "openann": ("open", 1, 6)}
STYLES = ["best", "txs", "listen"]


def read_consts(bin_path):
    p = vlib.run_bin(bin_path, [])
    c = json.loads(p.stdout.strip().splitlines()[-1])
    return {"CCB": c["CLTV_CLAIM_BUFFER"], "LGP": c["LATENCY_GRACE_PERIOD_BLOCKS"], "MBC": c["MAX_BLOCKS_FOR_CONF"],
            "ARD": c["ANTI_REORG_DELAY"], "HFB": c["HTLC_FAIL_BACK_BUFFER"], "MIND": c["MIN_CLTV_EXPIRY_DELTA"],
            "MINF": c["MIN_FINAL_CLTV_EXPIRY_DELTA"], "FAR": c["CLTV_FAR_FAR_AWAY"]}


def tla_set(xs):
    return "{" + ",".join(str(x) for x in sorted(set(xs))) + "}"


def write_cfgs(k, thorough):
    """Generated instantiations of the model from the code's constants."""
    consts = "".join("  %s = %d\n" % (n, k[n]) for n in NAMES)
    w = 10 if thorough else 2
    off_final = [o for o in range(k["HFB"] + 1 - w, k["HFB"] + 1 + w + 2) if o >= 1]
    off_a = [o for o in range(k["LGP"] + 1 - w, k["LGP"] + 1 + w + 2) if o >= 1]
    # C (an LDK node) holds an HTLC only if it expires later than HFB + 1 blocks from now
    off_b = list(range(k["HFB"] + 2, k["HFB"] + (8 if thorough else 4)))
    deltas = list(range(k["MIND"], k["MIND"] + 4))
    slack1 = list(range(0, 5 if thorough else 3))
    far = list(range(0, 3))
    # acceptance probes: other configured deltas (below the minimum = documented to be floored, and
    # well above), outgoing expiries from "expires with this block" to just above the grace period
    pdeltas = [x for x in ([1, 6, 12, 18, 24, 36, 47, 60, 72, 144] if thorough else [12, 18, 47, 72])
               if x not in deltas and x >= 1]
    poffd = [k["HFB"] + 3] + ([k["HFB"] + 20] if thorough else [])
    offsoon = list(range(0, k["LGP"] + (9 if thorough else 4)))
    bighops = [0, 1, 24, 100] if thorough else [0, 24]
    # other per-block work laid next to the deadlines (quick: one of each transaction / depth / duty)
    cokinds = sorted(COKINDS) if thorough else ["splice6", "splice1", "open6", "openann"]
    hdr = "\\* GENERATED by checks/c08.py from the constants printed by harness/src/bin/consts.rs -- do not edit\n"
    mc = (hdr + "SPECIFICATION Spec\nCONSTANTS\n" + consts +
          "  H0 = %d\n  OffFinal = %s\n  OffFwdA = %s\n  OffFwdB = %s\n  Deltas = %s\n  Slack1 = %s\n  FarProbe = %s\n" %
          (H0, tla_set(off_final), tla_set(off_a), tla_set(off_b), tla_set(deltas), tla_set(slack1), tla_set(far)) +
          "  ProbeDeltas = %s\n  ProbeOffD = %s\n  OffSoon = %s\n  BigHops = %s\n" %
          (tla_set(pdeltas), tla_set(poffd), tla_set(offsoon), tla_set(bighops)) +
          "  CoKindsUsed = {%s}\n" % ",".join('"%s"' % x for x in cokinds) +
          "INVARIANTS " + INVS + " EmitScripts\nCONSTRAINT Horizon\nCHECK_DEADLOCK FALSE\n")
    tr = (hdr + "SPECIFICATION TraceSpec\nCONSTANTS\n" + consts + "INVARIANTS " + INVS +
          "\nPOSTCONDITION TraceAccepted\nCHECK_DEADLOCK FALSE\n")
    with open(os.path.join(vlib.SPEC, "DeadlinesMC_gen.cfg"), "w") as f:
        f.write(mc)
    # spec mutant: the splice exit of the per-block routine forgets the HTLCs it timed out of the holding cell
    # (small window: one delta, one dead-peer offset)
    mut = (hdr + "SPECIFICATION Spec\nCONSTANTS\n" + consts +
           "  H0 = %d\n  OffFinal = %s\n  OffFwdA = %s\n  OffFwdB = %s\n  Deltas = %s\n  Slack1 = {1}\n  FarProbe = {0}\n" %
           (H0, tla_set(off_final[:1]), tla_set(off_a), tla_set(off_b[:1]), tla_set(deltas[:1])) +
           "  ProbeDeltas = %s\n  ProbeOffD = %s\n  OffSoon = {0}\n  BigHops = {0}\n" % (tla_set(pdeltas[:1]), tla_set(poffd[:1])) +
           "  CoKindsUsed = {\"splice6\"}\n  CodeExitCarriesTimedOut <- MutExitSpliceDrops\n" +
           "INVARIANTS " + INVS + "\nCONSTRAINT Horizon\nCHECK_DEADLOCK FALSE\n")
    with open(os.path.join(vlib.SPEC, "DeadlinesMC_mut_gen.cfg"), "w") as f:
        f.write(mut)
    with open(os.path.join(vlib.SPEC, "DeadlinesTrace_gen.cfg"), "w") as f:
        f.write(tr)
    return {"OffFinal": off_final, "OffFwdA": off_a, "OffFwdB": off_b, "Deltas": deltas,
            "Slack": [s - 1 for s in slack1], "FarProbe": far, "ProbeDeltas": pdeltas, "ProbeOffD": poffd,
            "OffSoon": offsoon, "BigHops": bighops, "CoKindsUsed": cokinds, "CoOffsets": [-1, 0, 1]}


def sweep_scripts(k, rng, n):
    """Seeded random acceptance probes (decided at once, honest peers): the sender chooses the pair
    (incoming expiry, outgoing expiry) freely; B is configured with any cltv_expiry_delta."""
    mind, lgp, hfb = k["MIND"], k["LGP"], k["HFB"]
    dpool = [1, 6, 12, 18, 24, 36, 40, mind - 1, mind, mind + 1, 60, 72, 100, 144]
    out = []
    for i in range(n):
        d = rng.choice(dpool) if rng.random() < 0.8 else rng.randint(1, 200)
        if i % 2 == 0:
            # hop delta around the configured delta and around the minimum, comfortable outgoing expiry
            lo, hi = min(d, mind), max(d, mind)
            hop = rng.choice([d - 1, d, d + 1, mind - 1, mind, mind + 1, rng.randint(max(0, lo - 3), hi + 3)])
            offd = rng.randint(hfb + 2, hfb + 40)
            wait = rng.choice([0, 0, 0, 1, 3])
        else:
            # outgoing expiry around the grace period (down to long expired), incoming expiry far away
            hop = max(d, mind) + rng.choice([0, 0, 1, 10, 24, 100])
            offd = rng.randint(-8, lgp + 4)
            wait = max(0, 1 - offd) + rng.choice([0, 0, 2])
        out.append({"role": "fwd", "offu": offd + max(hop, 0), "offd": offd, "d": d, "up": "honest", "dn": "honest",
                    "x": 0, "claim": None, "c1": 1, "c2": 1, "wait": wait, "heavy": False, "sweep": True})
    return out


def sweep_deadpeer(k, rng, n):
    """Seeded random dead-downstream-peer timelines: C never answers B's update_add_htlc + commitment_signed
    ("early"), or takes the HTLC and stays silent (normal amount / dust); the miner confirms B's commitment
    transaction within the stated bound, late, or never; B is restarted at a random moment."""
    mind, hfb, mbc, ard = k["MIND"], k["HFB"], k["MBC"], k["ARD"]
    out = []
    for i in range(n):
        d = rng.choice([12, 24, mind, mind, mind + 1, 60, 72, 100])
        hop = max(d, mind) + rng.choice([0, 0, 1, 2, 5, 20])
        offd = rng.randint(hfb + 2, hfb + 30)
        r = rng.random()
        c1 = rng.randint(1, mbc) if r < 0.4 else (NEVER if r < 0.7 else rng.randint(mbc + 1, hop + 8))
        e = {"role": "fwd", "offu": offd + hop, "offd": offd, "d": d, "up": "honest",
             "dn": rng.choice(["early", "early", "dust", "silent"]), "x": 0, "claim": None, "c1": c1,
             "c2": rng.randint(1, mbc), "wait": 0, "heavy": True, "sweep": True, "rsa": None, "rsk": 0}
        r = rng.random()
        if r < 0.35:
            e["rsa"], e["rsk"] = "gone", rng.randint(0, ard)
        elif r < 0.6:
            e["rsa"], e["rsk"] = "bcast", rng.choice([0, 1, rng.randint(0, hop), hop - 2 * k["LGP"] - 1])
        out.append(e)
    return out


def to_engine(s, k):
    """A finished scenario of the model (state variables) -> a script of the engine."""
    mbc = k["MBC"]

    def delay(v, dflt):
        return v if 1 <= v <= mbc else dflt
    co = {}
    if s.get("cok", "none") != "none":
        what, cod, con = COKINDS[s["cok"]]
        co = {"co": what, "cod": cod, "con": con, "cos": s["cos"], "coh": s["coh"], "cok": s["cok"],
              "codl": s["con"], "coo": s["coo"]}
    if s["role"] == "final":
        on_chain = s["cuconf"] >= 0
        claim = (s["x"] - s["dl"]) if (s["x"] >= 0 and s["dl"] > 0) else None
        return dict({"role": "final", "offu": s["offu"], "offd": 0, "d": s["d"], "up": s["up"], "dn": "honest", "x": 0,
                     "claim": claim, "c1": delay(s["c1u"], mbc), "c2": delay(s["c2u"], mbc),
                     "heavy": on_chain or s["up"] == "silent" or bool(co)}, **co)
    ed = H0 + s["offd"]
    c_holds = s["offd"] > k["HFB"] + 1
    mode, x = s["dn"], 0
    starve, rsh = bool(s.get("starve")), s.get("rsh", -1)
    if mode == "cell":
        # the forward waited in B's holding cell until C answered at height x (or was refused at once)
        x = (s["x"] - ed) if s["x"] >= 0 else 0
        return dict({"role": "fwd", "offu": s["offu"], "offd": s["offd"], "d": s["d"], "up": s["up"], "dn": "cell", "x": x,
                     "claim": None, "c1": 1, "c2": 1, "heavy": bool(co)}, **co)
    if mode == "offchain":
        if s["dnres"] == "fulfilled":
            mode, x = ("honest", 0) if s["x"] == H0 else ("lastmoment", s["x"] - ed)
        elif s["dnres"] == "failed":
            mode, x = ("lastfail", s["x"] - ed) if c_holds else ("honest", 0)
        elif s["dnres"] in ("gone", "pending"):
            mode = "silent"
        else:
            mode = "honest"
    if s["cuconf"] >= 0 or s["up"] == "silent":
        c1, c2 = delay(s["c1u"], mbc), delay(s["c2u"], mbc)
    else:
        c1, c2 = delay(s["c1d"], mbc), delay(s["c2d"], mbc)
    heavy = s["cdconf"] >= 0 or s["cuconf"] >= 0      # something was confirmed on chain
    if not heavy and mode in ("lastmoment", "lastfail") and s["x"] > H0:
        heavy = "blocks"                                  # C answers off chain after some blocks
    rsa, rsk = None, 0
    if starve:
        # the miner starves B's commitment transaction: it confirms late (beyond MBC) or never
        heavy = True
        c1 = (s["cdconf"] - s["cdb"]) if s["cdconf"] >= 0 else NEVER
    if rsh >= 0:
        # B is restarted rsk blocks after the downstream HTLC became unclaimable on chain / after B's
        # commitment transaction reached the broadcaster
        heavy = True
        if s["dnres"] == "gone" and 0 <= s.get("dnh", -1) <= rsh:
            rsa, rsk = "gone", rsh - s["dnh"]
        else:
            rsa, rsk = "bcast", rsh - s["cdb"]
    return dict({"role": "fwd", "offu": s["offu"], "offd": s["offd"], "d": s["d"], "up": s["up"], "dn": mode, "x": x,
                 "claim": None, "c1": c1, "c2": c2, "heavy": heavy or bool(co), "rsa": rsa, "rsk": rsk}, **co)


def cex_to_script(path, k):
    """The last state of a TLC counterexample (JSON dump) -> engine script with worst-case delays."""
    try:
        t = json.load(open(path))
        st = t["counterexample"]["action"][-1][2][1]
    except Exception:
        return None, None

    def mx(a, b):
        return a if a >= b else b
    s = {"role": st["role"], "up": st["upMode"], "dn": st["dnMode"], "offu": st["eu"] - H0, "offd": st["ed"] - H0,
         "d": st["d"], "dl": st["dl"], "x": st["xH"], "dnres": st["dn"], "upres": st["up"],
         "c1d": st["cDc"] - st["cDb"], "c2d": st["dnH"] - mx(st["toB"], st["cDc"]), "cdconf": st["cDc"],
         "c1u": st["cUc"] - st["cUb"], "c2u": st["suC"] - mx(st["suB"], st["cUc"]), "cuconf": st["cUc"],
         "starve": st.get("starve", False), "rsh": st.get("rsH", -1), "cdb": st["cDb"], "dnh": st["dnH"], "uph": st["upH"],
         "cok": st.get("coK", "none"), "coh": st.get("coH", 0) - H0, "cos": st.get("coS", "-"), "con": st.get("coN", "-"),
         "coo": st.get("coO", 0)}
    if s["role"] == "fwd" and s["dn"] == "offchain" and s["dnres"] == "pending":
        s["dnres"] = "gone"
    return to_engine(s, k), st


def pick_co(coruns, rng, cap):
    """Scenarios with other per-block work next to a deadline: one class per (deadline, offset, kind of work,
    role, peer behaviour, restart / starved miner or not); every class gets a run (the classes of offset 0
    first), further runs at random; the block-delivery style is drawn per run."""
    classes = sorted(coruns.keys(), key=lambda c: json.dumps(c))
    rng.shuffle(classes)
    classes.sort(key=lambda c: abs(c[1]))          # stable: offset 0 first
    chosen, rest = [], []
    for cls in classes:
        es = coruns[cls]
        first = rng.choice(es)
        chosen.append(first)
        rest += [e for e in rng.sample(es, min(3, len(es))) if e is not first]
    chosen = chosen[:cap]
    rng.shuffle(rest)
    chosen += rest[:max(0, cap - len(chosen))]
    for e in chosen:
        e["style"] = rng.choice(STYLES)
    return chosen, len(classes)


def pick_scripts(scripts, k, rng, cap_blocks, cap_chain, cap_co):
    """All scenarios decided at once; of those that need blocks a stratified sample: for the on-chain
    ones the worst case (both confirmation delays = MBC) of every class first, then the other extreme
    delays and random ones; for late off-chain answers the last moments first."""
    seen, cheap, blocks, heavy, coruns = set(), [], [], {}, {}
    # TLC's workers print in a varying order: sort, so that the sample depends on the seed only
    for s in sorted(scripts, key=lambda x: json.dumps(x, sort_keys=True)):
        e = to_engine(s, k)
        key = json.dumps(e, sort_keys=True)
        if key in seen:
            continue
        seen.add(key)
        if e.get("co"):
            late = "never" if e["c1"] == NEVER else ("late" if e["c1"] > k["MBC"] else "")
            # (the short ones -- holding-cell and final-hop scenarios -- also per outgoing expiry / moment of the
            # peer's answer / moment of the claim)
            fine = (e["offd"], e["x"]) if e["dn"] == "cell" else ((e["offu"], e["claim"]) if e["role"] == "final" else None)
            cls = (e["codl"], e["coo"], e["cok"], e["role"], e["up"], e["dn"], late, bool(e.get("rsa")), fine)
            coruns.setdefault(cls, []).append(e)
        elif not e["heavy"]:
            cheap.append(e)
        elif e["heavy"] == "blocks":
            blocks.append(e)
        elif e.get("rsa") or e["c1"] > k["MBC"]:
            # restarts / a starved commitment transaction: one class per (peer behaviour, outgoing expiry,
            # never / late confirmation, restart point), whatever the configured delta and the slack
            late = "never" if e["c1"] == NEVER else ("late" if e["c1"] > k["MBC"] else "")
            cls = ("dead", e["dn"], e["offd"], late, e["rsa"], e["rsk"])
            heavy.setdefault(cls, []).append(e)
        else:
            cls = (e["role"], e["up"], e["dn"], e["offu"], e["offd"], e["d"], e["x"], e["claim"])
            heavy.setdefault(cls, []).append(e)
    mbc = k["MBC"]
    # late off-chain answers: the three last heights before B's own go-on-chain point always
    last = [e for e in blocks if e["x"] >= k["LGP"] - 3]
    other = [e for e in blocks if e["x"] < k["LGP"] - 3]
    rng.shuffle(last)
    rng.shuffle(other)
    chosen_blocks = (last + other)[:cap_blocks]
    classes = sorted(heavy.keys(), key=lambda c: json.dumps(c))
    rng.shuffle(classes)
    chosen, rest = [], []
    for cls in classes:
        es = heavy[cls]
        worst = [e for e in es if e["c1"] == mbc and e["c2"] == mbc][:1]
        if not worst and cls[0] == "dead":
            worst = [rng.choice(es)]
        chosen += worst
        ext = [e for e in es if e["c1"] in (1, mbc) and e["c2"] in (1, mbc) and e not in worst]
        rest += ext + rng.sample(es, min(2, len(es)))
    chosen = chosen[:cap_chain]
    rng.shuffle(rest)
    have = {json.dumps(e, sort_keys=True) for e in chosen}
    for e in rest:
        if len(chosen) >= cap_chain:
            break
        kk = json.dumps(e, sort_keys=True)
        if kk not in have:
            have.add(kk)
            chosen.append(e)
    co_chosen, co_classes = pick_co(coruns, rng, cap_co)
    return cheap, chosen_blocks, chosen, len(heavy), len(blocks), co_chosen, co_classes


def co_stats(tpath):
    """Vacuity guard of the coinciding-work runs: what B sent (splice_locked / channel_ready /
    announcement_signatures) on the very block on which it acted on a deadline, and on the neighbouring
    blocks, per block-delivery style -- counted from the recorded runs."""
    st = {"co_runs": 0, "co_block_before_deadline": 0, "co_block_after_deadline": 0}
    for what in ("splice_locked", "channel_ready", "announcement_signatures"):
        for dl in ("cell", "autofail", "godn", "goup", "failback"):
            if what == "splice_locked" or dl in ("cell", "failback") and what == "channel_ready" \
                    or dl == "failback" and what == "announcement_signatures":
                st["co_%s_on_%s_block" % (what, dl)] = 0
    for sty in STYLES:
        st["co_on_deadline_block_style_" + sty] = 0
    st["co_on_deadline_block_depth_1"] = 0
    st["co_claim_one_block_below_deadline_on_co_block"] = 0

    def close(run):
        if not run or not run["co"]:
            return
        st["co_runs"] += 1
        for what, hc in run["cos"]:
            for dl, hd in run["dls"]:
                if hc == hd:
                    key = "co_%s_on_%s_block" % (what, dl)
                    st[key] = st.get(key, 0) + 1
                    st["co_on_deadline_block_style_" + run["style"]] += 1
                    if run["cod"] == 1:
                        st["co_on_deadline_block_depth_1"] += 1
                elif hc == hd - 1:
                    st["co_block_before_deadline"] += 1
                elif hc == hd + 1:
                    st["co_block_after_deadline"] += 1
            if run["claim_ok_h"] == hc:
                st["co_claim_one_block_below_deadline_on_co_block"] += 1
    cur = None
    for ln in open(tpath):
        e = json.loads(ln)
        ev = e["ev"]
        if ev == "case":
            close(cur)
            cur = {"co": e.get("co", ""), "style": e.get("style", "best"), "cod": e.get("cod", 6), "dn": e["dn"],
                   "cos": [], "dls": [], "h0": None, "claim_ok_h": None, "dl": None}
        elif cur is None:
            continue
        elif ev == "offer":
            cur["h0"] = e["h"]
        elif ev == "show":
            cur["dl"] = e["deadline"]
        elif ev == "co":
            cur["cos"].append((e["what"], e["h"]))
        elif ev == "claim" and e["ok"] and cur["dl"] is not None and e["h"] == cur["dl"] - 1:
            cur["claim_ok_h"] = e["h"]
        elif ev == "resolve" and e["dir"] == "up" and e["kind"] == "fail":
            if e["reason"] == "CLTVExpiryTooSoon" and cur["dn"] == "cell" and cur["h0"] is not None and e["h"] > cur["h0"]:
                cur["dls"].append(("cell", e["h"]))
            elif e["reason"] == "PaymentClaimBuffer":
                cur["dls"].append(("autofail", e["h"]))
            elif e["reason"] == "OnChainTimeout":
                cur["dls"].append(("failback", e["h"]))
        elif ev == "bcast" and e["node"] == 1 and e["kind"] == "commitment" and e["chan"] in ("dn", "up"):
            name = "godn" if e["chan"] == "dn" else "goup"
            if not any(d == name for d, _ in cur["dls"]):
                cur["dls"].append((name, e["h"]))
    close(cur)
    return st


def run_engine(binp, wd, conv, tpath, procs=8):
    """The engine is single-threaded: contiguous chunks of the scripts in parallel processes (run numbers
    continue across the chunks), traces concatenated in order."""
    per = (len(conv) + procs - 1) // procs
    parts = []
    for i in range(procs):
        chunk = conv[i * per:(i + 1) * per]
        if not chunk:
            continue
        sp, tp = os.path.join(wd, "scripts-%d.ndjson" % i), os.path.join(wd, "trace-%d.ndjson" % i)
        with open(sp, "w") as f:
            for c in chunk:
                f.write(json.dumps(c) + "\n")
        parts.append((sp, tp, i * per))
    with ThreadPoolExecutor(max_workers=len(parts)) as ex:
        futs = [ex.submit(vlib.run_bin, binp, ["--scripts", sp, "--out", tp, "--run-offset", off],
                          timeout=3000, discard_stdout=True) for sp, tp, off in parts]
        for f in futs:
            f.result()
    summ = {}
    with open(tpath, "w") as out:
        for sp, tp, _ in parts:
            with open(tp) as f:
                shutil.copyfileobj(f, out)
            for a, b in json.load(open(tp + ".summary")).items():
                summ[a] = summ.get(a, 0) + b
            for x in (sp, tp, tp + ".summary"):
                os.remove(x)
    with open(tpath + ".summary", "w") as f:
        json.dump(summ, f)
    return summ


def apalache(wd, k):
    """Unbounded heights: discharge the inductive-invariant obligations of spec/DeadlinesApalache.tla
    (integers only, constants from the code) with Apalache.  Returns (obligations, failed names)."""
    out = os.path.join(wd, "apalache")
    shutil.rmtree(out, ignore_errors=True)
    os.makedirs(out, exist_ok=True)
    consts = "".join("  %s = %d\n" % (n, k[n]) for n in ["CCB", "LGP", "MBC", "ARD", "HFB", "MIND"])
    obligations = [  # name, INIT, INVARIANT, length, expected to hold
        ("base: Init => IndInv", "Init", "IndInv", 0, True),
        ("step: IndInv /\\ Next => IndInv'", "IndInit", "IndInv", 1, True),
        ("safety: IndInv => Safe", "IndInit", "Safe", 0, True),
        ("non-vacuity: a fail-back step is enabled", "IndInit", "NotFailed", 1, False),
        ("non-vacuity: a winning confirmation is enabled", "IndInit", "NotWon", 1, False),
    ]
    res, failed = [], []
    for i, (name, init, inv, length, expect) in enumerate(obligations):
        cfg = os.path.join(out, "o%d.cfg" % i)
        with open(cfg, "w") as f:
            f.write("CONSTANTS\n" + consts + "INIT %s\nNEXT Next\nINVARIANT %s\n" % (init, inv))
        t0 = time.time()
        p = subprocess.run(["timeout", "600", "apalache-mc", "check", "--config=" + cfg, "--length=%d" % length,
                            "--out-dir=" + os.path.join(out, "run%d" % i), "DeadlinesApalache.tla"],
                           cwd=vlib.SPEC, stdout=subprocess.PIPE, stderr=subprocess.STDOUT, text=True)
        with open(os.path.join(out, "o%d.out" % i), "w") as f:
            f.write(p.stdout)
        if "The outcome is: NoError" in p.stdout:
            holds = True
        elif "The outcome is: Error" in p.stdout and "invariant" in p.stdout:
            holds = False
        else:
            vlib.log(p.stdout[-2000:])
            raise vlib.ToolError("apalache failed on obligation %r" % name)
        ok = holds == expect
        res.append({"obligation": name, "holds": holds, "expected": expect, "wall_s": round(time.time() - t0, 1)})
        if not ok:
            failed.append(name)
    shutil.rmtree(os.path.join(vlib.SPEC, "_apalache-out"), ignore_errors=True)
    return res, failed


def selftest(wd, tpath, cfg):
    """Binding self-test: corrupted copies of accepted runs must each be rejected."""
    recs = []
    for x in open(tpath):
        if not x.strip():
            continue
        r = json.loads(x)
        if r["ev"] == "blocks":
            # (the engine writes a row of empty blocks as one record: one record per block here)
            recs += [{"ev": "block", "h": r["h"] - r["n"] + 1 + j, "conf": [], "run": r["run"]} for j in range(r["n"])]
        else:
            recs.append(r)
    byrun = {}
    for r in recs:
        byrun.setdefault(r["run"], []).append(r)
    muts = []

    def find(pred):
        for run, rs in byrun.items():
            if pred(rs):
                return [json.loads(json.dumps(x)) for x in rs]
        return None

    def has(rs, **kw):
        return any(all(r.get(a) == b for a, b in kw.items()) for r in rs)
    # (a) the advertised claim deadline one block later than what the node enforces
    rs = find(lambda rs: has(rs, ev="show") and has(rs, ev="resolve", dir="up", kind="fail") and not has(rs, ev="claim"))
    if rs:
        for r in rs:
            if r["ev"] == "show":
                r["deadline"] += 1
        muts.append(("deadline-off-by-one", rs))
    # (b) holder commitment of the downstream channel broadcast one block later
    rs = find(lambda rs: has(rs, ev="bcast", node=1, kind="commitment", chan="dn"))
    if rs:
        i = next(j for j, r in enumerate(rs) if r["ev"] == "bcast" and r["node"] == 1 and r["kind"] == "commitment")
        j = next(j for j in range(i, len(rs)) if rs[j]["ev"] == "block")
        hnew = rs[j]["h"]
        moved = [r for r in rs[:j] if r["ev"] in ("bcast", "closed") and r.get("h") == rs[i]["h"] and r.get("node") == 1]
        rest = [r for r in rs[:j] if r not in moved]
        for r in moved:
            r["h"] = hnew
        muts.append(("go-on-chain-one-block-late", rest + [rs[j]] + moved + rs[j + 1:]))
    # (c) upstream fail-back one block before the timeout is buried
    rs = find(lambda rs: has(rs, ev="resolve", dir="up", kind="fail", reason="OnChainTimeout"))
    if rs:
        i = next(j for j, r in enumerate(rs) if r["ev"] == "resolve" and r.get("reason") == "OnChainTimeout")
        j = max(jj for jj in range(i) if rs[jj]["ev"] == "block")
        rs[i]["h"] -= 1
        rs[j], rs[i] = rs[i], rs[j]
        muts.append(("fail-back-before-burial", rs))
    # (d) an HTLC shown as claimable although it is one block too close
    rs = find(lambda rs: has(rs, ev="show"))
    if rs:
        for r in rs:
            if r["ev"] == "offer":
                dlt = r["eu"]
        off = next(r for r in rs if r["ev"] == "offer")
        sh = next(r for r in rs if r["ev"] == "show")
        shift = (sh["deadline"] - sh["h"]) - 1
        off["eu"] -= shift
        sh["deadline"] -= shift
        cut = [r for r in rs if r["ev"] in ("case", "offer", "show")]
        muts.append(("shown-too-soon", cut))
    # (e) a forward whose incoming expiry is one block short of the delta
    rs = find(lambda rs: has(rs, ev="forward"))
    if rs:
        off = next(r for r in rs if r["ev"] == "offer")
        fw = next(r for r in rs if r["ev"] == "forward")
        case = next(r for r in rs if r["ev"] == "case")
        off["eu"] = fw["ed"] + case["d"] - 1
        muts.append(("forward-delta-short", [r for r in rs if r["ev"] in ("case", "offer", "forward")]))
    # (h) B configured with a delta below the minimum forwards with a delta that satisfies its
    #     configuration but not the minimum (outgoing expiry moved up to 1 block short of MIND)
    mind = next(r for r in recs if r["ev"] == "case")["consts"]["MIND"]
    lgp = next(r for r in recs if r["ev"] == "case")["consts"]["LGP"]
    rs = find(lambda rs: has(rs, ev="forward") and any(r["ev"] == "case" and r["d"] < mind - 1 for r in rs))
    if rs:
        off = next(r for r in rs if r["ev"] == "offer")
        fw = next(r for r in rs if r["ev"] == "forward")
        fw["ed"] = off["eu"] - (mind - 1)
        off["ed"] = fw["ed"]
        muts.append(("forward-below-min-delta-low-config", [r for r in rs if r["ev"] in ("case", "offer", "forward")]))
    # (i) a forward whose outgoing expiry is only LGP blocks away (incoming expiry pushed out accordingly)
    rs = find(lambda rs: has(rs, ev="forward"))
    if rs:
        off = next(r for r in rs if r["ev"] == "offer")
        fw = next(r for r in rs if r["ev"] == "forward")
        fw["ed"] = fw["h"] + lgp
        off["ed"] = fw["ed"]
        muts.append(("forward-outgoing-within-grace", [r for r in rs if r["ev"] in ("case", "offer", "forward")]))
    # (f) our HTLC-success confirmed one block after the payer's timeout became minable
    rs = find(lambda rs: any(r["ev"] == "block" and any(c["kind"] == "htlc_success" and c["node"] == 1 for c in r["conf"]) for r in rs))
    if rs:
        i = next(j for j, r in enumerate(rs) if r["ev"] == "block" and any(c["kind"] == "htlc_success" and c["node"] == 1 for c in r["conf"]))
        eu = next(r for r in rs if r["ev"] == "offer")["eu"]
        # move the confirmation to block eu + 1
        tgt = next((j for j, r in enumerate(rs) if r["ev"] == "block" and r["h"] == eu + 1), None)
        if tgt is not None and tgt != i:
            c = rs[i]["conf"]
            rs[i]["conf"] = []
            rs[tgt]["conf"] = c
            muts.append(("success-after-timeout-minable", rs))
    # (g) a claim below the deadline that fails
    rs = find(lambda rs: has(rs, ev="claim", ok=True))
    if rs:
        i = next(j for j, r in enumerate(rs) if r["ev"] == "claim")
        rs[i]["ok"] = False
        muts.append(("claim-below-deadline-refused", rs[:i + 1]))
    # ---- dead downstream peer with a starved commitment transaction / restarts
    def early_fb(rs):
        """index of an early upstream fail-back (B's commitment of the downstream channel still unconfirmed)"""
        eu = next((r["eu"] for r in rs if r["ev"] == "offer"), None)
        if eu is None or any(r["ev"] == "block" and any(c["node"] == 1 and c["chan"] == "dn" for c in r["conf"]) for r in rs):
            return None
        if not has(rs, ev="bcast", node=1, kind="commitment", chan="dn") or has(rs, ev="restart"):
            return None
        return next((j for j, r in enumerate(rs) if r["ev"] == "resolve" and r["dir"] == "up" and r["kind"] == "fail"
                     and r["h"] + lgp == eu and j > 0 and rs[j - 1]["ev"] == "block"), None)
    # (j) the early fail-back one block before incoming expiry - LGP
    rs = find(lambda rs: early_fb(rs) is not None)
    if rs:
        i = early_fb(rs)
        rs[i]["h"] -= 1
        rs[i - 1], rs[i] = rs[i], rs[i - 1]
        muts.append(("early-fail-back-one-block-early", rs))
    # (k) ... one block late
    rs = find(lambda rs: early_fb(rs) is not None)
    if rs:
        i = early_fb(rs)
        j = next((jj for jj in range(i + 1, len(rs)) if rs[jj]["ev"] == "block"), None)
        if j is not None:
            r = rs.pop(i)
            r["h"] += 1
            rs.insert(j, r)                      # (after the pop the block is at j - 1)
            muts.append(("early-fail-back-one-block-late", rs))
    # (l) ... never (the upstream HTLC is left to expire)
    rs = find(lambda rs: early_fb(rs) is not None)
    if rs:
        i = early_fb(rs)
        rs.pop(i)
        muts.append(("early-fail-back-missing", rs))
    # (m) a restarted B fails the upstream HTLC back at startup, before the on-chain resolution is buried
    def restart_fb(rs):
        i = next((j for j, r in enumerate(rs) if r["ev"] == "restart"), None)
        f = next((j for j, r in enumerate(rs) if r["ev"] == "resolve" and r["dir"] == "up" and r["kind"] == "fail"), None)
        if i is None or f is None or f < i or not any(r["ev"] == "block" for r in rs[i:f]):
            return None
        g = [r["h"] for r in rs[:i] if r["ev"] == "block" and any(
            c["node"] == 1 and c["chan"] == "dn" and ((c["kind"] == "commitment" and not c["htlc"]) or c["kind"] == "htlc_timeout")
            for c in r["conf"])]
        return (i, f) if g else None
    rs = find(lambda rs: restart_fb(rs) is not None)
    if rs:
        i, f = restart_fb(rs)
        r = rs.pop(f)
        r["h"] = rs[i]["h"]
        rs.insert(i + 1, r)
        muts.append(("fail-back-at-restart-before-burial", rs))
    # (n) the commitment that confirmed is claimed to carry the HTLC although the node treated it as resolved
    #     by that confirmation (fail-back ARD - 1 blocks later, no HTLC-timeout confirmed)
    rs = find(lambda rs: any(r["ev"] == "block" and any(c["node"] == 1 and c["chan"] == "dn" and c["kind"] == "commitment"
                                                        and not c["htlc"] for c in r["conf"]) for r in rs)
              and any(r["ev"] == "resolve" and r["dir"] == "up" and r["kind"] == "fail" and r["reason"] == "OnChainTimeout"
                      and r["h"] + lgp < next(o["eu"] for o in rs if o["ev"] == "offer") for r in rs))
    if rs:
        for r in rs:
            if r["ev"] == "block":
                for c in r["conf"]:
                    if c["kind"] == "commitment":
                        c["htlc"] = True
        muts.append(("htlc-output-present-fail-back-without-timeout", rs))
    # (o) B sends splice_locked on the holding-cell give-up block and forgets to give the waiting HTLC back:
    #     the fail-back is removed, the blocks go on until A's HTLC is within LGP of its expiry
    def cell_on_co(rs):
        if not any(r["ev"] == "case" and r.get("co") and r["dn"] == "cell" for r in rs):
            return None
        hs = {r["h"] for r in rs if r["ev"] == "co" and r["what"] == "splice_locked"}
        return next((j for j, r in enumerate(rs) if r["ev"] == "resolve" and r["dir"] == "up" and r["kind"] == "fail"
                     and r["reason"] == "CLTVExpiryTooSoon" and r["h"] in hs), None)
    rs = find(lambda rs: cell_on_co(rs) is not None)
    if rs:
        i = cell_on_co(rs)
        eu = next(r for r in rs if r["ev"] == "offer")["eu"]
        keep = [r for r in rs[:i] if r["ev"] != "end"]
        hh = rs[i]["h"]
        while hh < eu - lgp + 1:
            hh += 1
            keep.append({"ev": "block", "h": hh, "conf": [], "run": rs[0]["run"]})
        muts.append(("holding-cell-give-up-missing-on-splice-locked-block", keep))
    # (p) a row of empty blocks recorded with the wrong height; (q) other per-block work recorded on another block
    rs = find(lambda rs: any(r["ev"] == "block" for r in rs))
    if rs:
        i = next(j for j, r in enumerate(rs) if r["ev"] == "block")
        rs[i] = {"ev": "blocks", "h": rs[i]["h"] + 1, "n": 1, "run": rs[i]["run"]}
        muts.append(("blocks-record-height-mismatch", rs[:i + 1]))
    rs = find(lambda rs: any(r["ev"] == "co" for r in rs))
    if rs:
        i = next(j for j, r in enumerate(rs) if r["ev"] == "co")
        rs[i]["h"] += 1
        muts.append(("other-work-on-another-block", rs[:i + 1]))
    rejected = 0
    names = []
    for name, m in muts:
        p = os.path.join(wd, "selftest-%s.ndjson" % name)
        with open(p, "w") as f:
            for r in m:
                f.write(json.dumps(r) + "\n")
        _, fails = vlib.validate_trace(PID, "DeadlinesTrace", cfg, p, max_failures=1, tag="st")
        if fails:
            rejected += 1
            names.append("%s:%s" % (name, fails[0]["inv"] or "rejected"))
        else:
            names.append("%s:ACCEPTED" % name)
    need = ("forward-below-min-delta-low-config", "forward-outgoing-within-grace", "forward-delta-short",
            "early-fail-back-one-block-early", "early-fail-back-one-block-late", "early-fail-back-missing",
            "fail-back-at-restart-before-burial", "htlc-output-present-fail-back-without-timeout",
            "holding-cell-give-up-missing-on-splice-locked-block")
    missing = [n for n in need if n not in [m[0] for m in muts]]
    if missing:
        raise vlib.ToolError("binding self-test: no accepted run to build the mutation(s) %s from" % missing)
    if rejected != len(muts) or len(muts) < 5:
        raise vlib.ToolError("binding self-test: %d of %d corrupted traces rejected (%s)" % (rejected, len(muts), names))
    return {"mutations": len(muts), "rejected": rejected, "detail": names}


def run(tier, seed):
    t0 = time.time()
    wd = vlib.workdir(PID)
    thorough = tier == "thorough"
    rng = random.Random(seed)
    bins = vlib.build(["consts", "deadlines"])
    k = read_consts(bins["consts"])
    windows = write_cfgs(k, thorough)
    vlib.log("[consts] %s" % k)

    # ---- 1. design model instantiated from the code's constants
    cex = os.path.join(wd, "cex.json")
    if os.path.exists(cex):
        os.remove(cex)
    r = vlib.tlc_mc(PID, "DeadlinesMC", "DeadlinesMC_gen.cfg", workers=12, timeout=2400 if thorough else 600,
                    extra=["-dumpTrace", "json", cex])
    model_violation = r["violated"]
    scripts = vlib.tlc_printed(r["out"], "SCRIPT")
    vlib.log("[mc] %d distinct states, %d generated, depth %d, %d finished scenarios, %.0fs%s" %
             (r["distinct"], r["states"], r["depth"], len(scripts), r["wall_s"],
              (", MODEL VIOLATES %s" % model_violation) if model_violation else ""))
    if model_violation == "TypeOK" or model_violation == "EmitScripts":
        raise vlib.ToolError("design model broken: %s" % model_violation)
    cex_script, cex_state = (None, None)
    if model_violation:
        cex_script, cex_state = cex_to_script(cex, k)
        vlib.log("[mc] counterexample state: %s" % cex_state)
        vlib.log("[mc] replaying it on real nodes: %s" % cex_script)
    else:
        vlib.require_coverage(r, ["MShow", "MRefuseFinal", "MForward", "MRefuseForward", "MAutoFail", "MFulfilUp",
                                  "MGoOnChainDn", "MGoOnChainUp", "MFailUpBuried", "MFailUpDn", "MClaim", "MClaimLate",
                                  "MDnFulfil", "MDnFail", "MNewBlock", "MQueue", "MCellTimeout", "MCellRelease",
                                  "MCellReleaseLate", "MDnFulfilCell", "MDnFailCell", "MFailUpClosed", "MRestart"],
                              "DeadlinesMC")
    if not scripts:
        raise vlib.ToolError("the model produced no scenarios")
    # ---- 1a. spec mutant: the splice exit of the per-block routine drops the HTLCs it timed out of the holding
    #      cell -- with other per-block work laid on deadline blocks TLC must find the lost upstream HTLC
    rm = vlib.tlc_mc(PID, "DeadlinesMC", "DeadlinesMC_mut_gen.cfg", workers=12, timeout=600, coverage=False)
    vlib.log("[mc-mutant] splice exit drops the timed-out HTLCs: %s after %d states, %.0fs" %
             (rm["violated"] or "NOT REFUTED", rm["distinct"], rm["wall_s"]))
    # (the HTLC that was not given back is either passed on too late when the peer answers -- NeverShowOrForwardTooSoon
    # -- or still unresolved LGP blocks before the incoming expiry -- BoundedLoss)
    if rm["violated"] not in ("BoundedLoss", "NeverShowOrForwardTooSoon"):
        raise vlib.ToolError("spec mutant (splice exit drops the timed-out holding-cell HTLCs) not refuted by TLC: %s" %
                             rm["violated"])
    # ---- 1b. thorough: the same races for unbounded heights (inductive invariant, Apalache)
    ap = None
    if thorough:
        obl, failed = apalache(wd, k)
        ap = {"obligations": len(obl), "discharged": len(obl) - len(failed), "detail": obl}
        vlib.log("[apalache] %d obligations, %d as expected %s" % (len(obl), len(obl) - len(failed), failed or ""))
        if failed and not model_violation:
            raise vlib.ToolError("apalache: obligations not discharged although the bounded model holds: %s" % failed)
    cheap, late, heavy, nclasses, nlate, coruns, nco = pick_scripts(scripts, k, rng, 2500 if thorough else 300,
                                                                    6000 if thorough else 1600,
                                                                    8000 if thorough else 1500)
    sweep = sweep_scripts(k, rng, 1500 if thorough else 300) + sweep_deadpeer(k, rng, 400 if thorough else 80)
    conv = ([cex_script] if cex_script else []) + cheap + late + heavy + coruns + sweep
    n_model_runs = len(conv) - len(sweep)
    spath = os.path.join(wd, "scripts.ndjson")
    with open(spath, "w") as f:
        for s in conv:
            f.write(json.dumps(s) + "\n")

    # ---- 2. the same offsets on real nodes
    tpath = os.path.join(wd, "trace.ndjson")
    te = time.time()
    summ = run_engine(bins["deadlines"], wd, conv, tpath)
    summ["wall_s"] = round(time.time() - te, 1)
    vlib.log("[deadlines] %s (decided at once %d, late off-chain answers %d of %d, on-chain %d runs over %d classes, "
             "other per-block work next to a deadline %d runs over %d classes)" %
             (summ, len(cheap), len(late), nlate, len(heavy), nclasses, len(coruns), nco))
    if summ["setup_failures"] or summ["skipped"] * 10 > summ["runs"]:
        raise vlib.ToolError("engine could not set up %d / skipped %d of %d scenarios" %
                             (summ["setup_failures"], summ["skipped"], summ["runs"]))
    # outcome table per (role, offset) and the vacuity guards: both sides of every boundary were seen
    stats = {"shown": 0, "refused_final": 0, "forwarded": 0, "refused_fwd": 0, "go_onchain_dn": 0, "go_onchain_up": 0,
             "fail_after_burial": 0, "claims_ok": 0, "claims_refused": 0, "autofail": 0, "c_claim_onchain": 0,
             "success_confirmed": 0, "holding_cell_timeout": 0, "holding_cell_release": 0,
             # acceptance probes: B configured below the minimum forwards (hop delta >= MIN) / refuses a hop
             # delta that satisfies its configuration but not the minimum; outgoing expiry too close
             "fwd_configured_below_min": 0, "refused_hop_between_configured_and_min": 0,
             "refused_outgoing_too_soon": 0, "fwd_outgoing_just_above_grace": 0, "decided_after_waiting_blocks": 0,
             # dead downstream peer, B's commitment transaction starved: the early upstream fail-back (exactly
             # at incoming expiry - LGP) while that transaction is unconfirmed / confirmed but not buried; of
             # an HTLC that exists only in the commitment signed for C; restarts of B
             "early_failback_close_unconfirmed": 0, "early_failback_close_unburied": 0,
             "early_failback_htlc_only_in_peers_commitment": 0, "restarts": 0,
             "restart_between_onchain_resolution_and_burial": 0, "fail_after_burial_after_restart": 0,
             "fail_after_burial_no_htlc_output": 0, "dust_htlc_forwarded": 0}
    table = {}
    cur = None
    for ln in open(tpath):
        e = json.loads(ln)
        ev = e["ev"]
        if ev == "case":
            cur = {"role": e["role"], "h": e["h"], "decided": False, "dn": e["dn"], "d": e["d"],
                   "model": e["run"] <= n_model_runs, "wait": e.get("wait", 0), "dbcast": None, "dconf": None,
                   "dhtlc": None, "gone": None, "restart": None}
        elif ev == "offer":
            cur["off"] = (e["eu"] - e["h"], (e["ed"] - e["h"]) if e["ed"] else 0)
            cur["hop"] = e["eu"] - e["ed"]
            cur["eu"] = e["eu"]
            cur["h"] = e["h"]                         # the height at which B decides
            if cur["wait"]:
                stats["decided_after_waiting_blocks"] += 1
        elif ev == "show":
            stats["shown"] += 1
            cur["decided"] = True
            table.setdefault("final eu-h=%d" % cur["off"][0], set()).add("claimable")
        elif ev == "forward":
            stats["forwarded"] += 1
            cur["decided"] = True
            if cur["d"] < k["MIND"]:
                stats["fwd_configured_below_min"] += 1
            if e["ed"] - e["h"] == k["LGP"] + 2:
                stats["fwd_outgoing_just_above_grace"] += 1
            if cur["dn"] == "dust":
                stats["dust_htlc_forwarded"] += 1
            if cur["dn"] == "cell":
                if e["h"] > cur["h"]:
                    stats["holding_cell_release"] += 1
            elif cur["model"]:
                table.setdefault("fwd d=%d eu-h=%d ed-h=%d" % ((cur["d"],) + cur["off"]), set()).add("forwarded")
        elif ev == "resolve" and e["dir"] == "up" and e["kind"] == "fail":
            if not cur["decided"] and cur["dn"] == "cell" and e["h"] > cur["h"]:
                cur["decided"] = True
                stats["holding_cell_timeout"] += 1
            elif not cur["decided"]:
                cur["decided"] = True
                if cur["role"] == "final":
                    stats["refused_final"] += 1
                    table.setdefault("final eu-h=%d" % cur["off"][0], set()).add(e["reason"])
                else:
                    stats["refused_fwd"] += 1
                    if cur["d"] <= cur["hop"] < k["MIND"]:
                        stats["refused_hop_between_configured_and_min"] += 1
                    if e["reason"] == "OutgoingCLTVTooSoon":
                        stats["refused_outgoing_too_soon"] += 1
                    if cur["model"]:
                        table.setdefault("fwd d=%d eu-h=%d ed-h=%d" % ((cur["d"],) + cur["off"]), set()).add(e["reason"])
            elif e["reason"] == "OnChainTimeout" and cur["gone"] is not None and e["h"] >= cur["gone"] + k["ARD"] - 1:
                stats["fail_after_burial"] += 1
                if cur["restart"] is not None:
                    stats["fail_after_burial_after_restart"] += 1
                if cur["dhtlc"] is False:
                    stats["fail_after_burial_no_htlc_output"] += 1
            elif e["reason"] == "OnChainTimeout" and cur["dbcast"] is not None and e["h"] + k["LGP"] == cur["eu"]:
                stats["early_failback_close_unconfirmed" if cur["dconf"] is None else "early_failback_close_unburied"] += 1
                if cur["dn"] == "early" and cur["dhtlc"] is False:
                    stats["early_failback_htlc_only_in_peers_commitment"] += 1
            elif e["reason"] == "PaymentClaimBuffer":
                stats["autofail"] += 1
        elif ev == "bcast" and e["node"] == 1 and e["kind"] == "commitment":
            stats["go_onchain_dn" if e["chan"] == "dn" else "go_onchain_up"] += 1
            if e["chan"] == "dn" and cur["dbcast"] is None:
                cur["dbcast"], cur["dhtlc"] = e["h"], e["htlc"]
        elif ev == "restart":
            stats["restarts"] += 1
            cur["restart"] = e["h"]
            if cur["gone"] is not None and e["h"] < cur["gone"] + k["ARD"] - 1:
                stats["restart_between_onchain_resolution_and_burial"] += 1
        elif ev == "claim":
            stats["claims_ok" if e["ok"] else "claims_refused"] += 1
        elif ev == "block":
            for c in e["conf"]:
                if c["node"] == 1 and c["chan"] == "dn" and c["kind"] == "commitment":
                    cur["dconf"] = e["h"]
                    if not c["htlc"] and cur["gone"] is None:
                        cur["gone"] = e["h"]
                if c["node"] == 1 and c["chan"] == "dn" and c["kind"] == "htlc_timeout" and cur["gone"] is None:
                    cur["gone"] = e["h"]
                if c["kind"] == "htlc_success" and c["node"] == 2:
                    stats["c_claim_onchain"] += 1
                if c["kind"] == "htlc_success" and c["node"] == 1:
                    stats["success_confirmed"] += 1
    stats.update(co_stats(tpath))
    vlib.log("[deadlines] %s" % stats)

    # ---- 3. trace validation (the oracle)
    tv = time.time()
    total, fails = vlib.validate_trace(PID, "DeadlinesTrace", "DeadlinesTrace_gen.cfg", tpath, timeout=2400)
    vlib.log("[trace] %d records validated against DeadlinesTrace, %d rejected run(s), %.0fs" % (total, len(fails), time.time() - tv))
    nviol = 0
    for fl in fails:
        runid = fl["run"]
        script = conv[runid - 1] if runid and runid - 1 < len(conv) else None
        key = "panic" if fl["rec"].get("ev") == "panic" else None
        if vlib.report_violation(PID, "run%d" % runid, {
                "property": PID, "kind": fl["kind"], "invariant": fl["inv"],
                "first_unmatched_event": fl["rec"], "position_in_run": fl["pos_in_run"],
                "constants_from_code": k, "model_violation": model_violation,
                "replays_model_counterexample": bool(cex_script) and runid == 1,
                "script": script, "trace_of_run": [e for e in fl["run_events"] if e["ev"] != "block" or e["conf"]],
                "last_state": fl["last_state"],
                "how_to_replay": "harness/target/debug/deadlines --scripts <file with `script`> --out t.ndjson; "
                                 "tools/tv.sh DeadlinesTrace t.ndjson DeadlinesTrace_gen.cfg"}, key=key):
            nviol += 1
    # vacuity guard (only meaningful when every run was accepted): each kind of outcome was observed
    empty = [n for n, v in stats.items() if v == 0]
    if empty and not fails and not model_violation:
        raise vlib.ToolError("vacuity: never observed on the real nodes: %s" % empty)
    if model_violation and not nviol:
        # DESIGN 8: a design-level counterexample is not a violation of the code; it was replayed on real
        # nodes (run 1 of the trace) and every real run satisfied the property
        raise vlib.ToolError("with the code's constants %s the model loses a race (%s), but the replay on real nodes "
                             "showed no money at risk: the model needs correction (see %s)" %
                             (k, model_violation, os.path.join(wd, "tlc-DeadlinesMC_gen.out")))

    # ---- 4. binding self-test
    st = None
    if not fails:
        st = selftest(wd, tpath, "DeadlinesTrace_gen.cfg")
        vlib.log("[selftest] %s" % st)

    with open(tpath) as f:
        head = [json.loads(next(f)) for _ in range(8)]
    cov = {
        "states": r["distinct"], "transitions": r["states"],
        "traces_validated_against_impl": summ["runs"] - summ["skipped"],
        "samples": [conv[0], conv[n_model_runs // 2], conv[-1], {"trace_head": head}],
        "constants_from_code": k, "windows": windows, "model_violation": model_violation,
        "mc": {"distinct": r["distinct"], "generated": r["states"], "depth": r["depth"], "wall_s": round(r["wall_s"], 1),
               "action_coverage": {a: c for a, c in r["coverage"].items() if a.startswith("M")},
               "finished_scenarios": len(scripts)},
        "scenario_classes_needing_chain": nclasses, "runs_decided_at_once": len(cheap), "runs_late_offchain": len(late),
        "late_offchain_scenarios": nlate, "runs_onchain": len(heavy), "runs_random_acceptance_sweep": len(sweep),
        "runs_other_per_block_work_next_to_deadline": len(coruns), "classes_other_per_block_work": nco,
        "spec_mutant_splice_exit_drops_timed_out_htlcs": {"refuted_by": rm["violated"], "states": rm["distinct"],
                                                          "wall_s": round(rm["wall_s"], 1)},
        "events_validated": total, "impl_panics": summ["panics"], "observed": stats,
        "boundary_outcomes": {kk: sorted(v) for kk, v in sorted(table.items())},
        "apalache_unbounded_heights": ap, "binding_selftest": st, "exhaustive": False,
    }
    vlib.write_evidence(PID, tier, seed, "model_checking", cov, [
        "blocks reach the honest nodes one at a time and at the same time; a peer that is up to LGP blocks ahead is "
        "accounted for arithmetically (upstream resolution required at h + LGP < expiry)",
        "a broadcast transaction confirms within MAX_BLOCKS_FOR_CONF blocks of becoming minable (child after parent); "
        "the adversary's competing spend wins ties; beyond that bound (B's commitment transaction of the downstream "
        "channel starved: confirms late or never, downstream peer that never claims) only the upstream channel is "
        "judged: fail-back exactly at incoming expiry - LGP, upstream channel stays open",
        "restarts of B: clean stop (ChannelManager and every ChannelMonitor written at the same moment), once per "
        "scenario, upstream peer reconnects at once",
        "non-anchor channels (HTLC transactions broadcast by the monitor itself); one HTLC per scenario, no MPP",
        "no reorganisations (C07/C11 cover them); the upstream peer is responsive in dead-downstream scenarios",
        "other per-block work next to a deadline: one such duty per scenario, B initiates it (splice-out without wallet "
        "inputs / a second channel with the same peer) before the payment; dead-peer scenarios get it for one delta, "
        "no slack and a miner that is either quick or slow; no RBF of the splice, no splice negotiated while the HTLC waits",
    ], time.time() - t0, nviol)
    return nviol
