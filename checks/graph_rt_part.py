"""C12, network graph part: persisted graphs survive serialization whatever the size of their variable-length parts.

Engine `gossip --mode rtsweep` builds small real NetworkGraphs from really signed gossip messages accepted through the
public update_* entry points; one message class at a time (channel_announcement, channel_update in either / both
directions, node_announcement's excess address data / excess data, all of them together; plus seeded graphs in which
every part is present or absent with a length of its own) carries a trailing part the
library does not understand and stores verbatim, whose length sweeps EVERY value 0..=700 (thorough: 0..=1100, past the
1024-byte relay limit) plus the relay limit and the largest sizes the 65535-byte message limit allows.  So every
length-prefixed container of the graph's encoding (Option<..>, TLV records, length-prefixed TLV structs, vectors) is
written at every size around the codec's prefix-width boundary (0xfd; 0x10000 cannot be reached inside a stored
message).  Each graph is written, read back, compared with the library's == and written / read a second time; the engine
only records.  TLC validates the recorded trace against spec/GraphRtTrace.tla (the single oracle).

Contract of chan_common.run_check's extra_parts: part(pid, tier, seed, wd) -> (violations, coverage).
Stand-alone: python3 checks/graph_rt_part.py quick|thorough
"""
import json, os, sys, time

sys.path.insert(0, os.path.join(os.path.dirname(os.path.abspath(__file__)), "..", "lib"))
import vlib

MODULE, CFG = "GraphRtTrace", "GraphRtTrace.cfg"
GUARD_FIELDS = ("write_ok", "read_ok", "consumed", "equal", "rewrite_equal")


def selftest(pid, wd, good_lines):
    """Binding: the verdict is TLC's and depends on every recorded field the guard names.  A prefix of the accepted
    trace with ONE field of ONE record flipped (or one record replaced by a panic record) must be rejected, at that
    record."""
    head = [json.loads(x) for x in good_lines[:60]]
    muts = []
    for i, fld in enumerate(GUARD_FIELDS):
        m = json.loads(json.dumps(head))
        at = 7 + 9 * i
        m[at][fld] = False
        muts.append((fld, at, m))
    m = json.loads(json.dumps(head))
    m[50] = {"run": m[50]["run"], "ev": "panic", "what": m[50]["what"], "len": m[50]["len"]}
    muts.append(("panic-record", 50, m))
    rejected = 0
    for name, at, m in muts:
        p = os.path.join(wd, "graphrt-selftest-%s.ndjson" % name)
        with open(p, "w") as f:
            for r in m:
                f.write(json.dumps(r) + "\n")
        _, fails = vlib.validate_trace(pid, MODULE, CFG, p, max_failures=1, tag="grst")
        if fails and fails[0]["line"] == at + 1:
            rejected += 1
        else:
            vlib.log("[graph_rt selftest] corrupted trace %s: %s" % (name, "rejected at the wrong record" if fails else "ACCEPTED"))
    if rejected != len(muts):
        raise vlib.ToolError("graph_rt binding self-test: %d of %d corrupted traces rejected" % (rejected, len(muts)))
    return {"mutations": len(muts), "rejected": rejected, "kinds": [n for n, _, _ in muts]}


def part(pid, tier, seed, wd):
    t0 = time.time()
    bins = vlib.build(["gossip"])
    max_len = 1100 if tier == "thorough" else 700
    tpath = os.path.join(wd, "trace-graphrt.ndjson")
    nmixed = 3000 if tier == "thorough" else 400
    args = ["--mode", "rtsweep", "--max-len", max_len, "--seed", seed, "--random", nmixed, "--out", tpath]
    p = vlib.run_bin(bins["gossip"], args, timeout=900)
    summ = json.loads(p.stdout.strip().splitlines()[-1])
    with open(tpath) as f:
        lines = [ln for ln in f.read().splitlines() if ln.strip()]
    recs = [json.loads(x) for x in lines]
    # vacuity guards (tool errors, not verdicts): the sweep really is what the docstring says
    sweep = {}
    for r in recs:
        sweep.setdefault(r.get("what"), set()).add(r.get("len"))
    mixed = sweep.pop("mixed", set())
    for what, lens in sweep.items():
        if not set(range(0, max_len + 1)) <= lens:
            raise vlib.ToolError("graph_rt: sweep of %s is not contiguous" % what)
    if len(sweep) < 7 or summ.get("events") != len(recs) or len(mixed) < nmixed // 4:
        raise vlib.ToolError("graph_rt: incomplete sweep %s" % summ)
    not_accepted = sum(1 for r in recs if r.get("ev") == "rt_graph" and not r.get("accepted"))
    sizes = [r["bytes"] for r in recs if r.get("ev") == "rt_graph"]
    total, fails = vlib.validate_trace(pid, MODULE, CFG, tpath, timeout=900, max_failures=16, tag="graphrt")
    nviol = 0
    for fl in fails:
        ev = fl["rec"]
        vlib.log("[graph_rt reject] record %d: what=%s len=%s read_ok=%s equal=%s rewrite_equal=%s err=%s" %
                 (fl["line"], ev.get("what"), ev.get("len"), ev.get("read_ok"), ev.get("equal"), ev.get("rewrite_equal"), ev.get("err")))
        if vlib.report_violation(pid, "graphrt-%s-len%s" % (ev.get("what"), ev.get("len")), {
                "property": pid, "part": "graph_rt", "kind": fl["kind"], "spec": "GraphRtTrace.tla (TRtGraph)",
                "first_unmatched_event": ev, "engine_args": args,
                "how_to_replay": "harness/target/debug/gossip <engine_args> ; tools/tv.sh GraphRtTrace <the --out file>"},
                key="graph-rt:%s:%s" % (ev.get("what"), ev.get("len"))):
            nviol += 1
    st = None
    if not fails:
        st = selftest(pid, wd, lines)
    cov = {"engine": "gossip --mode rtsweep", "spec": "GraphRtTrace.tla", "round_trips": len(recs), "events_validated": total,
           "message_classes": sorted(sweep), "lengths_per_class": len(next(iter(sweep.values()))), "contiguous_sweep": [0, max_len], "seeded_mixed_graphs": nmixed,
           "graph_bytes_min_max": [min(sizes), max(sizes)], "messages_not_accepted": not_accepted,
           "panics": summ.get("panics"), "binding_selftest": st, "wall_s": round(time.time() - t0, 1)}
    vlib.log("[graph_rt] %d round trips (%d classes x %d lengths), %d rejected, selftest %s, %.0fs" %
             (len(recs), len(sweep), cov["lengths_per_class"], len(fails), st, time.time() - t0))
    return nviol, cov


# the name run_check's extra_parts list wants: ("graph_rt", graph_rt_part.part)
run = part

if __name__ == "__main__":
    tier = sys.argv[1] if len(sys.argv) > 1 else "quick"
    v, c = part("C12", tier, 1, vlib.workdir("C12-graphrt"))
    print(json.dumps(c, indent=1))
    sys.exit(1 if v else 0)
