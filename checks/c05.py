"""C05 -- revoked state is never used and state is never revoked early."""
import chan_common as cc
import counters_apalache

def run(tier, seed):
    return cc.run_check("C05", tier, seed,
        mc_cfgs=(["ChanMC_c05.cfg", "MonBroadcast:MonBroadcast.cfg"], ["ChanMC_c05.cfg", "ChanMC_c05t.cfg", "MonBroadcast:MonBroadcast.cfg"]),
        mutant_cfgs=("MonBroadcast:MonBroadcastMutant.cfg",),
        mc_actions_by_module={"MonBroadcast": ("UserBroadcast", "Handle", "Notice")},
        profiles=[("default", 2, 200), ("tamper", 2, 120), ("crash", 2, 80), ("asyncreest", 2, 120), ("async", 2, 40), ("default", 3, 40)],
        thorough_profiles=[("default", 2, 2000), ("tamper", 2, 1200), ("crash", 2, 1000), ("asyncreest", 2, 1500), ("async", 2, 800), ("default", 3, 400), ("crash", 3, 300)],
        families=[("asynccross", 250), ("inflight", 150), ("monbcast", 200), ("asyncsign", 200), ("tampercs", 150)],
        thorough_families=[("asynccross", 2500), ("inflight", 1500), ("monbcast", 1500), ("asyncsign", 1500), ("tampercs", 1500)],
        extra_parts=[("unbounded-counters (Apalache)", counters_apalache.run_part)],
        assumptions=cc.COMMON_ASSUMPTIONS + [
            "broadcast commitments are identified by txid (known from the monitor updates) and must not be older than the last revocation released; HTLC transactions built on them are covered by the on-chain checks"])
