"""C05 -- revoked state is never used and state is never revoked early."""
import chan_common as cc

def run(tier, seed):
    return cc.run_check("C05", tier, seed,
        mc_cfgs=(["ChanMC_c05.cfg"], ["ChanMC_c05.cfg", "ChanMC_c05t.cfg"]),
        profiles=[("default", 2, 250), ("async", 2, 100), ("default", 3, 60)],
        thorough_profiles=[("default", 2, 4000), ("async", 2, 1500), ("default", 3, 800), ("async", 3, 500)],
        assumptions=cc.COMMON_ASSUMPTIONS + [
            "force-close / broadcast paths are covered by the on-chain checks, not by this run"])
