"""C14 -- onions deliver exactly each hop's instructions; failures name the right hop.

1. TLC model-checks spec/OnionMC.tla: a symbolic packet (segments, shift-left / re-pad, next-hmac-zero
   = final) and a symbolic failure / fulfil packet (encryption layers, attribution array of 20 entries)
   refine the observable specification spec/Onion.tla for every enumerated route (path lengths 1..27,
   byte-length classes of every leg's amount and expiry, recipient-field sizes including the ones that
   fill hop_data exactly / one byte less / one byte more, blinded tails) and every corruption field x
   position, failing hop x failure form, and fulfil.  A failure form is a code class with arbitrary
   data, or a BOLT 4 message with data: code x magnitudes of its fixed fields (expiries / heights
   around multiples of 2^16, amounts with high bytes set, flags) x channel_update length x
   well-formed / truncated / overrunning / trailing.  What the sender must conclude (node or channel
   blamed, which channel, permanent or not) is part of Onion.tla.  Size arithmetic (sum of payloads +
   hmacs <= 1300) is part of the model, so TLC decides which routes fit.
2. Every terminal state of the model is printed as a driver script; the Rust engine `onion` runs the
   scripts (several seeds each) and seeded random scripts against the real create_payment_onion /
   peel_payment_onion / failure-packet code and records what each step returned.
3. TLC validates the recorded trace against spec/Onion.tla (OnionTrace.tla).  That is the verdict.
"""
import json, os, random, time, collections
from concurrent.futures import ThreadPoolExecutor
import vlib

PID = "C14"
# actions of OnionMC whose occurrence is derived from the printed scripts (vacuity guard)
ACTIONS = ["MBuildSize", "MBuildOps", "MCorrupt", "MPeel", "MFailAt", "MWrap", "MAttribute",
           "MFulfill", "MFulfillWrap", "MFulfillAttribute"]


def cfg_constants(cfg):
    out = {}
    for ln in open(os.path.join(vlib.SPEC, cfg)):
        ln = ln.strip()
        for k in ("EncFwd", "EncRecv"):
            if ln.startswith(k + " ="):
                out[k] = int(ln.split("=")[1])
    return out


def shape(s):
    """the non-trivial part of a script: everything but the seeded values"""
    return (s["n"], s["b"], tuple((l["a"], l["c"]) for l in s["legs"]), (s["fin"]["a"], s["fin"]["c"]),
            s["final"]["secret"], s["final"]["tlen"], s["final"]["meta"],
            tuple((c["tl"], c["len"]) for c in s["final"]["customs"]), s["final"]["keysend"],
            s["op"]["kind"], s["op"]["at"], s["op"]["field"], s["op"]["code"], s["op"]["dlen"],
            s["op"].get("codeval", -1), tuple(s["op"].get("head", [])), s["op"].get("tail", 0))


def sample_scripts(scripts, cap, rng):
    """keep every (op kind, field/code, n) stratum represented when capping"""
    if len(scripts) <= cap:
        return scripts
    strata = collections.defaultdict(list)
    for s in scripts:
        o = s["op"]
        strata[(o["kind"], o["field"], o["code"], o.get("codeval", -1), tuple(o.get("head", [])),
                o.get("tail", 0), s["n"], s["b"] > 0)].append(s)
    keys = sorted(strata.keys(), key=str)
    rng.shuffle(keys)   # more strata than the cap: no stratum is favoured
    for k in keys:
        rng.shuffle(strata[k])
    out = []
    i = 0
    while len(out) < cap:
        progressed = False
        for k in keys:
            if i < len(strata[k]):
                out.append(strata[k][i])
                progressed = True
                if len(out) >= cap:
                    break
        if not progressed:
            break
        i += 1
    return out


def split_runs(lines, parts):
    """split an NDJSON trace into `parts` chunks at `reset` boundaries"""
    starts = [i for i, ln in enumerate(lines) if '"ev":"reset"' in ln]
    if not starts:
        return [lines]
    per = max(1, len(starts) // parts)
    chunks = []
    for p in range(parts):
        a = starts[p * per] if p * per < len(starts) else None
        if a is None:
            break
        b = starts[(p + 1) * per] if (p + 1 < parts and (p + 1) * per < len(starts)) else len(lines)
        chunks.append(lines[a:b])
    return chunks


def validate_parallel(wd, tpath, parts, timeout):
    with open(tpath) as f:
        lines = [ln for ln in f.read().splitlines() if ln.strip()]
    chunks = split_runs(lines, parts)
    paths = []
    for i, ch in enumerate(chunks):
        p = os.path.join(wd, "trace-part%d.ndjson" % i)
        with open(p, "w") as f:
            f.write("\n".join(ch) + "\n")
        paths.append(p)

    def one(ip):
        i, p = ip
        return vlib.validate_trace(PID, "OnionTrace", "OnionTrace.cfg", p, timeout=timeout, max_failures=4,
                                   tag="p%d_" % i)
    with ThreadPoolExecutor(max_workers=len(paths)) as ex:
        res = list(ex.map(one, enumerate(paths)))
    total = sum(r[0] for r in res)
    fails = [f for r in res for f in r[1]]
    return total, fails


def selftest(wd, lines):
    """Binding self-test: corruptions of an accepted trace must each be rejected."""
    recs = [json.loads(x) for x in lines]
    muts = []

    def clone():
        return [json.loads(json.dumps(x)) for x in recs]
    # (a) a forwarding hop reports the *next* hop's expiry
    for k, r in enumerate(recs):
        if r["ev"] == "peel" and r["res"] == "forward" and recs[k + 1]["ev"] == "peel" \
                and recs[k + 1]["res"] == "forward" and recs[k + 1]["cltv"] != r["cltv"]:
            m = clone(); m[k]["cltv"] = recs[k + 1]["cltv"]; muts.append(("fwd-cltv-of-next-hop", m)); break
    # (b) next channel id off by one bit
    for k, r in enumerate(recs):
        if r["ev"] == "peel" and r["res"] == "forward":
            m = clone(); m[k]["scid"][0] ^= 1; muts.append(("fwd-scid-bit", m)); break
    # (c) the next packet is one byte short
    for k, r in enumerate(recs):
        if r["ev"] == "peel" and r["res"] == "forward":
            m = clone(); m[k]["pkt_len"] -= 1; muts.append(("next-packet-short", m)); break
    # (d) a corrupted packet is accepted by the next hop (reject turned into the forward the route asks for)
    for k, r in enumerate(recs):
        if r["ev"] == "corrupt" and recs[k + 1]["ev"] == "peel" and recs[k + 1]["res"] == "reject":
            b = [x for x in recs[:k] if x["ev"] == "build"][-1]
            i = recs[k + 1]["hop"]
            if i < len(b["hops"]):
                h = b["hops"][i - 1]
                m = clone()
                m[k + 1].update({"res": "forward", "amt": h["amt"], "cltv": h["cltv"], "scid": h["scid"],
                                 "pkt_len": 1366})
                muts.append(("corruption-accepted", m)); break
    # (e) an intermediate hop believes it is the recipient
    for k, r in enumerate(recs):
        if r["ev"] == "peel" and r["res"] == "forward":
            m = clone(); m[k]["res"] = "receive"; muts.append(("intermediate-receives", m)); break
    # (f) recipient loses its payment secret
    for k, r in enumerate(recs):
        if r["ev"] == "peel" and r["res"] == "receive" and r["secret"]:
            m = clone(); m[k]["secret"] = ""; muts.append(("secret-dropped", m)); break
    # (g) failure attributed to the neighbour / hold time missing / code changed
    for k, r in enumerate(recs):
        if r["ev"] == "attr" and r["nu_kind"] == "node" and len(r["hold_times"]) >= 2:
            m = clone(); m[k]["nu_node"] += 1; muts.append(("blame-next-node", m))
            m = clone(); m[k]["hold_times"] = m[k]["hold_times"][:-1]; muts.append(("hold-time-dropped", m))
            m = clone(); m[k]["code"] ^= 1; muts.append(("code-changed", m))
            m = clone(); m[k]["hold_times"][0] += 1; muts.append(("hold-time-value", m))
            break
    # (g2) what the sender concludes: blamed channel / kind of update / permanence
    for k, r in enumerate(recs):
        if r["ev"] == "attr" and recs[k - 1]["ev"] in ("fail", "wrap") and r["nu_kind"] == "channel" \
                and not r["nu_perm"] and r["nu_chan"] >= 2 and r["chan"] == r["nu_chan"]:
            # UPDATE failure of an intermediate hop: the channel after it is blamed, temporarily
            m = clone(); m[k]["nu_chan"] -= 1; m[k]["chan"] -= 1
            muts.append(("blamed-channel-swapped-for-inbound", m))
            m = clone(); m[k]["chan"] -= 1; muts.append(("retry-scid-swapped-for-inbound", m))
            m = clone(); m[k]["nu_perm"] = True; muts.append(("temporary-channel-failure-made-permanent", m))
            m = clone(); m[k].update({"nu_kind": "node", "nu_node": r["nu_chan"] - 1, "nu_chan": 0, "nu_perm": True,
                                      "chan": r["nu_chan"] - 1})
            muts.append(("channel-failure-turned-node-failure", m))
            break
    for k, r in enumerate(recs):
        if r["ev"] == "attr" and r["nu_kind"] == "channel" and r["nu_perm"] and not r["perm"]:
            m = clone(); m[k]["nu_perm"] = False; muts.append(("permanent-channel-failure-made-temporary", m))
            break
    for k, r in enumerate(recs):
        if r["ev"] == "attr" and r["nu_kind"] == "node" and (r["code"] & 0x2000):
            m = clone(); m[k]["nu_perm"] = not r["nu_perm"]; muts.append(("node-failure-permanence-flipped", m))
            break
    for k, r in enumerate(recs):
        if r["ev"] == "attr" and r["perm"]:
            m = clone(); m[k]["perm"] = False; muts.append(("recipient-permanent-failure-not-final", m))
            break
    # (h) a route that fits is refused
    for k, r in enumerate(recs):
        if r["ev"] == "build" and r["ok"] and recs[k + 1]["ev"] == "peel":
            j = k + 1
            while j < len(recs) and recs[j]["ev"] != "reset":
                j += 1
            m = [json.loads(json.dumps(x)) for x in recs[:k + 1] + recs[j:]]
            m[k]["ok"] = False
            muts.append(("fitting-route-refused", m)); break
    # (i) fulfil hold times shifted by one hop
    for k, r in enumerate(recs):
        if r["ev"] == "fattr" and len(r["hold_times"]) >= 2 and r["hold_times"][0] != r["hold_times"][1]:
            m = clone(); m[k]["hold_times"] = m[k]["hold_times"][1:] + m[k]["hold_times"][:1]
            muts.append(("fulfil-holds-shifted", m)); break
    def one(nm):
        name, m = nm
        p = os.path.join(wd, "selftest-%s.ndjson" % name)
        with open(p, "w") as f:
            for r in m:
                f.write(json.dumps(r) + "\n")
        _, fails = vlib.validate_trace(PID, "OnionTrace", "OnionTrace.cfg", p, max_failures=1,
                                       tag="st-" + name)
        return name, bool(fails)
    with ThreadPoolExecutor(max_workers=6) as ex:
        res = list(ex.map(one, muts))
    rejected = sum(1 for _, ok in res if ok)
    names = [n for n, ok in res if not ok]
    if rejected != len(muts) or len(muts) < 19:
        raise vlib.ToolError("binding self-test: %d of %d corrupted traces rejected (accepted: %s)"
                             % (rejected, len(muts), names))
    return {"mutations": len(muts), "rejected": rejected}


def run(tier, seed):
    t0 = time.time()
    wd = vlib.workdir(PID)
    bins = vlib.build(["onion"])
    thorough = tier == "thorough"
    rng = random.Random(seed)

    # ---- 0. the model's blinded-payload size constants must be the ones the library produces
    cfg = "OnionMCthorough.cfg" if thorough else "OnionMC.cfg"
    p = vlib.run_bin(bins["onion"], ["--probe", "--seed", seed])
    probe = json.loads(p.stdout.strip().splitlines()[-1])
    cc = cfg_constants(cfg)
    if probe["enc_fwd"] != cc.get("EncFwd") or probe["enc_recv"] != cc.get("EncRecv"):
        raise vlib.ToolError("EncFwd/EncRecv in %s (%s) differ from the library's blinded payload sizes %s"
                             % (cfg, cc, probe))

    # ---- 1. design check + behaviour generation
    # -coverage roughly doubles TLC's run time here: action coverage is derived from the
    # printed scripts instead (a script is printed only in a terminal state, reachable only through
    # the actions it names)
    r = vlib.tlc_mc(PID, "OnionMC", cfg, workers=12, timeout=3000 if thorough else 600, coverage=False)
    if r["violated"]:
        raise vlib.ToolError("design model violates %s in %s (spec needs correction)" % (r["violated"], cfg))
    scripts = vlib.tlc_printed(r["out"], "SCRIPT")
    def cnt(pred):
        return sum(1 for s in scripts if pred(s))
    r["coverage"] = {
        "MBuildSize": cnt(lambda s: s["op"]["kind"] == "deliver"),
        "MBuildOps": cnt(lambda s: s["op"]["kind"] != "deliver"),
        "MPeel": cnt(lambda s: s["n"] > 1),
        "MCorrupt": cnt(lambda s: s["op"]["kind"] == "corrupt"),
        "MFailAt": cnt(lambda s: s["op"]["kind"] == "fail"),
        "MWrap": cnt(lambda s: s["op"]["kind"] == "fail" and s["op"]["at"] > 1),
        "MAttribute": cnt(lambda s: s["op"]["kind"] == "fail"),
        "MFulfill": cnt(lambda s: s["op"]["kind"] == "fulfill"),
        "MFulfillWrap": cnt(lambda s: s["op"]["kind"] == "fulfill" and s["n"] > 1),
        "MFulfillAttribute": cnt(lambda s: s["op"]["kind"] == "fulfill"),
    }
    vlib.require_coverage(r, ACTIONS, cfg + " (from scripts)")
    vlib.log("[mc] %s: %d distinct states, %d generated, depth %d, %d scripts, %.0fs" %
             (cfg, r["distinct"], r["states"], r["depth"], len(scripts), r["wall_s"]))
    r.pop("out")
    if len(scripts) < 1000:
        raise vlib.ToolError("vacuity: only %d scripts from the model" % len(scripts))
    kinds = collections.Counter(s["op"]["kind"] for s in scripts)
    for k in ("deliver", "corrupt", "fail", "fulfill"):
        if kinds[k] == 0:
            raise vlib.ToolError("vacuity: no %s script" % k)
    nscripts_total = len(scripts)
    cap = 60000 if thorough else 10000
    scripts = sample_scripts(scripts, cap, rng)
    spath = os.path.join(wd, "scripts.ndjson")
    with open(spath, "w") as f:
        for s in scripts:
            f.write(json.dumps(s) + "\n")

    # ---- 2. run the real code
    nrand = 40000 if thorough else 3000
    reps = 1
    tpath = os.path.join(wd, "trace.ndjson")
    p = vlib.run_bin(bins["onion"], ["--scripts", spath, "--random", nrand, "--seed", seed, "--reps", reps,
                                     "--out", tpath], timeout=3000)
    summ = json.loads(p.stdout.strip().splitlines()[-1])
    vlib.log("[onion] %s" % summ)
    # ---- 3. trace validation (the oracle)
    total, fails = validate_parallel(wd, tpath, 6, 2400 if thorough else 600)
    # map run ids to scripts
    resets = {}
    executed = []
    with open(tpath) as f:
        cur = None
        for ln in f:
            if '"ev":"reset"' in ln:
                cur = json.loads(ln)
                resets[cur["run"]] = cur
            elif '"ev":"build"' in ln and cur is not None:
                executed.append(shape(cur["script"]))
    nviol = 0
    for fl in fails:
        rs = resets.get(fl["run"], {})
        key = "panic" if fl["rec"].get("ev") == "panic" else None
        if vlib.report_violation(PID, "run%s" % fl["run"], {
                "property": PID, "kind": fl["kind"], "invariant": fl["inv"],
                "first_unmatched_event": fl["rec"], "position_in_run": fl["pos_in_run"],
                "script": rs.get("script"), "script_index": rs.get("idx"), "rep": rs.get("rep"), "seed": seed,
                "trace_of_run": fl["run_events"], "last_state": fl["last_state"],
                "run_seed": rs.get("rseed"),
                "how_to_replay": "write `script` as one line into s.ndjson; harness/target/debug/onion --scripts "
                                 "s.ndjson --run-seed <run_seed> --out t.ndjson reproduces trace_of_run; "
                                 "cd spec && TRACE=$PWD/../t.ndjson java -cp <tla2tools.jar:CommunityModules-deps.jar> "
                                 "tlc2.TLC -config OnionTrace.cfg OnionTrace.tla"}, key=key):
            nviol += 1

    # ---- 3b. vacuity guards on the driver (only meaningful when the implementation behaved: a broken
    # implementation makes packets stop early, which is a violation above, not a driver problem)
    if not fails:
        nruns = summ["runs"] + summ["skipped"]
        if summ["skipped"] * 20 > nruns:
            raise vlib.ToolError("vacuity: %d of %d runs skipped by the driver" % (summ["skipped"], nruns))
        for k in ("builds_ok", "builds_err", "corrupts", "fails", "fulfills"):
            if summ[k] == 0:
                raise vlib.ToolError("vacuity: engine counter %s is 0" % k)
        if summ["peels"] < 5 * summ["builds_ok"] // 2:
            raise vlib.ToolError("vacuity: packets hardly travel (%d peels for %d onions)"
                                 % (summ["peels"], summ["builds_ok"]))

        # every kind of conclusion of the sender occurred, and the data-carrying messages were decoded
        concl = collections.Counter()
        with_data = collections.Counter()
        with open(tpath) as f:
            prev_fail = None
            for ln in f:
                if '"ev":"fail"' in ln:
                    prev_fail = json.loads(ln)
                elif '"ev":"attr"' in ln:
                    a = json.loads(ln)
                    concl["%s/%s" % (a["nu_kind"], "perm" if a["nu_perm"] else "temp")] += 1
                    if prev_fail is not None and prev_fail["dlen"] > 0 and a["code"] in (
                            0x1007, 0x100b, 0x100c, 0x100d, 0x100e, 0x1014, 0x400f, 18, 19):
                        with_data[a["code"]] += 1
        for k in ("node/perm", "node/temp", "channel/perm", "channel/temp", "none/temp"):
            if concl[k] == 0:
                raise vlib.ToolError("vacuity: the sender never concluded %s (%s)" % (k, dict(concl)))
        for c in (0x1007, 0x100b, 0x100c, 0x100d, 0x100e, 0x1014, 0x400f, 18, 19):
            if with_data[c] < 3:
                raise vlib.ToolError("vacuity: failure code %#x with data decoded only %d times" % (c, with_data[c]))

    # ---- 4. binding self-test on the head of the accepted trace
    st = None
    if not fails:
        # a small accepted trace with a few runs of every kind
        runs, cur = [], []
        with open(tpath) as f:
            for ln in f:
                if '"ev":"reset"' in ln:
                    if cur:
                        runs.append(cur)
                    cur = []
                    if len(runs) >= 12000:
                        break
                cur.append(ln.rstrip("\n"))
        want = {"deliver": 4, "corrupt": 6, "fulfill": 4, "fail_node": 6, "fail_update": 4, "fail_perm": 3,
                "fail_final": 3}
        head = []
        for run_lines in runs:
            sc = json.loads(run_lines[0])["script"]
            k = sc["op"]["kind"]
            if sc["n"] < 3 or sc["b"] != 0 or len(run_lines) <= 3:
                continue
            if k == "fail":
                at, code, n = sc["op"]["at"], sc["op"]["code"], sc["n"]
                if code in ("node_temp", "node_perm") and at >= 2:
                    k = "fail_node"
                elif code == "update" and 2 <= at < n:
                    k = "fail_update"
                elif code == "perm" and 2 <= at < n:
                    k = "fail_perm"
                elif code in ("recipient", "node_perm", "perm") and at == n:
                    k = "fail_final"
                else:
                    continue
            if want.get(k, 0) > 0 and (k != "corrupt" or sc["op"]["at"] < sc["n"]):
                want[k] -= 1
                head += run_lines
        st = selftest(wd, head)
        vlib.log("[selftest] %s" % st)

    # ---- 5. the same statement on real networks: the attribution data of fulfils that travel through real
    # ChannelManagers (out of holding cells, across reconnections, behind monitor writes) reports every hop's hold time
    import chan_common
    net_viol, net_cov = chan_common.channet_part(
        PID, tier, seed, wd,
        profiles=[("default", 3, 150), ("async", 3, 100), ("nodisc", 3, 60)], families=[("badonion", 60)],
        thorough_profiles=[("default", 3, 1500), ("async", 3, 1000), ("asyncreest", 3, 400), ("nodisc", 3, 500)], thorough_families=[("badonion", 500)])
    if net_cov["path_success_events_judged"] < 50 and not net_viol and not nviol:
        raise vlib.ToolError("vacuity: only %d PaymentPathSuccessful events judged on real networks" % net_cov["path_success_events_judged"])
    nviol += net_viol

    samples = [scripts[0], scripts[len(scripts) // 3], scripts[2 * len(scripts) // 3]]
    with open(tpath) as f:
        hd = []
        for ln in f:
            r0 = json.loads(ln)
            if r0["ev"] == "build":
                r0["hops"] = r0["hops"][:2] + ["..."]
            hd.append(r0)
            if len(hd) >= 8:
                break
        samples.append({"trace_head": hd})
    if fails:
        concl, with_data = collections.Counter(), collections.Counter()
    cov = {
        "evaluations": summ["evaluations"],
        "distinct_nontrivial": vlib.distinct_count(executed),
        "rule": "distinct (path length, blinded hops, per-leg amount/expiry byte-length classes, recipient field "
                "sizes, operation kind, corruption field+position or failing hop+failure form: code class+data "
                "length, or exact code+fixed-field bytes+channel_update length) among the "
                "runs in which an onion build was attempted; an evaluation is one call of create_payment_onion, "
                "peel_payment_onion, build/wrap/decode of a failure packet or fulfil attribution step",
        "samples": samples,
        "mc": {"cfg": cfg, "states": r["distinct"], "transitions": r["states"], "depth": r["depth"],
               "scripts_exercising_action": r["coverage"], "wall_s": round(r["wall_s"], 1)},
        "scripts_from_tlc": nscripts_total, "scripts_executed": len(scripts), "script_reps": reps,
        "random_scripts": nrand, "runs": summ["runs"], "runs_skipped": summ["skipped"],
        "events_validated": total, "traces_validated_against_impl": summ["runs"],
        "onions_built": summ["builds_ok"], "routes_refused_too_large": summ["builds_err"],
        "peels": summ["peels"], "corruptions": summ["corrupts"], "failures": summ["fails"],
        "fulfils": summ["fulfills"], "impl_panics": summ["panics"], "binding_selftest": st,
        "sender_conclusions": dict(concl),
        "failures_with_bolt4_data_by_code": {("%#x" % c): v for c, v in sorted(with_data.items())},
        "exhaustive": False,
        "parts": {"hold times end to end (channet)": net_cov},
    }
    vlib.write_evidence(PID, tier, seed, "exploration", cov, [
        "on real networks (engine channet, 3 nodes) the hold times reported with PaymentPathSuccessful must number the hops of the path; "
        "everything else those runs show is judged by the channel checks, not here",
        "cryptography is exercised, not modelled: the model fixes shapes, sizes and verdicts",
        "failure attribution is checked for codes without the BADONION bit on routes without blinded hops; "
        "hold times must cover hops 1..min(k,20); the sender's conclusion is fixed for a forwarding hop k: NODE "
        "-> NodeFailure(k), permanent iff PERM; PERM -> ChannelFailure(channel k -> k+1), permanent; UPDATE with "
        "a well-formed BOLT 4 message (fixed fields + u16 len + exactly len bytes) -> that channel, not permanent, "
        "and it is the channel to avoid on retry; payment_failed_permanently iff final hop and PERM; elsewhere "
        "(final hop, malformed / unknown UPDATE data, codes without class bits) naming hop k means blaming node k "
        "or a channel adjacent to it",
        "failure packets are originated through onion_utils::build_failure_packet with arbitrary code/data (as a "
        "remote hop could) and re-wrapped through HTLCFailReason::get_encrypted_failure_packet",
        "field values and flipped bits are seeded samples; byte-length classes, sizes and positions are enumerated",
        "trampoline hops and dummy hops are not covered",
    ], time.time() - t0, nviol)
    return nviol
