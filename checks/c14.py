"""C14 -- onions deliver exactly each hop's instructions; failures name the right hop.

1. TLC model-checks spec/OnionMC.tla: a symbolic packet (segments, shift-left / re-pad, next-hmac-zero
   = final) and a symbolic failure / fulfil packet (encryption layers, attribution array of 20 entries)
   refine the observable specification spec/Onion.tla for every enumerated route (path lengths 1..27,
   byte-length classes of every leg's amount and expiry, recipient-field sizes including the ones that
   fill hop_data exactly / one byte less / one byte more, blinded tails) and every corruption field x
   position, failing hop x code class x data length, and fulfil.  Size arithmetic (sum of payloads +
   hmacs <= 1300) is part of the model, so TLC decides which routes fit.
2. Every terminal state of the model is printed as a driver script; the Rust engine `onion` runs the
   scripts (several seeds each) and seeded random scripts against the real create_payment_onion /
   peel_payment_onion / failure-packet code and records what each step returned.
3. TLC validates the recorded trace against spec/Onion.tla (OnionTrace.tla).  That is the verdict.
"""
import json, os, random, time, collections
from concurrent.futures import ThreadPoolExecutor
import vlib

PID = "C14"
# actions of OnionMC whose occurrence is derived from the printed scripts (vacuity guard)
ACTIONS = ["MBuildSize", "MBuildOps", "MCorrupt", "MPeel", "MFailAt", "MWrap", "MAttribute",
           "MFulfill", "MFulfillWrap", "MFulfillAttribute"]


def cfg_constants(cfg):
    out = {}
    for ln in open(os.path.join(vlib.SPEC, cfg)):
        ln = ln.strip()
        for k in ("EncFwd", "EncRecv"):
            if ln.startswith(k + " ="):
                out[k] = int(ln.split("=")[1])
    return out


def shape(s):
    """the non-trivial part of a script: everything but the seeded values"""
    return (s["n"], s["b"], tuple((l["a"], l["c"]) for l in s["legs"]), (s["fin"]["a"], s["fin"]["c"]),
            s["final"]["secret"], s["final"]["tlen"], s["final"]["meta"],
            tuple((c["tl"], c["len"]) for c in s["final"]["customs"]), s["final"]["keysend"],
            s["op"]["kind"], s["op"]["at"], s["op"]["field"], s["op"]["code"], s["op"]["dlen"])


def sample_scripts(scripts, cap, rng):
    """keep every (op kind, field/code, n) stratum represented when capping"""
    if len(scripts) <= cap:
        return scripts
    strata = collections.defaultdict(list)
    for s in scripts:
        o = s["op"]
        strata[(o["kind"], o["field"], o["code"], s["n"], s["b"] > 0)].append(s)
    keys = sorted(strata.keys(), key=str)
    for k in keys:
        rng.shuffle(strata[k])
    out = []
    i = 0
    while len(out) < cap:
        progressed = False
        for k in keys:
            if i < len(strata[k]):
                out.append(strata[k][i])
                progressed = True
                if len(out) >= cap:
                    break
        if not progressed:
            break
        i += 1
    return out


def split_runs(lines, parts):
    """split an NDJSON trace into `parts` chunks at `reset` boundaries"""
    starts = [i for i, ln in enumerate(lines) if '"ev":"reset"' in ln]
    if not starts:
        return [lines]
    per = max(1, len(starts) // parts)
    chunks = []
    for p in range(parts):
        a = starts[p * per] if p * per < len(starts) else None
        if a is None:
            break
        b = starts[(p + 1) * per] if (p + 1 < parts and (p + 1) * per < len(starts)) else len(lines)
        chunks.append(lines[a:b])
    return chunks


def validate_parallel(wd, tpath, parts, timeout):
    with open(tpath) as f:
        lines = [ln for ln in f.read().splitlines() if ln.strip()]
    chunks = split_runs(lines, parts)
    paths = []
    for i, ch in enumerate(chunks):
        p = os.path.join(wd, "trace-part%d.ndjson" % i)
        with open(p, "w") as f:
            f.write("\n".join(ch) + "\n")
        paths.append(p)

    def one(ip):
        i, p = ip
        return vlib.validate_trace(PID, "OnionTrace", "OnionTrace.cfg", p, timeout=timeout, max_failures=4,
                                   tag="p%d_" % i)
    with ThreadPoolExecutor(max_workers=len(paths)) as ex:
        res = list(ex.map(one, enumerate(paths)))
    total = sum(r[0] for r in res)
    fails = [f for r in res for f in r[1]]
    return total, fails


def selftest(wd, lines):
    """Binding self-test: corruptions of an accepted trace must each be rejected."""
    recs = [json.loads(x) for x in lines]
    muts = []

    def clone():
        return [json.loads(json.dumps(x)) for x in recs]
    # (a) a forwarding hop reports the *next* hop's expiry
    for k, r in enumerate(recs):
        if r["ev"] == "peel" and r["res"] == "forward" and recs[k + 1]["ev"] == "peel" \
                and recs[k + 1]["res"] == "forward" and recs[k + 1]["cltv"] != r["cltv"]:
            m = clone(); m[k]["cltv"] = recs[k + 1]["cltv"]; muts.append(("fwd-cltv-of-next-hop", m)); break
    # (b) next channel id off by one bit
    for k, r in enumerate(recs):
        if r["ev"] == "peel" and r["res"] == "forward":
            m = clone(); m[k]["scid"][0] ^= 1; muts.append(("fwd-scid-bit", m)); break
    # (c) the next packet is one byte short
    for k, r in enumerate(recs):
        if r["ev"] == "peel" and r["res"] == "forward":
            m = clone(); m[k]["pkt_len"] -= 1; muts.append(("next-packet-short", m)); break
    # (d) a corrupted packet is accepted by the next hop (reject turned into the forward the route asks for)
    for k, r in enumerate(recs):
        if r["ev"] == "corrupt" and recs[k + 1]["ev"] == "peel" and recs[k + 1]["res"] == "reject":
            b = [x for x in recs[:k] if x["ev"] == "build"][-1]
            i = recs[k + 1]["hop"]
            if i < len(b["hops"]):
                h = b["hops"][i - 1]
                m = clone()
                m[k + 1].update({"res": "forward", "amt": h["amt"], "cltv": h["cltv"], "scid": h["scid"],
                                 "pkt_len": 1366})
                muts.append(("corruption-accepted", m)); break
    # (e) an intermediate hop believes it is the recipient
    for k, r in enumerate(recs):
        if r["ev"] == "peel" and r["res"] == "forward":
            m = clone(); m[k]["res"] = "receive"; muts.append(("intermediate-receives", m)); break
    # (f) recipient loses its payment secret
    for k, r in enumerate(recs):
        if r["ev"] == "peel" and r["res"] == "receive" and r["secret"]:
            m = clone(); m[k]["secret"] = ""; muts.append(("secret-dropped", m)); break
    # (g) failure attributed to the neighbour / hold time missing / code changed
    for k, r in enumerate(recs):
        if r["ev"] == "attr" and r["nu_kind"] == "node" and len(r["hold_times"]) >= 2:
            m = clone(); m[k]["nu_node"] += 1; muts.append(("blame-next-node", m))
            m = clone(); m[k]["hold_times"] = m[k]["hold_times"][:-1]; muts.append(("hold-time-dropped", m))
            m = clone(); m[k]["code"] ^= 1; muts.append(("code-changed", m))
            m = clone(); m[k]["hold_times"][0] += 1; muts.append(("hold-time-value", m))
            break
    # (h) a route that fits is refused
    for k, r in enumerate(recs):
        if r["ev"] == "build" and r["ok"] and recs[k + 1]["ev"] == "peel":
            j = k + 1
            while j < len(recs) and recs[j]["ev"] != "reset":
                j += 1
            m = [json.loads(json.dumps(x)) for x in recs[:k + 1] + recs[j:]]
            m[k]["ok"] = False
            muts.append(("fitting-route-refused", m)); break
    # (i) fulfil hold times shifted by one hop
    for k, r in enumerate(recs):
        if r["ev"] == "fattr" and len(r["hold_times"]) >= 2 and r["hold_times"][0] != r["hold_times"][1]:
            m = clone(); m[k]["hold_times"] = m[k]["hold_times"][1:] + m[k]["hold_times"][:1]
            muts.append(("fulfil-holds-shifted", m)); break
    def one(nm):
        name, m = nm
        p = os.path.join(wd, "selftest-%s.ndjson" % name)
        with open(p, "w") as f:
            for r in m:
                f.write(json.dumps(r) + "\n")
        _, fails = vlib.validate_trace(PID, "OnionTrace", "OnionTrace.cfg", p, max_failures=1,
                                       tag="st-" + name)
        return name, bool(fails)
    with ThreadPoolExecutor(max_workers=6) as ex:
        res = list(ex.map(one, muts))
    rejected = sum(1 for _, ok in res if ok)
    names = [n for n, ok in res if not ok]
    if rejected != len(muts) or len(muts) < 8:
        raise vlib.ToolError("binding self-test: %d of %d corrupted traces rejected (accepted: %s)"
                             % (rejected, len(muts), names))
    return {"mutations": len(muts), "rejected": rejected}


def run(tier, seed):
    t0 = time.time()
    wd = vlib.workdir(PID)
    bins = vlib.build(["onion"])
    thorough = tier == "thorough"
    rng = random.Random(seed)

    # ---- 0. the model's blinded-payload size constants must be the ones the library produces
    cfg = "OnionMCthorough.cfg" if thorough else "OnionMC.cfg"
    p = vlib.run_bin(bins["onion"], ["--probe", "--seed", seed])
    probe = json.loads(p.stdout.strip().splitlines()[-1])
    cc = cfg_constants(cfg)
    if probe["enc_fwd"] != cc.get("EncFwd") or probe["enc_recv"] != cc.get("EncRecv"):
        raise vlib.ToolError("EncFwd/EncRecv in %s (%s) differ from the library's blinded payload sizes %s"
                             % (cfg, cc, probe))

    # ---- 1. design check + behaviour generation
    # -coverage roughly doubles TLC's run time here: action coverage is derived from the
    # printed scripts instead (a script is printed only in a terminal state, reachable only through
    # the actions it names)
    r = vlib.tlc_mc(PID, "OnionMC", cfg, workers=12, timeout=3000 if thorough else 600, coverage=False)
    if r["violated"]:
        raise vlib.ToolError("design model violates %s in %s (spec needs correction)" % (r["violated"], cfg))
    scripts = vlib.tlc_printed(r["out"], "SCRIPT")
    def cnt(pred):
        return sum(1 for s in scripts if pred(s))
    r["coverage"] = {
        "MBuildSize": cnt(lambda s: s["op"]["kind"] == "deliver"),
        "MBuildOps": cnt(lambda s: s["op"]["kind"] != "deliver"),
        "MPeel": cnt(lambda s: s["n"] > 1),
        "MCorrupt": cnt(lambda s: s["op"]["kind"] == "corrupt"),
        "MFailAt": cnt(lambda s: s["op"]["kind"] == "fail"),
        "MWrap": cnt(lambda s: s["op"]["kind"] == "fail" and s["op"]["at"] > 1),
        "MAttribute": cnt(lambda s: s["op"]["kind"] == "fail"),
        "MFulfill": cnt(lambda s: s["op"]["kind"] == "fulfill"),
        "MFulfillWrap": cnt(lambda s: s["op"]["kind"] == "fulfill" and s["n"] > 1),
        "MFulfillAttribute": cnt(lambda s: s["op"]["kind"] == "fulfill"),
    }
    vlib.require_coverage(r, ACTIONS, cfg + " (from scripts)")
    vlib.log("[mc] %s: %d distinct states, %d generated, depth %d, %d scripts, %.0fs" %
             (cfg, r["distinct"], r["states"], r["depth"], len(scripts), r["wall_s"]))
    r.pop("out")
    if len(scripts) < 1000:
        raise vlib.ToolError("vacuity: only %d scripts from the model" % len(scripts))
    kinds = collections.Counter(s["op"]["kind"] for s in scripts)
    for k in ("deliver", "corrupt", "fail", "fulfill"):
        if kinds[k] == 0:
            raise vlib.ToolError("vacuity: no %s script" % k)
    nscripts_total = len(scripts)
    cap = 60000 if thorough else 7000
    scripts = sample_scripts(scripts, cap, rng)
    spath = os.path.join(wd, "scripts.ndjson")
    with open(spath, "w") as f:
        for s in scripts:
            f.write(json.dumps(s) + "\n")

    # ---- 2. run the real code
    nrand = 40000 if thorough else 3000
    reps = 1
    tpath = os.path.join(wd, "trace.ndjson")
    p = vlib.run_bin(bins["onion"], ["--scripts", spath, "--random", nrand, "--seed", seed, "--reps", reps,
                                     "--out", tpath], timeout=3000)
    summ = json.loads(p.stdout.strip().splitlines()[-1])
    vlib.log("[onion] %s" % summ)
    # ---- 3. trace validation (the oracle)
    total, fails = validate_parallel(wd, tpath, 6, 2400 if thorough else 600)
    # map run ids to scripts
    resets = {}
    executed = []
    with open(tpath) as f:
        cur = None
        for ln in f:
            if '"ev":"reset"' in ln:
                cur = json.loads(ln)
                resets[cur["run"]] = cur
            elif '"ev":"build"' in ln and cur is not None:
                executed.append(shape(cur["script"]))
    nviol = 0
    for fl in fails:
        rs = resets.get(fl["run"], {})
        key = "panic" if fl["rec"].get("ev") == "panic" else None
        if vlib.report_violation(PID, "run%s" % fl["run"], {
                "property": PID, "kind": fl["kind"], "invariant": fl["inv"],
                "first_unmatched_event": fl["rec"], "position_in_run": fl["pos_in_run"],
                "script": rs.get("script"), "script_index": rs.get("idx"), "rep": rs.get("rep"), "seed": seed,
                "trace_of_run": fl["run_events"], "last_state": fl["last_state"],
                "run_seed": rs.get("rseed"),
                "how_to_replay": "write `script` as one line into s.ndjson; harness/target/debug/onion --scripts "
                                 "s.ndjson --run-seed <run_seed> --out t.ndjson reproduces trace_of_run; "
                                 "cd spec && TRACE=$PWD/../t.ndjson java -cp <tla2tools.jar:CommunityModules-deps.jar> "
                                 "tlc2.TLC -config OnionTrace.cfg OnionTrace.tla"}, key=key):
            nviol += 1

    # ---- 3b. vacuity guards on the driver (only meaningful when the implementation behaved: a broken
    # implementation makes packets stop early, which is a violation above, not a driver problem)
    if not fails:
        nruns = summ["runs"] + summ["skipped"]
        if summ["skipped"] * 20 > nruns:
            raise vlib.ToolError("vacuity: %d of %d runs skipped by the driver" % (summ["skipped"], nruns))
        for k in ("builds_ok", "builds_err", "corrupts", "fails", "fulfills"):
            if summ[k] == 0:
                raise vlib.ToolError("vacuity: engine counter %s is 0" % k)
        if summ["peels"] < 5 * summ["builds_ok"] // 2:
            raise vlib.ToolError("vacuity: packets hardly travel (%d peels for %d onions)"
                                 % (summ["peels"], summ["builds_ok"]))

    # ---- 4. binding self-test on the head of the accepted trace
    st = None
    if not fails:
        # a small accepted trace with a few runs of every kind
        runs, cur = [], []
        with open(tpath) as f:
            for ln in f:
                if '"ev":"reset"' in ln:
                    if cur:
                        runs.append(cur)
                    cur = []
                    if len(runs) >= 12000:
                        break
                cur.append(ln.rstrip("\n"))
        want = {"deliver": 4, "corrupt": 6, "fail": 8, "fulfill": 4}
        head = []
        for run_lines in runs:
            sc = json.loads(run_lines[0])["script"]
            k = sc["op"]["kind"]
            if want.get(k, 0) > 0 and sc["n"] >= 3 and sc["b"] == 0 and len(run_lines) > 3 \
                    and (k != "corrupt" or sc["op"]["at"] < sc["n"]) \
                    and (k != "fail" or (sc["op"]["at"] >= 2 and sc["op"]["code"] in ("node_temp", "node_perm"))):
                want[k] -= 1
                head += run_lines
        st = selftest(wd, head)
        vlib.log("[selftest] %s" % st)

    samples = [scripts[0], scripts[len(scripts) // 3], scripts[2 * len(scripts) // 3]]
    with open(tpath) as f:
        hd = []
        for ln in f:
            r0 = json.loads(ln)
            if r0["ev"] == "build":
                r0["hops"] = r0["hops"][:2] + ["..."]
            hd.append(r0)
            if len(hd) >= 8:
                break
        samples.append({"trace_head": hd})
    cov = {
        "evaluations": summ["evaluations"],
        "distinct_nontrivial": vlib.distinct_count(executed),
        "rule": "distinct (path length, blinded hops, per-leg amount/expiry byte-length classes, recipient field "
                "sizes, operation kind, corruption field+position or failing hop+code class+data length) among the "
                "runs in which an onion build was attempted; an evaluation is one call of create_payment_onion, "
                "peel_payment_onion, build/wrap/decode of a failure packet or fulfil attribution step",
        "samples": samples,
        "mc": {"cfg": cfg, "states": r["distinct"], "transitions": r["states"], "depth": r["depth"],
               "scripts_exercising_action": r["coverage"], "wall_s": round(r["wall_s"], 1)},
        "scripts_from_tlc": nscripts_total, "scripts_executed": len(scripts), "script_reps": reps,
        "random_scripts": nrand, "runs": summ["runs"], "runs_skipped": summ["skipped"],
        "events_validated": total, "traces_validated_against_impl": summ["runs"],
        "onions_built": summ["builds_ok"], "routes_refused_too_large": summ["builds_err"],
        "peels": summ["peels"], "corruptions": summ["corrupts"], "failures": summ["fails"],
        "fulfils": summ["fulfills"], "impl_panics": summ["panics"], "binding_selftest": st,
        "exhaustive": False,
    }
    vlib.write_evidence(PID, tier, seed, "exploration", cov, [
        "cryptography is exercised, not modelled: the model fixes shapes, sizes and verdicts",
        "failure attribution is checked for codes without the BADONION bit on routes without blinded hops; "
        "naming hop k means blaming node k or a channel adjacent to it, hold times must cover hops 1..min(k,20)",
        "failure packets are originated through onion_utils::build_failure_packet with arbitrary code/data (as a "
        "remote hop could) and re-wrapped through HTLCFailReason::get_encrypted_failure_packet",
        "field values and flipped bits are seeded samples; byte-length classes, sizes and positions are enumerated",
        "trampoline hops and dummy hops are not covered",
    ], time.time() - t0, nviol)
    return nviol
