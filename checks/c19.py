"""C19 -- stored channel state is never lost or torn by the storage layer.

(a) KVStore part
    1. TLC model-checks spec/KVStore.tla (atomic map, call / linearise / return) on bounded
       instances (KVStoreMC) and prints every call sequence as a sequential driver script.
       An asynchronous instance (issue tickets) yields scripts "issue a, b, c; drive c, a, b".
    2. The Rust engine `kvstore --mode fs` executes the scripts (synchronous API, and asynchronous API on
       a tokio runtime with futures driven in another order than issued) and seeded multi-threaded drivers
       (<= 4 threads, <= 4 keys incl. empty namespaces and maximum-length names, distinguishable
       values) on the real FilesystemStore (v1) and FilesystemStoreV2, recording call / return
       events ordered by a global atomic sequence.
    3. TLC validates the trace against KVStore.tla (KVStoreTrace): it has to find linearisation
       points explaining every read / list result.
(b) MonitorUpdatingPersister part
    1. TLC model-checks the design model spec/MUP.tla (every maximum_pending_updates in 0..3, every
       crash position, every subset of landed lazy deletes, failing store operations, clean-up,
       chain-sync writes) against the invariants of spec/MUPAbstract.tla; reachable quiescent
       states are printed as driver scripts.
    2. `kvstore --mode mup` captures REAL monitor/update histories from a 2-node network, feeds
       them (per script and as captured, for many maximum_pending_updates) to the real
       MonitorUpdatingPersister over a recording, fault-injecting store and runs the real recovery
       at every crash point x landed subset.
    3. TLC validates that trace against MUPAbstract.tla (MUPTrace).
    4. The caller's side: MUP.tla also models ChainMonitor (watch_channel / update_channel: the update
       is applied to the in-memory monitor first; accepted -> Some(update), refused by a closed
       monitor -> full monitor write; block connections; InProgress + channel_monitor_updated;
       archiving).  Its scripts (MUPMCcq / MUPMCc) drive `kvstore --mode cm`: a REAL ChainMonitor
       over the real MonitorUpdatingPersister, fed real updates (pre-close updates -- also after a
       block took the monitor on chain, when the monitor refuses them --, ChannelForceClosed,
       preimages), crashes + the real recovery at every store operation.  Same trace spec.
       MUPMCbad.cfg (design mutant: a refused update is stored like an accepted one) must violate
       CrashRecoveredCoversReported.
"""
import json, os, random, shutil, subprocess, time
import vlib

PID = "C19"


# --------------------------------------------------------------------------- helpers

def run_engine(binpath, args, summary_path, timeout=3000):
    """The functional test utilities log to stdout/stderr; discard both, read the summary file."""
    if os.path.exists(summary_path):
        os.remove(summary_path)
    e = dict(os.environ)
    e.setdefault("RUST_BACKTRACE", "0")
    p = subprocess.run([binpath] + [str(a) for a in args] + ["--summary", summary_path],
                       stdout=subprocess.DEVNULL, stderr=subprocess.DEVNULL, timeout=timeout, env=e)
    if p.returncode != 0 or not os.path.exists(summary_path):
        raise vlib.ToolError("engine kvstore %s exited %d" % (args[1], p.returncode))
    with open(summary_path) as f:
        return json.load(f)


def mc(module, cfg, actions, timeout):
    r = vlib.tlc_mc(PID, module, cfg, workers=12, timeout=timeout)
    if r["violated"]:
        # a design-level counterexample is not yet a violation of the code: the model needs correction
        raise vlib.ToolError("model %s violates %s in %s" % (module, r["violated"], cfg))
    vlib.require_coverage(r, actions, cfg)
    scripts = vlib.tlc_printed(r["out"], "SCRIPT")
    vlib.log("[mc] %s/%s: %d distinct states, %d generated, depth %d, %d scripts, %.0fs" %
             (module, cfg, r["distinct"], r["states"], r["depth"], len(scripts), r["wall_s"]))
    r.pop("out")
    return r, scripts


CALL_OPS = ("new", "upd", "sync", "cleanup")


def convert_mup(s):
    """TLC history -> engine script: failures go to `faults`; a crash with after > 0 interrupts the
    call in progress, the engine wants it announced before that call."""
    ops, faults = [], []
    for o in s["ops"]:
        if o["op"] == "fault":
            faults.append({"n": o["n"], "mode": o["mode"]})
        elif o["op"] == "crash":
            c = {"op": "crash", "after": o["after"], "land": o["land"]}
            idx = max([i for i, x in enumerate(ops) if x["op"] in CALL_OPS] or [-1])
            if o["after"] > 0 and idx >= 0:
                ops.insert(idx, c)
            else:
                c["after"] = 0
                ops.append(c)
        else:
            ops.append({"op": o["op"], "lazy": o["lazy"]})
    return {"maxp": s["maxp"], "ops": ops, "faults": faults}


CM_CALL_OPS = ("new", "upd", "sync", "cleanup", "close", "archive")


def convert_cm(s):
    """TLC history of the caller-side model -> script of `kvstore --mode cm`."""
    ops, faults = [], []
    for o in s["ops"]:
        if o["op"] == "fault":
            faults.append({"n": o["n"], "mode": o["mode"]})
        elif o["op"] == "defer":
            idx = max([i for i, x in enumerate(ops) if x["op"] in ("new", "upd")] or [-1])
            if idx >= 0:
                ops[idx]["defer"] = True
        elif o["op"] == "crash":
            c = {"op": "crash", "after": o["after"], "land": o["land"], "landmon": o["landmon"]}
            idx = max([i for i, x in enumerate(ops) if x["op"] in CM_CALL_OPS] or [-1])
            if o["after"] > 0 and idx >= 0:
                ops.insert(idx, c)
            else:
                c["after"] = 0
                ops.append(c)
        else:
            ops.append({"op": o["op"], "lazy": o["lazy"], "kind": o["kind"], "defer": False})
    # channel_monitor_updated may come at any later point (MComplete is enabled whenever a completion is
    # outstanding; TLC reaches the resulting states on a shorter path first, so its scripts never contain it):
    # every other script with a deferred completion delivers it one call later
    di = [i for i, x in enumerate(ops) if x.get("defer")]
    if di and len(ops) % 2 == 0:
        nxt = [i for i, x in enumerate(ops) if i > di[0] and x["op"] in CM_CALL_OPS]
        at = nxt[0] + 1 if nxt else len(ops)
        if not any(x["op"] == "crash" for x in ops[di[0]:at]):
            ops.insert(at, {"op": "complete", "lazy": False, "kind": "", "defer": False})
    return {"maxp": s["maxp"], "ops": ops, "faults": faults}


def has_refusal(sc):
    """a pre-close update after the block that took the monitor on chain"""
    closed = False
    for o in sc["ops"]:
        if o["op"] == "close":
            closed = True
        elif o["op"] == "upd" and o["kind"] == "pre" and closed:
            return True
    return False


def dedupe(objs):
    """distinct objects in a canonical order (TLC prints in a worker-dependent order)"""
    d = {json.dumps(o, sort_keys=True): o for o in objs}
    return [d[k] for k in sorted(d)]


def write_ndjson(path, objs):
    with open(path, "w") as f:
        for o in objs:
            f.write(json.dumps(o) + "\n")


def head_runs(path, nlines):
    """first complete runs of a trace file, about nlines records"""
    head = []
    with open(path) as f:
        for ln in f:
            head.append(json.loads(ln))
            if len(head) >= nlines:
                break
    last = head[-1]["run"]
    cut = [x for x in head if x["run"] != last]
    return cut if cut else head


# --------------------------------------------------------------------------- binding self-tests

def selftest(wd, module, cfg, recs, muts):
    rejected = 0
    names = []
    for name, m in muts:
        p = os.path.join(wd, "selftest-%s-%s.ndjson" % (module, name))
        write_ndjson(p, m)
        _, fails = vlib.validate_trace(PID, module, cfg, p, max_failures=1, tag="st")
        names.append(name)
        if fails:
            rejected += 1
        else:
            vlib.log("[selftest] corrupted trace %s was ACCEPTED" % name)
        os.remove(p)
    if not muts or rejected != len(muts):
        raise vlib.ToolError("binding self-test (%s): %d of %d corrupted traces rejected" %
                             (module, rejected, len(muts)))
    return {"mutations": names, "rejected": rejected}


def selftest_fs(wd, recs):
    """recs: head of an accepted trace whose first runs are sequential script runs."""
    muts = []

    def first(pred, change, name):
        for k, r in enumerate(recs):
            if pred(r):
                m = [dict(x) for x in recs]
                change(m[k])
                muts.append((name, m))
                return

    def setv(key, val):
        return lambda r: r.__setitem__(key, val)
    rd = lambda r: r["ev"] == "ret" and r["op"] == "read"
    first(lambda r: rd(r) and r["res"] > 0, setv("res", -1), "read-torn")
    first(lambda r: rd(r) and r["res"] > 0, setv("res", 0), "read-lost")
    first(lambda r: rd(r) and r["res"] == 0, setv("res", 1000), "read-never-written")
    first(lambda r: r["ev"] == "ret" and r["op"] == "list" and r["res"] == 0 and r["keys"],
          lambda r: r.__setitem__("keys", r["keys"][1:]), "list-misses-key")
    # (a key that was removed lazily may legitimately still be listed: avoid those runs)
    lazy_runs = {r["run"] for r in recs if r["ev"] == "call" and r["op"] == "remove" and r["lazy"]}
    first(lambda r: r["ev"] == "ret" and r["op"] == "list" and r["res"] == 0 and not r["keys"] and r["k"] == 1
          and r["run"] not in lazy_runs, setv("keys", [1]), "list-invents-key")
    first(lambda r: r["ev"] == "ret" and r["op"] == "write", setv("res", -2), "write-fails")
    # a completed write dropped from the trace: the later read of it is unexplained
    for k, r in enumerate(recs):
        if r["ev"] == "call" and r["op"] == "write":
            later = [x for x in recs[k + 2:] if x["run"] == r["run"] and x["ev"] == "ret"
                     and x["op"] == "read" and x["res"] == r["v"]]
            if later and recs[k + 1]["ev"] == "ret":
                muts.append(("write-dropped", recs[:k] + recs[k + 2:]))
                break
    return selftest(wd, "KVStoreTrace", "KVStoreTrace.cfg", recs, muts)


def selftest_async(wd, fs_trace):
    """Issue order: in an asynchronous run, a read issued after two writes of its key completed (nothing
    else of that key outstanding) is made to return the EARLIER-ISSUED write's value, and a removal
    issued last is made to lose against an earlier-issued write.  Both must be rejected."""
    runs, cur = [], None
    with open(fs_trace) as f:
        for ln in f:
            r = json.loads(ln)
            if r["ev"] == "reset":
                cur = [r] if r.get("mode") == "async" else None
                if cur is not None:
                    runs.append(cur)
            elif cur is not None:
                cur.append(r)
            if len(runs) > 12000:
                break
    muts = {}
    for evs in runs:
        out = {}      # slot -> call record of mutators outstanding
        last = {}     # key -> list of (tk, value) of completed mutators, in completion order
        calls = {}
        for i, r in enumerate(evs):
            if r["ev"] == "call":
                calls[r["t"]] = r
                if r["op"] in ("write", "remove"):
                    out[r["t"]] = r
            elif r["ev"] == "ret":
                c = calls.get(r["t"])
                if r["op"] in ("write", "remove"):
                    out.pop(r["t"], None)
                    last.setdefault(r["k"], []).append((c["tk"], c["v"] if c["op"] == "write" else 0))
                elif r["op"] == "read" and c is not None:
                    k = r["k"]
                    done = last.get(k, [])
                    busy = any(x["k"] == k for x in out.values())
                    # mutators of k still outstanding when the read was issued?
                    # ... and the read must have been driven right after it was issued
                    if busy or len(done) < 2 or evs[i - 1] is not c:
                        continue
                    newest = max(done)           # highest ticket = issued last
                    older = [d for d in done if d[0] < newest[0] and d[1] != newest[1]]
                    if not older or r["res"] != newest[1]:
                        continue
                    wrong = max(older)[1]
                    name = "older-write-wins" if wrong > 0 else "older-remove-wins"
                    if newest[1] == 0:
                        name = "removed-key-resurrected"
                    if name not in muts:
                        m = [dict(x) for x in evs]
                        m[i]["res"] = wrong
                        muts[name] = m
        if len(muts) >= 3:
            break
    return selftest(wd, "KVStoreTrace", "KVStoreTrace.cfg", None, sorted(muts.items()))


def selftest_mup(wd, recs):
    muts = []
    rep = set()
    done = set()
    files, moncid = set(), -1
    for k, r in enumerate(recs):
        if r["ev"] == "reset":
            rep = set()
        if r["ev"] == "ret" and r["status"] == "completed" and r["kind"] in ("new", "upd", "full"):
            rep.add(r["id"])
        if r["ev"] == "complete":
            rep.add(r["id"])
        if r["ev"] == "archive":
            rep = set()
        if r["ev"] == "rec" and r["kind"] == "ok" and rep and "rec-behind" not in done and r["rid"] >= 1 \
                and max(rep) >= 1:
            m = [dict(x) for x in recs]
            m[k]["rid"] = max(rep) - 1
            muts.append(("rec-behind", m))
            done.add("rec-behind")
        if r["ev"] == "rec" and r["kind"] == "ok" and rep and "rec-none" not in done:
            m = [dict(x) for x in recs]
            m[k].update({"kind": "none", "rid": -1, "eq": False})
            muts.append(("rec-none", m))
            done.add("rec-none")
        if r["ev"] == "rec" and r["kind"] == "ok" and "rec-unequal" not in done:
            m = [dict(x) for x in recs]
            m[k]["eq"] = False
            muts.append(("rec-unequal", m))
            done.add("rec-unequal")
        if r["ev"] == "rec" and r["kind"] == "ok" and rep and "rec-err" not in done:
            m = [dict(x) for x in recs]
            m[k].update({"kind": "err", "rid": -1, "eq": False, "rf": False})
            muts.append(("rec-err", m))
            done.add("rec-err")
        if r["ev"] == "rec" and r["kind"] == "ok" and "rec-panic" not in done:
            m = [dict(x) for x in recs]
            m[k].update({"kind": "panic", "rid": -1, "eq": False})
            muts.append(("rec-panic", m))
            done.add("rec-panic")
        # the full-monitor write that licenses a clean-up disappears: the removal of an existing
        # update file above the previously stored monitor becomes unsafe
        if r["ev"] == "reset":
            files, moncid = set(), -1
        if r["ev"] == "crash":
            files -= set(r["land"])
        if r["ev"] == "sop" and r["applied"]:
            if r["class"] == "mon" and r["op"] == "write":
                if "monwrite-dropped" not in done and r["cid"] >= 1:
                    nxt = []
                    for x in recs[k + 1:]:
                        if x["run"] != r["run"] or x["ev"] in ("call", "ret", "crash"):
                            break
                        if x["ev"] == "sop":
                            nxt.append(x)
                    if any(x["class"] == "upd" and x["op"] == "remove" and x["applied"] and x["k"] in files
                           and x["k"] > moncid for x in nxt):
                        muts.append(("monwrite-dropped", recs[:k] + recs[k + 1:]))
                        done.add("monwrite-dropped")
                moncid = r["cid"]
            elif r["class"] == "upd" and r["op"] == "write":
                files.add(r["k"])
            elif r["class"] == "upd" and r["op"] == "remove" and not r["lazy"]:
                files.discard(r["k"])
        # a removal reaching above the stored monitor
        if (r["ev"] == "sop" and r["class"] == "upd" and r["op"] == "write" and r["applied"]
                and "remove-needed" not in done):
            m = [dict(x) for x in recs]
            m[k].update({"op": "remove", "cid": -1, "lazy": False})
            sops = [x for x in recs[:k] if x["run"] == r["run"] and x["ev"] in ("sop", "crash")]
            prev = sops[-1:] if sops else []
            if prev and prev[0]["ev"] == "sop" and prev[0]["class"] == "upd" and prev[0]["op"] == "write" \
                    and prev[0]["applied"] and prev[0]["k"] == r["k"] - 1:
                # remove the previous (needed) update file instead of writing this one
                m[k]["k"] = r["k"] - 1
                muts.append(("remove-needed", m))
                done.add("remove-needed")
    return selftest(wd, "MUPTrace", "MUPTrace.cfg", recs, muts)


# --------------------------------------------------------------------------- the check

def run(tier, seed):
    t0 = time.time()
    wd = vlib.workdir(PID)
    bins = vlib.build(["kvstore"])
    thorough = tier == "thorough"
    rng = random.Random(seed)
    mcs = []

    # ---- 1. model checking (design + specification sanity) and behaviour generation
    kv_actions = ["MCallWrite", "MCallRemove", "MCallRead", "MCallList", "MLin", "MRetMut", "MRetRead", "MRetList"]
    kv_scripts = []
    akv_scripts = []
    cfgs = ["KVStoreMC4.cfg", "KVStoreMC1.cfg", "KVStoreMCa2.cfg"] if thorough else \
           ["KVStoreMC.cfg", "KVStoreMC1.cfg", "KVStoreMCa.cfg"]
    for cfg in cfgs:
        r, sc = mc("KVStoreMC", cfg, kv_actions, 3000 if thorough else 600)
        mcs.append(("KVStoreMC/" + cfg, r))
        sc = dedupe(sc)
        is_async = cfg.startswith("KVStoreMCa")
        cap = (2500 if thorough else 250) if is_async else (3000 if thorough else 400)
        if len(sc) > cap:
            sc = rng.sample(sc, cap)
        for i, s in enumerate(sc):
            if cfg == "KVStoreMC1.cfg":
                # the model's two keys live in two namespaces: keys 1 and 3 of the layouts 0, 2, 3
                s["layout"] = (0, 2, 3)[i % 3]
                for o in s["ops"]:
                    if o["op"] != "list" and o["k"] == 2:
                        o["k"] = 3
            else:
                # the model's keys share one namespace: keys 1 and 2 of any layout
                s["layout"] = i % 4
        if is_async:
            akv_scripts += sc
        else:
            kv_scripts += sc
    kv_spath = os.path.join(wd, "kv-scripts.ndjson")
    write_ndjson(kv_spath, kv_scripts + akv_scripts)   # the engine runs the synchronous ones first

    mup_actions = ["MNew", "MUpdate", "MSync", "MStep", "MStepFail", "MReturn", "MLand", "MCleanup",
                   "MCleanupDuringCall", "MCStep", "MCStepFail", "MCrash"]
    r, sc = mc("MUPMC", "MUPMC7.cfg" if thorough else "MUPMC.cfg", mup_actions, 3000 if thorough else 900)
    mcs.append(("MUPMC/" + ("MUPMC7.cfg" if thorough else "MUPMC.cfg"), r))
    mup_scripts = dedupe([convert_mup(s) for s in sc])
    # prefer scripts that do something after the channel exists
    mup_scripts = [s for s in mup_scripts if sum(1 for o in s["ops"] if o["op"] == "upd") >= 1]
    cap = 6000 if thorough else 1000
    if len(mup_scripts) > cap:
        mup_scripts = rng.sample(mup_scripts, cap)
    mup_spath = os.path.join(wd, "mup-scripts.ndjson")
    write_ndjson(mup_spath, mup_scripts)

    cm_cfg = "MUPMCc.cfg" if thorough else "MUPMCcq.cfg"
    cm_actions = ["MNew", "MUpdate", "MUpdateRefused", "MChainClose", "MArchive", "MStep", "MStepFail", "MReturn",
                  "MReturnInProgress", "MLand", "MCrash"]
    r, sc = mc("MUPMC", cm_cfg, cm_actions, 3000 if thorough else 900)
    mcs.append(("MUPMC/" + cm_cfg, r))
    cm_all = dedupe([convert_cm(x) for x in sc])
    cm_all = [x for x in cm_all if sum(1 for o in x["ops"] if o["op"] == "upd") >= 1]
    cm_ref = [x for x in cm_all if has_refusal(x)]
    cm_oth = [x for x in cm_all if not has_refusal(x)]
    cap = 3000 if thorough else 320
    cm_scripts = (rng.sample(cm_ref, cap) if len(cm_ref) > cap else cm_ref) + \
                 (rng.sample(cm_oth, cap // 2) if len(cm_oth) > cap // 2 else cm_oth)
    if len(cm_ref) < 50:
        raise vlib.ToolError("caller-side model produced only %d scripts with a refused update" % len(cm_ref))
    cm_spath = os.path.join(wd, "cm-scripts.ndjson")
    write_ndjson(cm_spath, cm_scripts)
    # the design mutant "a refused update is handed to the persister like an accepted one" must be caught by the
    # design-level invariant (sanity of the model of refusal + recovery)
    rb = vlib.tlc_mc(PID, "MUPMC", "MUPMCbad.cfg", workers=4, timeout=600, coverage=False)
    if rb["violated"] != "CrashRecoveredCoversReported":
        raise vlib.ToolError("design mutant MUPMCbad.cfg not rejected by CrashRecoveredCoversReported: %s" % rb["violated"])
    rb.pop("out")

    # ---- 2. run the real code
    fs_dir = os.path.join(wd, "fs-scratch")
    fs_trace = os.path.join(wd, "trace-fs.ndjson")
    nconc = 400 if thorough else 60
    nasync = 600 if thorough else 80
    fs = run_engine(bins["kvstore"], ["--mode", "fs", "--out", fs_trace, "--dir", fs_dir, "--scripts", kv_spath,
                                      "--random", nconc, "--ops", 60 if thorough else 40, "--seed", seed,
                                      "--async-random", nasync],
                    os.path.join(wd, "summary-fs.json"))
    shutil.rmtree(fs_dir, ignore_errors=True)
    vlib.log("[kvstore fs] %s" % fs)
    if fs["ops"] < 1000 or fs["concurrent_runs"] != nconc or fs["async_runs"] != nasync + 2 * len(akv_scripts) \
            or fs["async_ops"] < 5 * nasync:
        raise vlib.ToolError("file-system driver did not run")

    mup_trace = os.path.join(wd, "trace-mup.ndjson")
    nhist = 10 if thorough else 4
    nrand = 600 if thorough else 130
    mup = run_engine(bins["kvstore"], ["--mode", "mup", "--out", mup_trace, "--scripts", mup_spath,
                                       "--histories", nhist, "--random", nrand, "--seed", seed],
                     os.path.join(wd, "summary-mup.json"), timeout=6000)
    hist_short = [{k: h[k] for k in ("hist", "node", "calls", "updates", "chain_sync_writes")} for h in mup["histories"]]
    vlib.log("[kvstore mup] %s" % {k: v for k, v in mup.items() if k != "histories"})
    vlib.log("[kvstore mup] histories: %s" % hist_short)
    if not mup["histories"] or max(h["updates"] for h in mup["histories"]) < 5:
        raise vlib.ToolError("no usable monitor update history was captured")
    if mup["recoveries"] < 5 * mup["runs"] or mup["persister_calls"] < 3 * mup["runs"]:
        raise vlib.ToolError("persister driver mostly skipped: vacuous")

    cm_trace = os.path.join(wd, "trace-cm.ndjson")
    ncmrand = 400 if thorough else 48
    cm = run_engine(bins["kvstore"], ["--mode", "cm", "--out", cm_trace, "--scripts", cm_spath,
                                      "--histories", 4 if thorough else 2, "--random", ncmrand, "--seed", seed],
                    os.path.join(wd, "summary-cm.json"), timeout=6000)
    vlib.log("[kvstore cm] %s" % cm)
    if not cm["histories"] or not all(h["force_close_update"] and h["preimage_update"] for h in cm["histories"]):
        raise vlib.ToolError("no usable monitor / update material for the ChainMonitor driver")
    # vacuity of the ChainMonitor driver is judged after trace validation: a run that died early because the
    # code under test panicked is a (validated, reported) violation, not a tool error
    cm_vacuous = None
    if cm["recoveries"] < 5 * cm["runs"] or cm["persister_calls"] < 3 * cm["runs"] or cm["updates"] < 2 * cm["runs"]:
        cm_vacuous = "ChainMonitor driver mostly skipped: vacuous"
    elif cm["refused_at_non_multiple"] < 50 or cm["refused_at_multiple"] < 10 or cm["closes"] < 50 \
            or cm["restarts"] < 50 or cm["archives"] < 5 or cm["completions"] < 5:
        cm_vacuous = ("ChainMonitor driver: refused updates / closes / restarts / archives / deferred "
                      "completions hardly exercised: vacuous")

    # ---- 3. trace validation (the oracle)
    nviol = 0
    tot_fs, fails = vlib.validate_trace(PID, "KVStoreTrace", "KVStoreTrace.cfg", fs_trace, timeout=1800, tag="fs")
    nscr = 2 * len(kv_scripts)
    nascr = 2 * len(akv_scripts)
    for fl in fails:
        runid = fl["run"]
        if runid <= nscr:
            src = {"script": kv_scripts[(runid - 1) // 2], "store": "v1" if runid % 2 == 1 else "v2"}
        elif runid <= nscr + nascr:
            src = {"script": akv_scripts[(runid - nscr - 1) // 2], "store": "v1" if runid % 2 == 1 else "v2",
                   "note": "asynchronous API: ops are issued in script order, `await k` drives the future issued "
                           "by ops[k-1]"}
        elif runid <= nscr + nascr + nasync:
            src = {"async_random_index": runid - 1 - nscr - nascr, "seed": seed,
                   "note": "asynchronous API; call events are the issue order (tk), ret events the completions"}
        else:
            src = {"concurrent_run_index": runid - 1 - nscr - nascr - nasync, "seed": seed,
                   "note": "thread schedules are not reproducible; the recorded events below are the evidence"}
        key = "panic" if fl["rec"].get("ev") == "panic" else None
        if vlib.report_violation(PID, "fs-run%d" % runid, {
                "property": PID, "part": "KVStore (FilesystemStore)", "kind": fl["kind"], "invariant": fl["inv"],
                "first_unexplained_event": fl["rec"], "position_in_run": fl["pos_in_run"], "source": src,
                "trace_of_run": fl["run_events"], "last_state": fl["last_state"],
                "how_to_replay": "harness/target/debug/kvstore --mode fs --scripts <file with `script`> --out t.ndjson "
                                 "--dir /tmp/kv; cd spec; TRACE=t.ndjson tlc -config KVStoreTrace.cfg KVStoreTrace.tla"},
                key=key):
            nviol += 1

    tot_mup, fails = vlib.validate_trace(PID, "MUPTrace", "MUPTrace.cfg", mup_trace, timeout=1800, tag="mup")
    for fl in fails:
        runid = fl["run"]
        evs = [x for x in fl["run_events"] if x["ev"] != "rec" or x is fl["rec"]]
        key = "panic" if fl["rec"].get("ev") == "panic" else None
        label = fl["run_events"][0].get("label") if fl["run_events"] else None
        if vlib.report_violation(PID, "mup-run%d" % runid, {
                "property": PID, "part": "MonitorUpdatingPersister", "kind": fl["kind"], "invariant": fl["inv"],
                "offending_event": fl["rec"], "position_in_run": fl["pos_in_run"], "run": label, "seed": seed,
                "histories": hist_short,
                "store_operations_and_reports_of_run": evs[:400],
                "recoveries_of_run": [x for x in fl["run_events"] if x["ev"] == "rec"][:200],
                "last_state": fl["last_state"],
                "how_to_replay": "harness/target/debug/kvstore --mode mup --scripts <file with run.script> "
                                 "--histories %d --seed %d --out t.ndjson; cd spec; TRACE=t.ndjson tlc -config "
                                 "MUPTrace.cfg MUPTrace.tla" % (nhist, seed)}, key=key):
            nviol += 1

    tot_cm, fails = vlib.validate_trace(PID, "MUPTrace", "MUPTrace.cfg", cm_trace, timeout=1800, tag="cm")
    for fl in fails:
        runid = fl["run"]
        evs = [x for x in fl["run_events"] if x["ev"] != "rec" or x is fl["rec"]]
        key = "panic" if fl["rec"].get("ev") == "panic" else None
        label = fl["run_events"][0].get("label") if fl["run_events"] else None
        if vlib.report_violation(PID, "cm-run%d" % runid, {
                "property": PID, "part": "ChainMonitor driving MonitorUpdatingPersister", "kind": fl["kind"],
                "invariant": fl["inv"], "offending_event": fl["rec"], "position_in_run": fl["pos_in_run"],
                "run": label, "seed": seed, "histories": cm["histories"],
                "store_operations_and_reports_of_run": evs[:400],
                "recoveries_of_run": [x for x in fl["run_events"] if x["ev"] == "rec"][:200],
                "last_state": fl["last_state"],
                "how_to_replay": "harness/target/debug/kvstore --mode cm --scripts <file with run.script> "
                                 "--histories %d --seed %d --out t.ndjson; cd spec; TRACE=t.ndjson tlc -config "
                                 "MUPTrace.cfg MUPTrace.tla" % (4 if thorough else 2, seed)}, key=key):
            nviol += 1

    if nviol == 0 and cm_vacuous:
        raise vlib.ToolError(cm_vacuous)

    # ---- 4. binding self-tests on the heads of the accepted traces
    st = None
    if nviol == 0:
        st = {"kvstore": selftest_fs(wd, head_runs(fs_trace, 1500)),
              "kvstore_issue_order": selftest_async(wd, fs_trace),
              "mup": selftest_mup(wd, head_runs(mup_trace, 3000)),
              "chainmonitor": selftest_mup(wd, head_runs(cm_trace, 2000))}
        vlib.log("[selftest] %s" % st)

    with open(fs_trace) as f:
        fs_head = [json.loads(next(f)) for _ in range(8)]
    with open(mup_trace) as f:
        mup_head = [json.loads(next(f)) for _ in range(12)]
    for x in mup_head:
        x.pop("label", None)
    cov = {
        "states": sum(r["distinct"] for _, r in mcs),
        "transitions": sum(r["states"] for _, r in mcs),
        "traces_validated_against_impl": fs["runs"] + mup["runs"] + cm["runs"],
        "samples": [kv_scripts[0] if kv_scripts else None, mup_scripts[0] if mup_scripts else None,
                    {"fs_trace_head": fs_head}, {"mup_trace_head": mup_head}],
        "mc_runs": [{"cfg": c, "distinct": r["distinct"], "generated": r["states"], "depth": r["depth"],
                     "action_coverage": r["coverage"], "wall_s": round(r["wall_s"], 1)} for c, r in mcs],
        "kvstore": {"script_runs": fs["script_runs"], "concurrent_runs": fs["concurrent_runs"],
                    "async_runs": fs["async_runs"], "async_script_runs": 2 * len(akv_scripts),
                    "async_operations": fs["async_ops"],
                    "store_operations": fs["ops"], "events_validated": tot_fs, "impl_panics": fs["panics"]},
        "mup": {"script_runs": mup["script_runs"], "history_runs": mup["runs"] - mup["script_runs"],
                "persister_calls": mup["persister_calls"], "crash_recoveries_run": mup["recoveries"],
                "recovery_panics": mup["recovery_panics"], "events_validated": tot_mup,
                "real_histories": hist_short},
        "chainmonitor": {k: v for k, v in cm.items() if k != "histories"},
        "chainmonitor_events_validated": tot_cm,
        "chainmonitor_histories": cm["histories"],
        "design_mutant_refused_as_update": {"cfg": "MUPMCbad.cfg", "violated": rb["violated"],
                                            "distinct": rb["distinct"]},
        "binding_selftest": st,
        "exhaustive": False,
    }
    vlib.write_evidence(PID, tier, seed, "model_checking", cov, [
        "power-loss durability of the file system (fsync, rename atomicity across a machine crash) is assumed: "
        "crash points are between store operations, not inside one",
        "asynchronous KVStore runs use one driver that issues <= 6 outstanding operations and drives the futures "
        "in reverse / permuted order (one by one or spawned together on a tokio runtime); a run uses one API only",
        "a lazy removal is either landed or not at a crash; while running it is visible as removed",
        "after an UnrecoverableError the node stops (ChainMonitor panics); no further persistence is modelled",
        "monitor equality is the library's `==` after connecting the node's own blocks to the recovered monitor",
        "ChainMonitor driver: the monitor goes on chain by a block past the expiry of a pending outbound HTLC; "
        "archiving is the persister call ChainMonitor makes for a fully resolved monitor (the 4032-block "
        "resolution delay is not run); InProgress is produced by a wrapper around the synchronous persister and "
        "completed through ChainMonitor::channel_monitor_updated (MonitorUpdatingPersisterAsync is not driven)",
    ], time.time() - t0, nviol)
    return nviol
