"""C10 -- restarting from persisted state is safe at every crash point."""
import chan_common as cc

def run(tier, seed):
    return cc.run_check("C10", tier, seed,
        mc_cfgs=(["ChanMC_c10.cfg", "EventHold:EventHold.cfg", "StaleReconcile:StaleReconcile.cfg"], ["ChanMC_c10.cfg", "ChanMC_c10t.cfg", "EventHold:EventHold.cfg", "StaleReconcile:StaleReconcile.cfg"]),
        mutant_cfgs=("EventHold:EventHoldMutant.cfg", "StaleReconcile:StaleReconcileMutant.cfg"),
        mc_actions_by_module={"EventHold": ("RecvFulfil", "RecvCS", "RecvRAA", "Handle", "Refuse", "ForgetLands", "PersistManager", "Crash"),
                              "StaleReconcile": ("Resolve", "Crash")},
        profiles=[("crash", 2, 200), ("crashcross", 2, 300), ("crash", 3, 80)],
        thorough_profiles=[("crash", 2, 2000), ("crashcross", 2, 2500), ("crash", 3, 800)],
        families=[("inflight", 250), ("inflightadd", 200), ("stalehold", 200), ("staletwo", 200), ("evhold", 250), ("fwdlate", 60), ("chainsettle", 80), ("downclose", 60)],
        thorough_families=[("inflight", 2500), ("inflightadd", 2000), ("stalehold", 1500), ("staletwo", 1500), ("evhold", 2000), ("failwin", 800), ("fwdlate", 400), ("chainsettle", 400), ("downclose", 500)],
        mc_actions=("MAdd", "MSendCS", "MSendRAA", "MDeliver", "MSave", "MCrash"),
        assumptions=cc.COMMON_ASSUMPTIONS + [
            "the ChannelManager snapshot a node restarts from was written either while none of its monitor updates was "
            "in flight, or while some were and the node has released no message since (the held messages are still "
            "held: the restarted node replays the in-flight updates or finds them landed); a snapshot taken while "
            "messages were held that were released before the crash is not used (the observer would have to "
            "fast-forward the restored state). Monitors are durable up to every completed write, later in-flight "
            "writes landed or not as the script chooses",
            "on-chain resolution after an OutdatedChannelManager force-close is judged by the on-chain checks; here: "
            "read succeeds, stale channels are closed and never resumed, the broadcast commitment is not revoked, "
            "every other channel resumes and all its HTLCs resolve"])
