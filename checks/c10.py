"""C10 -- restarting from persisted state is safe at every crash point."""
import chan_common as cc

def run(tier, seed):
    return cc.run_check("C10", tier, seed,
        mc_cfgs=(["ChanMC_c10.cfg"], ["ChanMC_c10.cfg", "ChanMC_c10t.cfg"]),
        profiles=[("crash", 2, 200), ("crashcross", 2, 300), ("crash", 3, 80)],
        thorough_profiles=[("crash", 2, 5000), ("crashcross", 2, 6000), ("crash", 3, 2000)],
        mc_actions=("MAdd", "MSendCS", "MSendRAA", "MDeliver", "MSave", "MCrash"),
        assumptions=cc.COMMON_ASSUMPTIONS + [
            "the ChannelManager snapshot a node restarts from was written while none of its monitor updates was in "
            "flight (nothing was being held back); monitors are durable up to every completed write, later in-flight "
            "writes landed or not as the script chooses",
            "on-chain resolution after an OutdatedChannelManager force-close is judged by the on-chain checks; here: "
            "read succeeds, stale channels are closed and never resumed, the broadcast commitment is not revoked, "
            "every other channel resumes and all its HTLCs resolve"])
