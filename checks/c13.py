"""C13 -- peer messages round-trip through the wire format and decoding is total.

Level `exploration` (DESIGN.md 7): the TLA+ model spec/Wire.tla contributes the *grammar* of a
message (type-id class . fixed part . TLV stream . tail) and the verdict each shape must get; field
values are sampled.

1. TLC enumerates (spec/WireGen.tla) every abstract message with a TLV stream of <= MaxRecs records
   over the abstract type line of a kind with nk <= 4 known TLVs, <= 1 defect per stream, every
   tail / fixed-part / message-type class; it checks that the code-shaped stream scanner agrees
   with the BOLT-1 rule list and that accepted streams are prefix closed, and prints the cases.
2. The Rust engine `wirecodec` builds seeded values of every message kind wire.rs dispatches,
   applies the abstract shapes to their real encodings (and generates truncations at every prefix,
   out-of-range patches, single-byte mutations, random strings), runs the real decoders (per-kind
   codec, wire::read, a loop-back PeerManager pair) and records what it observed.  The size classes
   TLC enumerates (0, 1, b-1, b, b+1, 2b-1, 2b, 2b+1 for the codec-internal boundaries b = 64, 253,
   4096; random; the maximum that fits into a 65535-byte message) are applied to every
   variable-length field of every kind, to the value of an unknown odd TLV and to the payload of
   unknown message types; the trace spec also checks that the measured length is the one the class
   denotes.
3. TLC validates every record against Verdict(shape) of Wire.tla (spec/WireTrace.tla).
"""
import json, os, random, time
import vlib

PID = "C13"

NONTRIVIAL_SRC = ("tlc", "truncate", "fixed_badvalue", "inner_length", "typeid", "peer_typeid", "construct", "size")


def gen_cases(wd, thorough):
    """TLC enumeration of the abstract messages."""
    cfgs = ["WireGen.cfg"] + (["WireGen4.cfg"] if thorough else [])
    cases, mcs = {}, []
    for cfg in cfgs:
        r = vlib.tlc_mc(PID, "WireGen", cfg, workers=12, timeout=1500 if thorough else 300)
        if r["violated"]:
            raise vlib.ToolError("grammar model violates %s in %s (spec needs correction)" % (r["violated"], cfg))
        vlib.require_coverage(r, ["AddKnown", "AddUnknownOdd", "AddUnknownEven", "AddNonMinimal", "AddOverrun",
                                  "AddBadValue", "CutTail"], cfg)
        got = vlib.tlc_printed(r["out"], "CASE")
        vlib.log("[mc] %s: %d distinct states, depth %d, %d cases, %.0fs" % (cfg, r["distinct"], r["depth"], len(got), r["wall_s"]))
        if len(got) < r["distinct"]:
            raise vlib.ToolError("TLC printed %d cases for %d states" % (len(got), r["distinct"]))
        for c in got:
            cases[json.dumps(c["m"], sort_keys=True)] = c
        r.pop("out")
        mcs.append((cfg, r))
    lst = [cases[k] for k in sorted(cases)]
    path = os.path.join(wd, "cases.ndjson")
    with open(path, "w") as f:
        for c in lst:
            f.write(json.dumps(c) + "\n")
    return path, lst, mcs


def engine_args(tier, seed, cpath, tpath, dpath):
    if tier == "thorough":
        p = {"seeds": 4, "tlv3": 1000000, "trunc": 700, "mutate": 300, "random": 1500, "peer": 40}
    else:
        p = {"seeds": 1, "tlv3": 1200, "trunc": 240, "mutate": 60, "random": 100, "peer": 8}
    a = ["--cases", cpath, "--out", tpath, "--detail", dpath, "--seed", seed]
    for k, v in p.items():
        a += ["--" + k, v]
    return a


def validate_chunked(tpath, chunk=120000, max_failures=6):
    """TLC deserialises the whole NDJSON file into one value: validate large traces in slices
    (records are independent, each carries its own `run` id)."""
    with open(tpath) as f:
        lines = f.read().splitlines()
    total, fails = 0, []
    for n, i in enumerate(range(0, len(lines), chunk)):
        part = lines[i:i + chunk]
        if len(lines) <= chunk:
            path = tpath
        else:
            path = "%s.part%d" % (tpath, n)
            with open(path, "w") as f:
                f.write("\n".join(part) + "\n")
        t, fl = vlib.validate_trace(PID, "WireTrace", "WireTrace.cfg", path, timeout=2400,
                                    max_failures=max(1, max_failures - len(fails)), tag="t%d_" % n)
        total += t
        fails += fl
        if path != tpath:
            os.remove(path)
        if len(fails) >= max_failures:
            break
    return total, fails


def selftest(wd, good):
    """Binding self-test: corruptions of accepted records must each be rejected by the trace spec."""
    recs = [json.loads(x) for x in good]

    def first(pred):
        for k, r in enumerate(recs):
            if pred(r):
                return k
        return None

    muts = []

    def add(name, k, **chg):
        if k is None:
            return
        m = [dict(x) for x in recs[max(0, k - 3):k + 3]]
        i = k - max(0, k - 3)
        m[i].update(chg)
        muts.append((name, m))

    grammar = lambda r: not r["m"]["opaque"]
    add("accept-shown-as-reject", first(lambda r: grammar(r) and r["obs"] == "accept" and r["src"] == "tlc"), obs="reject")
    add("reject-shown-as-accept", first(lambda r: grammar(r) and r["obs"] == "reject" and r["src"] == "tlc"), obs="accept", eq=True, rt=True)
    add("decoded-value-differs", first(lambda r: grammar(r) and r["obs"] == "accept" and r["exp"] and len(r["m"]["recs"]) > 0), eq=False)
    add("reencoding-not-stable", first(lambda r: r["m"]["opaque"] and r["obs"] == "accept"), rt=False)
    add("truncation-accepted", first(lambda r: r["src"] == "truncate" and r["m"]["fixed"] == "truncated"), obs="accept", eq=True, rt=True)
    add("odd-type-rejected", first(lambda r: r["level"] == "wire" and r["m"]["tid"] == "unknown_odd"), obs="reject")
    add("odd-type-disconnects", first(lambda r: r["level"] == "peer" and r["m"]["tid"] == "unknown_odd"), obs="reject")
    add("even-type-ignored", first(lambda r: r["level"] == "peer" and r["m"]["tid"] == "unknown_even"), obs="ignore")
    add("inner-overrun-accepted", first(lambda r: r["src"] == "inner_length" and r["m"]["inner"] == "overrun"), obs="accept", eq=True, rt=True, canon=False)
    add("inner-length-not-reencoded", first(lambda r: r["src"] == "inner_length" and r["m"]["inner"] in ("boundary", "retained") and r["cexp"] and r["obs"] == "accept"), canon=False)
    add("over-read", first(lambda r: r["obs"] == "accept"), over=True)
    # size classes: the verdict is bound to the record, and the measured length to the class
    sized = lambda r, pos=None: r["src"] == "size" and (pos is None or r["m"]["size"]["pos"] in pos)
    add("sized-field-not-decoded", first(lambda r: sized(r, ("2bp1",)) and r["level"] == "codec" and r["obs"] == "accept"), obs="reject", eq=False, rt=False)
    add("sized-field-decoded-differently", first(lambda r: sized(r, ("bp1",)) and r["level"] == "codec" and r["obs"] == "accept"), eq=False)
    k = first(lambda r: sized(r, ("b", "2b")) and r["level"] == "codec")
    add("size-class-not-exercised", k, n=(recs[k]["n"] + 1) if k is not None else 0)
    k = first(lambda r: sized(r, ("max",)) and r["level"] == "codec")
    add("max-size-not-maximal", k, total=(recs[k]["total"] - 4000) if k is not None else 0)
    k = first(lambda r: sized(r, ("rand",)) and r["level"] == "codec")
    add("sized-message-not-a-message", k, total=65536)
    add("sized-odd-payload-disconnects", first(lambda r: sized(r) and r["level"] == "peer" and r["obs"] == "ignore"), obs="reject")
    add("panic", first(lambda r: r["m"]["opaque"]), ev="panic", obs="panic")
    rejected = 0
    for name, m in muts:
        p = os.path.join(wd, "selftest-%s.ndjson" % name)
        with open(p, "w") as f:
            for r in m:
                f.write(json.dumps(r) + "\n")
        _, fails = vlib.validate_trace(PID, "WireTrace", "WireTrace.cfg", p, max_failures=1, tag="st")
        if fails:
            rejected += 1
        else:
            vlib.log("[selftest] corruption %s was NOT rejected" % name)
    if rejected != len(muts) or len(muts) < 16:
        raise vlib.ToolError("binding self-test: %d of %d corrupted traces rejected" % (rejected, len(muts)))
    return {"mutations": len(muts), "rejected": rejected}


def run(tier, seed):
    t0 = time.time()
    wd = vlib.workdir(PID)
    bins = vlib.build(["wirecodec"])
    thorough = tier == "thorough"

    # ---- 1. grammar model: enumeration + scanner/rule agreement
    cpath, cases, mcs = gen_cases(wd, thorough)
    by_verdict = {}
    for c in cases:
        by_verdict[c["v"] + "/" + c["why"]] = by_verdict.get(c["v"] + "/" + c["why"], 0) + 1

    # ---- 2. the real decoders
    tpath = os.path.join(wd, "trace.ndjson")
    dpath = os.path.join(wd, "detail.ndjson")
    p = vlib.run_bin(bins["wirecodec"], engine_args(tier, seed, cpath, tpath, dpath), timeout=3000)
    summ = json.loads(p.stdout.strip().splitlines()[-1])
    vlib.log("[wirecodec] %s" % {k: summ[k] for k in ("cases", "kinds", "tlv_kinds_bound", "by_src", "by_obs", "panics", "unconcretizable",
                                                       "size_unconcretizable", "peer_failures")})

    # ---- 3. trace validation (the oracle)
    total, fails = validate_chunked(tpath)
    nviol = 0
    for fl in fails:
        runid = fl["run"]
        detail = None
        try:
            od = os.path.join(wd, "only-%d" % runid)
            a = engine_args(tier, seed, cpath, od + ".trace", od + ".detail") + ["--only", runid]
            vlib.run_bin(bins["wirecodec"], a, timeout=3000)
            with open(od + ".detail") as f:
                detail = json.loads(f.readline())
        except Exception as e:  # the replay detail is a convenience
            detail = {"error": "could not re-run for full detail: %s" % e}
        rec = fl["rec"]
        model = None
        if isinstance(detail, dict):
            ci = (detail.get("info") or {}).get("ctx", {}).get("tlc_case") if isinstance((detail.get("info") or {}).get("ctx"), dict) else (detail.get("info") or {}).get("tlc_case")
            if ci is not None and ci < len(cases):
                model = {"verdict": cases[ci]["v"], "why": cases[ci]["why"]}
        key = "panic" if rec.get("ev") == "panic" else None
        if vlib.report_violation(PID, "%s-run%d" % (rec.get("kind", "x"), runid), {
                "property": PID, "kind": fl["kind"], "message_kind": rec.get("kind"), "level": rec.get("level"),
                "family": rec.get("src"), "abstract_message": rec.get("m"), "model_verdict": model,
                "observed": {k: rec.get(k) for k in ("ev", "obs", "exp", "eq", "rt", "over", "cexp", "canon", "n", "unit", "total")},
                "detail": detail,
                "how_to_replay": "harness/target/debug/wirecodec %s --only %d ; the `hex` of `detail` is the input "
                                 "(payload for level codec, type-prefixed for wire/peer); "
                                 "TRACE=<trace> tlc -config WireTrace.cfg WireTrace.tla" %
                                 (" ".join(str(x) for x in engine_args(tier, seed, "work/C13/cases.ndjson", "t.ndjson", "d.ndjson")), runid)},
                key=key):
            nviol += 1

    # ---- 4. vacuity guards + binding self-test (only meaningful on an accepted trace)
    # (all guards that depend on what the code under test did come after the verdicts and only apply
    # when no violation was found: a broken library must give exit 1, not a tool error)
    st = None
    if not fails:
        if summ["peer_failures"]:
            raise vlib.ToolError("the loop-back PeerManager pair could not be set up in %d cases" % summ["peer_failures"])
        if summ["kinds_built"] != summ["kinds"]:
            raise vlib.ToolError("vacuity: %d of %d message kinds could be built" % (summ["kinds_built"], summ["kinds"]))
        if summ["tlv_kinds_bound"] != summ["tlv_kinds"]:
            raise vlib.ToolError("vacuity: TLV records of %d/%d TLV kinds could be located" % (summ["tlv_kinds_bound"], summ["tlv_kinds"]))
        for src in ("roundtrip", "tlc", "truncate", "fixed_badvalue", "inner_length", "mutate", "random", "typeid", "peer_typeid", "size"):
            if summ["by_src"].get(src, 0) == 0:
                raise vlib.ToolError("vacuity: family %s produced no case" % src)
        if summ["by_obs"].get("accept", 0) * 20 < summ["cases"] or summ["by_obs"].get("reject", 0) * 20 < summ["cases"]:
            raise vlib.ToolError("vacuity: observations are one-sided %s" % summ["by_obs"])
        head = []
        rng = random.Random(seed)
        with open(tpath) as f:
            lines = f.read().splitlines()
        # a slice of every family
        seen = {}
        sized_seen = {}
        for ln in lines:
            r = json.loads(ln)
            z = r["m"]["size"]
            if r["src"] == "size":
                zk = (z["at"], z["bnd"], z["pos"], r["m"]["tid"] == "known")
                sized_seen[zk] = sized_seen.get(zk, 0) + 1
            k = (r["src"], r["level"], r["obs"], r["m"]["tid"], r["m"]["fixed"], r["m"]["inner"], len(r["m"]["recs"]) > 0, r["m"]["opaque"],
                 z["pos"], z["bnd"])
            if seen.get(k, 0) < 3:
                seen[k] = seen.get(k, 0) + 1
                head.append(ln)
        # every size class TLC enumerated was exercised on real encodings, the byte-granular ones on
        # many fields
        for c in cases:
            z = c["m"]["size"]
            if z["pos"] != "none":
                zk = (z["at"], z["bnd"], z["pos"], c["m"]["tid"] == "known")
                if sized_seen.get(zk, 0) < (20 if zk[3] else 4):
                    raise vlib.ToolError("vacuity: size class %s ran on %d fields only" % (zk, sized_seen.get(zk, 0)))
        st = selftest(wd, head)
        vlib.log("[selftest] %s" % st)

    # ---- 5. evidence
    nontrivial, per_src, kinds = [], {}, set()
    samples = []
    with open(tpath) as f:
        for ln in f:
            r = json.loads(ln)
            kinds.add(r["kind"])
            per_src[r["src"]] = per_src.get(r["src"], 0) + 1
            if r["src"] in NONTRIVIAL_SRC or (r["src"] == "roundtrip" and r["m"]["recs"]):
                nontrivial.append((r["kind"], r["level"], r["m"]))
            if len(samples) < 4 and r["src"] == "tlc" and len(r["m"]["recs"]) == 2 + (len(samples) % 2):
                samples.append(r)
    samples += [cases[0], cases[len(cases) // 2]]
    cov = {
        "evaluations": total,
        "distinct_nontrivial": vlib.distinct_count(nontrivial),
        "rule": "Verdict(m) of spec/Wire.tla evaluated by TLC on every recorded case: accept => decoded, equal to the value the "
                "present known records denote, and decode(encode(decoded)) = decoded (+ encode(decoded) = input bytes where an inner "
                "declared length ends on an element boundary / covers retained data); reject => DecodeError (incl. any element "
                "or region overrunning its declared inner length); ignore => unknown "
                "odd type surfaced as Unknown / connection kept; any (opaque bytes) => no panic, no over-read, re-encoding stable; "
                "size family: the measured element count of the sized field is the one its class denotes (SizeOK), the message "
                "fits into 65535 bytes and, for class max, one more element would not",
        "samples": samples,
        "abstract_cases_from_tlc": len(cases),
        "abstract_cases_by_verdict": by_verdict,
        "mc_runs": [{"cfg": c, "distinct": r["distinct"], "generated": r["states"], "depth": r["depth"],
                     "action_coverage": r["coverage"], "wall_s": round(r["wall_s"], 1)} for c, r in mcs],
        "message_kinds": summ["kinds"], "tlv_kinds": summ["tlv_kinds"], "wire_dispatched_kinds": summ["wire_kinds"],
        "cases_by_family": per_src, "observations": summ["by_obs"],
        "abstract_cases_not_concretizable": summ["unconcretizable"],
        "size_classes_from_tlc": sum(1 for c in cases if c["m"]["size"]["pos"] != "none"),
        "size_cases_not_concretizable": summ["size_unconcretizable"],
        "impl_panics": summ["panics"], "binding_selftest": st,
        "exhaustive": False,
    }
    vlib.write_evidence(PID, tier, seed, "exploration", cov, [
        "field values are sampled (seeded), only the message grammar (incl. the size class of one variable-length field per "
        "case) is enumerated by TLC",
        "size classes are applied to one field at a time, on a value whose other fields are small; the boundaries are the ones "
        "found in the codec (64: io_extras copy/read_to_end, 253: BigSize/CollectionLength, 4096: onion-message packet, "
        "65535: u16 prefixes / message limit, reached only as class max); a field whose type cannot hold a class "
        "(hostname > 255, prevtx of 1..59 bytes, >= 8192 short ids) is skipped and counted",
        "ChannelUpdate values have the must-be-one message flag set and NodeAnnouncement.excess_address_data starts with an "
        "address type this version does not know (what the library itself constructs / retains)",
        "reads past the outer message length are excluded by the LengthLimitedRead contract; confinement to inner declared "
        "lengths is checked through the verdicts of TLV overrun / short-value cases and of the inner_length family (addrlen "
        "vs each address type, prevtx_len, witness lengths, encoded_short_ids, u16-prefixed data/padding/script/onion blobs)",
        "unknown even/odd message types are judged at wire::read (surfaced as Unknown) and end to end on a loop-back "
        "PeerManager pair with IgnoringMessageHandler as custom reader",
    ], time.time() - t0, nviol)
    return nviol
