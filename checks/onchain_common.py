"""Shared driver of the on-chain checks C06 (revoked commitments are fully punished) and C07
(after a unilateral close every entitled output is recovered, validly and in time):
engine `onchain` + spec OnChain.tla.

    design check   TLC on OnChainMC.tla: an ideal monitor against every cheater subset / peer race /
                   confirmation order and delay (small bounds) meets every obligation of OnChain.tla
    behaviours     TLC's completed runs -> driver scripts (which HTLC mix, which second-stage
                   subsets confirm when, who is starved, where the node is reloaded)
    random drivers seeded histories (<= 6 updates, dust / near-dust / large HTLCs both ways, fee
                   changes, three channel types), every revoked index, all eleven block-delivery
                   styles, fee-estimator changes, rebroadcast timers, reloads; C07: a family of
                   anchor-channel holder closes whose claims (anchor bump of the commitment, zero-fee
                   HTLC transactions) are starved for several bump intervals while the fee
                   estimators collapse (by more than 5x) and spike between the bumps
    shapes         the cheater's second-stage transactions in every shape SIGHASH_SINGLE|ANYONECANPAY allows (model:
                   Layout in OnChainMC.tla; engine: op `cheat`, hand-assembled from the old-state monitor's
                   HTLCDescriptors, signed by the real second node), profile c06s
    histories      reorganisations that unconfirm the commitment / second-stage transactions / claims and let them
                   confirm again (model: MUnwind, MBlockBack; engine: op `unwind`), profiles c06r, c07u
    two channels   a node with two (three) unilaterally closed channels -- holder- and counterparty-broadcast closes, all
                   channel types, pending HTLCs -- whose matured SpendableOutputs (StaticPaymentOutput / DelayedPaymentOutput /
                   StaticOutput mixed) are swept in ONE spend_spendable_outputs call (what OutputSweeper does), per event, one
                   by one and in random batches (model: Features "second", MOther, SweepSets; engine: cfg.second, op `close2`,
                   cfg.sweep), profiles c07m, c06m; obligation Sweep of OnChain.tla: every request for reported outputs is
                   answered by a valid, final transaction spending exactly them
    spec mutants   an ideal monitor with a planted defect (ignores second-stage transactions whose input and output
                   counts differ; never claims an output twice) must be refuted by TLC
    oracle         TLC validates every recorded run against OnChainTrace.tla
"""
import json, os, random, time, copy
import vlib

TYPES = ["static", "anchors", "zerofee"]
ECON = 1000   # = Uneconomic in OnChain.tla


# ------------------------------------------------------------------ TLC behaviour -> engine script
def convert_script(s, rng):
    """One completed run of OnChainMC (abstract) -> engine script."""
    revoked = s["mode"] == "revoked"
    owner = 1
    # the node under test with a second closed channel (the model's Hub: the victim / node 0), deferred sweeping
    second, hold = bool(s.get("second")), bool(s.get("hold"))
    closed2, wide = False, False
    shape = s["shape"]
    hist, pay_of, kind_of = [], {}, {}
    for h in shape:
        if h["hash"] in pay_of:
            continue
        frm = owner if h["k"] == "offered" else 1 - owner
        pay_of[h["hash"]] = len(pay_of)
        kind_of[h["hash"]] = h["k"]
        op = {"op": "pay", "from": frm, "amt": rng.choice(["big", "big", "small"])}
        # several HTLCs with one payment hash: the parts of one multi-part payment over the channel
        parts = sum(1 for x in shape if x["hash"] == h["hash"])
        if parts > 1:
            op.update({"parts": parts, "vary": rng.random() < 0.5, "stagger": rng.choice([0, 0, 3])})
        hist.append(op)
    claimed = set()
    for h in shape:
        if h["k"] == "received" and h["pk"] and h["hash"] not in claimed:
            claimed.add(h["hash"])
            hist.append({"op": "claim", "pay": pay_of[h["hash"]], "deliver": False})
    # hand-made second-stage transactions (shapes other than one output per input) need an anchor channel
    manual = revoked and any(o["op"] == "block" and o.get("layout", "plain") != "plain" for o in s["ops"])
    chain = []
    if revoked:
        hist += [{"op": "mark", "owner": owner}, {"op": "deliver_all"},
                 {"op": "pay", "from": 1 - owner, "amt": "small"}]
        close = {"kind": "revoked", "owner": owner, "k": "mark"}
        chain.append({"op": "mine", "who": [2], "agent_htlcs": []})
        base = [2, 3] if second else [2]
    else:
        r = rng.random()
        close = ({"kind": "force", "node": owner, "deliver_error": False} if r < 0.5
                 else {"kind": "counterparty", "owner": owner, "which": "current"})
        chain.append({"op": "mine", "who": [owner, 3], "prefer": "old"})
        base = [3]
    cheated, depth = [], 0
    for o in s["ops"]:
        if o["op"] == "block":
            who = sorted(set(o["who"]) | set(base))
            pays = [pay_of[h] for h in o["cheat"] if h in pay_of]
            depth += 1
            if not revoked:
                chain.append({"op": "mine", "who": who, "prefer": rng.choice(["new", "old"])})
            elif o["cheat"]:
                if manual:
                    seq = [pay_of[h] for h in o["seq"]]
                    if o["layout"] == "plain":
                        # one transaction per kind (HTLC-success and HTLC-timeout cannot share one), or one per HTLC
                        for kind in ("received", "offered"):
                            grp = [pay_of[h] for h in o["seq"] if kind_of[h] == kind]
                            if grp and rng.random() < 0.5:
                                for g in grp:
                                    chain.append({"op": "cheat", "pays": [g], "ins": [1], "outs": [1]})
                            elif grp:
                                chain.append({"op": "cheat", "pays": grp, "ins": list(range(1, len(grp) + 1)), "outs": list(range(1, len(grp) + 1))})
                    else:
                        chain.append({"op": "cheat", "pays": seq, "ins": o["ins"], "outs": o["outs"]})
                cheated += [p for p in pays if p not in cheated]
                chain.append({"op": "mine", "who": who, "agent_pays": pays})
            else:
                chain.append({"op": "mine", "who": [w for w in who if w != 2], "agent_pays": []})
            if o["h"] == 13 and shape:
                # the model's expiry height: let the same senders through until the real expiry
                chain.append({"op": "to_expiry", "htlc": 0, "who": [w for w in who if w != 2], "agent_pays": [], "off": 0})
                depth += 6
        elif o["op"] == "unwind":
            # (the model's ANTI_REORG_DELAY is 2, the code's 6: some more blocks on top now and then, as far
            #  as the library's reorganisation assumption allows)
            if depth <= 2 and rng.random() < 0.4:
                k = rng.randrange(1, 4 - depth + 1)
                chain.append({"op": "mine", "who": "none", "n": k})
            chain.append({"op": "unwind", "target": o["target"], "extra": o["extra"], "keep": not o["evict"]})
            r = rng.random()
            if r < 0.15:
                chain.append({"op": "rebroadcast", "node": 1 - owner})
            elif r < 0.3:
                chain.append({"op": "reload", "node": 1 - owner})
            depth = 0
        elif o["op"] == "back":
            who = sorted(set(o["who"]) | set(base) | ({3} if revoked else {3, owner}))
            chain.append({"op": "mine", "who": who, "agent_pays": list(cheated)} if revoked else {"op": "mine", "who": who, "prefer": "old"})
            depth += 1
        elif o["op"] == "preimage":
            chain.append({"op": "preimage", "pay": pay_of[o["hash"]]})
            if rng.random() < 0.15:
                # the tip is replaced right after the claim was made; is the claim still pursued?
                chain.append({"op": "reorg", "depth": rng.randrange(1, 3), "add": rng.randrange(1, 3)})
                chain += [{"op": "rebroadcast", "node": 0}, {"op": "rebroadcast", "node": 1}]
        elif o["op"] == "reload":
            chain.append({"op": "reload", "node": o["node"]})
        elif o["op"] == "other" and second and not closed2:
            # the first output of the node's other channel is reported: that channel has gone to the chain -- by the
            # node's own commitment (its delayed balance) or by its peer's (its balance on the peer's commitment)
            closed2 = True
            kind2 = "holder" if o["out"] == 1 else "counterparty"
            if len(chain) == 1:
                close["close2"] = kind2
            else:
                chain.append({"op": "close2", "kind": kind2})
        elif o["op"] == "sweep":
            wide = wide or 0 < o["other"] < o["k"]
    chain.append({"op": "settle"})
    if not revoked and rng.random() < 0.5 and not any(o["op"] == "unwind" for o in s["ops"]):
        # a fee-estimator trajectory around the model's blocks: high when the channel goes to chain,
        # collapsing / spiking between the blocks
        est = [rng.choice([1000, 2500, 5000, 20000]), rng.choice([253, 1000, 5000, 20000])]
        close["est"] = list(est)
        moved = []
        for o in chain:
            if o["op"] in ("mine", "to_expiry") and rng.random() < 0.6:
                n = rng.randrange(2)
                r = rng.random()
                est[n] = max(253, min(40000, est[n] // rng.randrange(6, 40) if r < 0.6 else est[n] * rng.randrange(2, 12)))
                moved.append({"op": "feerate", "node": n, "v": est[n]})
            moved.append(o)
        chain = moved
    cfg = {"chan_type": rng.choice(TYPES[1:] if manual else TYPES), "value": 1000000, "push": rng.choice([100000000, 400000000, 500000000]),
           "feerate": rng.choice([253, 1000, 2500]), "style": [rng.randrange(11), rng.randrange(11)]}
    if manual:
        cfg["agent_manual"] = True
    if second:
        htlcs = []
        r = rng.random()
        if r < 0.2:
            htlcs.append({"from": "hub", "amt": rng.randrange(5000000, 60000000)})
        elif r < 0.45:
            htlcs.append({"from": "peer", "amt": rng.randrange(5000000, 60000000), "known": rng.random() < 0.8})
        cfg["second"] = {"hub": 1 - owner, "chan_type": rng.choice(TYPES), "value": rng.choice([600000, 800000, 1200000]),
                         "push": rng.choice([100000000, 250000000, 300000000]), "htlcs": htlcs}
        # one call for everything the node holds (the model's sweep over both channels), or as the application likes
        cfg["sweep"] = {"mode": "all" if (hold or wide) else rng.choice(["all", "mixed", "event", "each"]), "defer": hold}
    return {"cfg": cfg, "history": hist, "close": close, "chain": chain}


# ------------------------------------------------------------------ reading a run back (for attribution)
class View:
    """The facts of a run up to (and including) event number `upto` (1-based), as OnChain.tla keeps them."""

    def __init__(self, evs, upto):
        self.txs, self.conf, self.com, self.known = {}, {}, None, [set(), set()]
        self.height, self.live, self.refused = 0, [], set()
        self.rewinds, self.late, self.rb = [], {}, None   # rewind targets; (node, hash) -> (height, #rewinds before) of a late preimage
        self.conf_pos, self.rewind_pos = {}, []          # position (event number) of the block that confirmed a tx / of every rewind
        for pos, e in enumerate(evs[:upto]):
            k = e["ev"]
            # what the node asked to rebroadcast has covered since (rb of OnChain.tla)
            if self.rb and k == "bcast" and e["by"] == self.rb[0]:
                self.rb[1].update(tuple(x) for x, w in zip(e["ins"], e["wal"]) if not w)
            elif self.rb and k == "bump" and e["node"] == self.rb[0]:
                self.rb[1].update(tuple(x) for x in e["ops"])
            elif k in ("block", "commit", "idle", "jump"):
                self.rb = None
            if k == "open":
                self.live, self.height = e["live"], e["h"]
            elif k == "bcast" and not e["dup"]:
                ins = [tuple(x) for x in e["ins"]]
                self.txs[e["tx"]] = {"by": e["by"], "ins": ins, "chan": [i for i, w in zip(ins, e["wal"]) if not w],
                                     "ok": e["valid"] and e["final"], "sweep": False, "nout": len(e["outs"]), "bh": e["h"],
                                     "amts": [x["amt"] for x in e["outs"]], "feerate": e["feerate"], "weight": e["weight"], "pos": pos}
            elif k == "bcast" and e["dup"] and e["tx"] in self.txs:
                self.txs[e["tx"]].setdefault("again", []).append(e["h"])    # announced again at these heights
            elif k == "sweep" and e["ok"]:
                ins = [tuple(x) for x in e["ins"]]
                self.txs[e["tx"]] = {"by": e["node"], "ins": ins, "chan": ins, "ok": True, "sweep": True, "nout": 1,
                                     "amts": [e["out_amt"]], "feerate": 0, "weight": 0, "bh": e["h"], "pos": pos}
            elif k == "commit":
                self.com = e
                self.known = [set(e["known"][0]), set(e["known"][1])]
            elif k == "block":
                self.height = e["h"]
                for t in e["txs"]:
                    self.conf[t] = e["h"]
                    self.conf_pos[t] = pos
            elif k in ("idle", "jump"):
                self.height = e["h"]
            elif k == "rewind":
                self.height = e["h"]
                self.rewinds.append(e["h"])
                self.rewind_pos.append(pos)
                self.rb = None
                for t in e.get("unconf", []):
                    self.conf.pop(t, None)
                for t in e.get("evicted", []):
                    if t in self.txs:
                        self.txs[t]["ok"] = False
            elif k == "preimage":
                self.known[e["node"]].add(e["hash"])
                self.late[(e["node"], e["hash"])] = (e["h"], len(self.rewinds))
                self.rb = None
            elif k == "rebroadcast":
                self.rb = (e["node"], set())
            elif k == "ldk_log" and e.get("what") == "bump_refused":
                self.refused.add(e["node"])

    def spender(self, o):
        for t in self.conf:
            if t in self.txs and o in self.txs[t]["ins"]:
                return t
        return None

    def live_claim(self, n, o):
        for t, x in self.txs.items():
            if x["by"] == n and not x["sweep"] and o in x["chan"] and t not in self.conf and x["ok"] \
                    and all(self.spender(i) is None for i in x["chan"]):
                return True
        return False

    def uncovered(self, n):
        """Outputs node n has to claim now (C06: as the victim; C07: entitled and mature) that are unspent
        and have no live claim of n."""
        c = self.com
        if not c or c["tx"] not in self.conf:
            return []
        res = []
        owner = c["owner"]
        if c["revoked"]:
            if n != 1 - owner:
                return []
            cand = [(c["tx"], r["v"]) for r in c["outs"] if r["k"] in ("to_local", "offered", "received")]
            for t in self.conf:
                x = self.txs.get(t)
                if x and x["by"] == 2 and t != c["tx"]:
                    cand += [(t, j) for j, i in enumerate(x["ins"]) if i[0] == c["tx"] and j < x["nout"]]
        else:
            cand = []
            for r in c["outs"]:
                if r["k"] not in ("offered", "received"):
                    continue
                outbound = (n == owner) == (r["k"] == "offered")
                if (outbound and self.height >= r["exp"]) or (not outbound and r["hash"] in self.known[n]):
                    cand.append((c["tx"], r["v"]))
        for o in cand:
            if self.spender(o) is None and not self.live_claim(n, o):
                res.append(o)
        return res

    def entitled(self, n):
        """Unspent HTLC outputs node n is entitled to right now (honest close), with their records."""
        c = self.com
        res = []
        if not c or c["revoked"]:
            return res
        for r in c["outs"]:
            if r["k"] not in ("offered", "received") or r["amt"] < ECON:
                continue
            outbound = (n == c["owner"]) == (r["k"] == "offered")
            ok = (self.height >= r["exp"]) if outbound else (r["hash"] in self.known[n] and self.height < r["exp"])
            if ok and self.spender((c["tx"], r["v"])) is None:
                res.append(((c["tx"], r["v"]), r, outbound))
        return res

    def bundled_with_settled(self, n, o):
        """Every claim of n for o that is still unconfirmed also spends an output whose spend by n itself had
        been confirmed before that claim was made (it can never confirm)."""
        mine = [x for t, x in self.txs.items() if x["by"] == n and not x["sweep"] and o in x["chan"] and t not in self.conf and x["ok"]]
        def dead(x):
            for i in x["chan"]:
                sp = self.spender(i)
                if i != o and sp is not None and self.txs[sp]["by"] == n and self.conf[sp] < x["bh"]:
                    return True
            return False
        return bool(mine) and all(dead(x) for x in mine)

    def value(self, o):
        """Value of outpoint o (an output of the commitment or of a transaction of the run)."""
        if self.com and o[0] == self.com["tx"]:
            return next((r["amt"] for r in self.com["outs"] if r["v"] == o[1]), None)
        x = self.txs.get(o[0])
        return x["amts"][o[1]] if x and o[1] < len(x.get("amts", [])) else None

    def is_split_remainder(self, n, o):
        """The MECHANISM of the known finding `split_remainder_abandoned`, and nothing else:
          (a) o was part of an aggregated claim of n another input of which a confirmed transaction of somebody
              else has taken (update_claims_view_from_matched_txn splits the package; the remainder inherits
              feerate_previous of the aggregate and is regenerated with FeerateStrategy::ForceBump);
          (b) the remainder cannot pay that inherited, bumped fee: its value less max(1.25 F, F + 253) x weight
              is below the dust limit of the claim's output (package.rs feerate_bump returns None, "Can't bump
              new claiming tx") -- F the highest feerate the aggregate was issued at, the weight bounded from
              above by the aggregate's weight less 300 per input that is gone;
          (c) no double spend is involved: n has issued no transaction for o after a block (other than the newest
              one at that moment) had confirmed a competing spend of one of that transaction's inputs;
          (d) no reorganisation happened since the first such competing spend confirmed.
        A claim that is missing for any other reason -- the node keeps issuing a justice transaction that spends an
        output already spent in the best chain, a reorganisation precedes, the remainder could afford the fee -- is
        NOT this finding."""
        agg = []
        for t, x in self.txs.items():
            if x["by"] != n or x["sweep"] or o not in x["chan"] or len(x["chan"]) < 2:
                continue
            taken = [o2 for o2 in x["chan"] if o2 != o and self.spender(o2) is not None and self.txs[self.spender(o2)]["by"] != n]
            if taken:
                agg.append((x, taken))
        if not agg:
            return False
        # (d) no reorganisation since the split
        split_pos = min(self.conf_pos.get(self.spender(o2), -1) for _, taken in agg for o2 in taken)
        if split_pos < 0 or any(p > split_pos for p in self.rewind_pos):
            return False
        # (c) no claim of o issued after one of its inputs had a confirmed spend in an earlier block
        for t, x in self.txs.items():
            if x["by"] != n or x["sweep"] or o not in x["chan"]:
                continue
            for i in x["ins"]:
                sp = self.spender(i)
                if sp is not None and sp != t and max([x["bh"]] + x.get("again", [])) > self.conf[sp]:
                    return False
        # (b) the remainder's value against the inherited fee
        x = max((a for a, _ in agg), key=lambda a: (a["feerate"], a["pos"]))
        rest = [i for i in x["chan"] if self.spender(i) is None]
        vals = [self.value(i) for i in rest]
        if o not in rest or any(v is None for v in vals):
            return False
        V, F = sum(vals), x["feerate"]
        w = max(400, x["weight"] - 300 * (len(x["chan"]) - len(rest)))
        need = max(F + F // 4, F + 253) * w // 1000
        return V < 1100 or V - need < 546


def classify(fail):
    """-> KNOWN_FINDINGS key of a failed run, or None."""
    ev = fail["rec"]
    if ev.get("ev") == "panic":
        if "pending_claim_requests.get(&claim_id).is_none()" in ev.get("msg", ""):
            return "panic_duplicate_timelocked_claim"
        return None
    evs = fail["run_events"]
    v = View(evs, fail["pos_in_run"])
    if fail.get("inv") == "RebroadcastCovers" and v.rb and v.com:
        # Which claims did the node not pursue any more when asked to rebroadcast?  All of them preimage
        # claims made after the close (provide_payment_preimage) at a height the chain was later taken
        # back below: keyed by the code path that registered the claim.
        n, cov = v.rb
        paths = set()
        for o, r, outbound in v.entitled(n):
            if o in cov:
                continue
            lp = v.late.get((n, r["hash"]))
            if outbound or lp is None or not any(h < lp[0] for h in v.rewinds[lp[1]:]):
                return None
            if n == v.com["owner"]:
                paths.add("holder_commitment")
            elif lp[0] - v.com["h"] + 1 >= 6:
                paths.add("counterparty_commitment_buried")
            else:
                return None
        if len(paths) == 1:
            return "preimage_claim_lost_on_tip_reorg_" + paths.pop()
        return None
    unc = [(n, o) for n in v.live for o in v.uncovered(n)]
    if unc and all(v.is_split_remainder(n, o) and n in v.refused for n, o in unc):
        return "split_remainder_abandoned"
    if unc and v.com and not v.com["revoked"] and all(n == v.com["owner"] and v.bundled_with_settled(n, o) for n, o in unc):
        return "late_preimage_claim_bundled_with_settled_htlc"
    return None


# ------------------------------------------------------------------ binding self-test
def _write(path, evs):
    with open(path, "w") as f:
        for r in evs:
            f.write(json.dumps(r) + "\n")


def selftest(pid, wd, tpaths, skip_runs=()):
    """Corrupt accepted runs in ways that break each obligation; every corruption must be rejected.
    tpaths: [(batch name, trace file)]; skip_runs: {batch name: runs that were not accepted}."""
    runs = {}
    for bname, tpath in tpaths:
        with open(tpath) as f:
            for ln in f:
                r = json.loads(ln)
                if r["run"] not in skip_runs.get(bname, ()):
                    runs.setdefault((bname, r["run"]), []).append(r)
    muts = []

    def first_run(pred):
        for k, evs in runs.items():
            x = pred(evs)
            if x is not None:
                return evs, x
        return None, None
    confirmed = lambda evs: {t for e in evs if e["ev"] == "block" for t in e["txs"]}
    # (1) a claim by a node under test that was not consensus-valid
    evs, k = first_run(lambda evs: next((i for i, e in enumerate(evs) if e["ev"] == "bcast" and not e["dup"] and e["by"] < 2 and e["kind"] == "Claim"), None))
    if evs:
        m = copy.deepcopy(evs); m[k]["valid"] = False; muts.append(("claim-invalid", m))
        m = copy.deepcopy(evs); m[k]["final"] = False; muts.append(("claim-not-final", m))
    # (2) a claim is dropped that was, at some checkpoint, the only live claim of an output the node had to claim
    def needed_claim(evs):
        c = confirmed(evs)
        cands = [e for e in evs if e["ev"] == "bcast" and not e["dup"] and e["by"] < 2 and e["kind"] == "Claim" and e["tx"] not in c]
        for e in cands[:12]:
            for p, x in enumerate(evs):
                if x["ev"] != "state":
                    continue
                v = View(evs, p + 1)
                if e["tx"] not in v.txs or not v.com:
                    continue
                del v.txs[e["tx"]]
                amt = {(v.com["tx"], r["v"]): r["amt"] for r in v.com["outs"]}
                unc = v.uncovered(e["by"])
                if unc and all(amt.get(o, ECON) >= ECON for o in unc):
                    return e["tx"]
        return None
    evs, k = first_run(needed_claim)
    if evs:
        m = [e for e in evs if not (e["ev"] == "bcast" and e["tx"] == k)]; muts.append(("claim-dropped", m))
    # (3) a re-issued claim with a lower feerate
    def rebump(evs):
        seen = {}
        for i, e in enumerate(evs):
            if e["ev"] == "bcast" and not e["dup"] and e["by"] < 2 and e["kind"] == "Claim":
                key = (e["by"], json.dumps(sorted(x for x, w in zip(e["ins"], e["wal"]) if not w)))
                if key in seen and seen[key] > 240:
                    return (i, seen[key])
                seen[key] = e["pfeerate"]
        return None
    evs, k = first_run(rebump)
    if evs:
        m = copy.deepcopy(evs); m[k[0]]["pfeerate"] = k[1] * 2 // 3; muts.append(("bump-lowers-feerate", m))
    # (3b) a repeated BumpTransactionEvent of a still unconfirmed claim asks for a lower feerate
    def rebump_request(evs):
        seen, c = {}, set()
        for i, e in enumerate(evs):
            if e["ev"] == "block":
                c |= set(e["txs"])
            elif e["ev"] == "bump":
                key = (e["node"], e["claim"])
                # (none of the outputs the request is for has a confirmed spend: every transaction that
                #  spends one of them is known to the trace, so look them up among the confirmed ones)
                spent = any(x["ev"] in ("bcast", "sweep") and x.get("tx") in c and any(o in x["ins"] for o in e["ops"]) for x in evs[:i])
                if key in seen and seen[key] > 300 and not spent:
                    return (i, seen[key])
                seen[key] = e["target"]
        return None
    if pid == "C07":
        evs, k = first_run(rebump_request)
        if evs:
            m = copy.deepcopy(evs); m[k[0]]["target"] = k[1] * 4 // 5; muts.append(("bump-request-lowers-target", m))
    # (3c) asked to rebroadcast its pending claims, the node stays silent about an output it is entitled to
    def rebroadcast_cover(evs):
        for i, e in enumerate(evs):
            if e["ev"] != "rebroadcast":
                continue
            n, j = e["node"], i + 1
            while j < len(evs) and evs[j]["ev"] != "state":
                j += 1
            if j >= len(evs):
                continue
            ent = [o for o, _, _ in View(evs, j).entitled(n)]
            keep, drop = set(), []
            for q in range(i + 1, j):
                x = evs[q]
                if x["ev"] == "bcast" and x["by"] == n and not x["dup"]:
                    keep.update(tuple(a) for a, w in zip(x["ins"], x["wal"]) if not w)
                elif (x["ev"] == "bcast" and x["by"] == n) or (x["ev"] == "bump" and x["node"] == n):
                    drop.append(q)
            if drop and any(o not in keep for o in ent):
                return drop
        return None
    if pid == "C07":
        evs, k = first_run(rebroadcast_cover)
        if evs:
            m = [e for i, e in enumerate(evs) if i not in k]; muts.append(("rebroadcast-ignored", m))
    # (4) a SpendableOutputs event is lost / reports a wrong amount
    evs, k = first_run(lambda evs: next((i for i, e in enumerate(evs) if e["ev"] == "spendable"), None))
    if evs:
        m = [e for i, e in enumerate(evs) if i != k]; muts.append(("spendable-dropped", m))
        m = copy.deepcopy(evs); m[k]["outs"][0]["amt"] += 1; muts.append(("spendable-wrong-amount", m))
    # (5) a sweep that the node's keys cannot make valid
    evs, k = first_run(lambda evs: next((i for i, e in enumerate(evs) if e["ev"] == "sweep" and e["ok"]), None))
    if evs:
        m = copy.deepcopy(evs); m[k]["valid"] = False; muts.append(("sweep-invalid", m))
    # (5b) one call for matured outputs of two channels of the node is refused by its OutputSpender / leaves one of them out
    evs, k = first_run(lambda evs: next((i for i, e in enumerate(evs) if e["ev"] == "sweep" and e["ok"] and e.get("signers", 0) >= 2), None))
    if evs:
        m = copy.deepcopy(evs); m[k].update({"ok": False, "tx": 0, "ins": [], "out_amt": 0, "fee": 0, "valid": False, "final": False})
        muts.append(("two-channel-sweep-refused", m))
        m = copy.deepcopy(evs); m[k]["ins"] = m[k]["ins"][:-1]; muts.append(("two-channel-sweep-leaves-output-out", m))
    if pid == "C07":
        def awaiting(evs):
            idx = [i for i, e in enumerate(evs) if e["ev"] == "bal" and any(x["k"] == "awaiting" for x in e["items"])]
            return idx[len(idx) // 2] if idx else None
        evs, k = first_run(awaiting)
        if evs:
            m = copy.deepcopy(evs)
            for it in m[k]["items"]:
                if it["k"] == "awaiting":
                    it["amt"] += 1
                    break
            muts.append(("balance-off-by-one", m))
            m = copy.deepcopy(evs); m[k]["items"].append(dict(m[k]["items"][0]) if m[k]["items"][0]["k"] != "maybe_preimage" else dict([x for x in m[k]["items"] if x["k"] == "awaiting"][0]))
            muts.append(("balance-double-counted", m))
    if pid == "C06":
        # the justice claim of the cheater's balance is not re-issued while its CSV delay runs out
        def reissues_near_expiry(evs):
            com = next((e for e in evs if e["ev"] == "commit"), None)
            op = next((e for e in evs if e["ev"] == "open"), None)
            if not com or not op or not com["revoked"] or any(e["ev"] == "ldk_log" for e in evs):
                return None
            T = com["h"] + op["delays"][com["owner"]]
            tl = [[com["tx"], r["v"]] for r in com["outs"] if r["k"] == "to_local"]
            c = confirmed(evs)
            idx = [i for i, e in enumerate(evs) if e["ev"] == "bcast" and not e["dup"] and e["by"] < 2 and e["tx"] not in c
                   and any(x in tl for x in e["ins"]) and T - 15 <= e["h"] < T]
            return idx if len(idx) >= 3 else None
        evs, k = first_run(reissues_near_expiry)
        if evs:
            m = [e for i, e in enumerate(evs) if i not in k]; muts.append(("justice-reissue-skipped", m))
        # asked to rebroadcast after the fee estimate has risen, the node re-issues a claim at the old feerate
        def raised_on_rebroadcast(evs):
            paid, rbn = {}, None
            for i, e in enumerate(evs):
                if e["ev"] == "rebroadcast":
                    rbn = e["node"]
                elif e["ev"] in ("state", "block", "idle", "jump"):
                    rbn = None
                elif e["ev"] == "bcast" and not e["dup"] and e["by"] < 2:
                    key = (e["by"], json.dumps(sorted(e["ins"])))
                    if rbn == e["by"] and not any(e["wal"]) and key in paid and e["feerate"] >= 2 * paid[key] and e["inval"] >= 4 * ECON:
                        return (i, paid[key])
                    paid[key] = max(paid.get(key, 0), e["feerate"])
            return None
        evs, k = first_run(raised_on_rebroadcast)
        if evs:
            m = copy.deepcopy(evs); m[k[0]]["feerate"] = k[1] + 1; m[k[0]]["pfeerate"] = k[1] + 1
            muts.append(("rebroadcast-keeps-stale-feerate", m))
        # the cheater's confirmed second-stage output is never claimed
        def second_stage(evs):
            c = confirmed(evs)
            agent = {e["tx"] for e in evs if e["ev"] == "bcast" and not e["dup"] and e["by"] == 2 and e["kind"] != "RevokedCommitment" and e["tx"] in c}
            for i, e in enumerate(evs):
                if e["ev"] == "bcast" and not e["dup"] and e["by"] < 2 and any(x[0] in agent for x in e["ins"]):
                    return (i, e["tx"])
            return None
        evs, k = first_run(second_stage)
        if evs:
            i, tx = k
            m = []
            for e in evs:
                if e["ev"] == "bcast" and e["tx"] == tx:
                    continue
                if e["ev"] == "block" and tx in e["txs"]:
                    e = dict(e); e["txs"] = [t for t in e["txs"] if t != tx]
                m.append(e)
            muts.append(("second-stage-unpunished", m))
    if pid == "C06":
        # a hand-made second-stage transaction whose numbers of inputs and outputs differ goes unpunished
        def unpaired(evs):
            c = confirmed(evs)
            odd = {e["tx"] for e in evs if e["ev"] == "bcast" and not e["dup"] and e["by"] == 2 and e["tx"] in c
                   and e["shape"]["ins"] and len(e["shape"]["ins"]) != len(e["shape"]["outs"])}
            for e in evs:
                if e["ev"] == "bcast" and not e["dup"] and e["by"] < 2 and any(x[0] in odd for x in e["ins"]):
                    return e["tx"]
            return None
        evs, tx = first_run(unpaired)
        if evs:
            m = []
            for e in evs:
                if e["ev"] == "bcast" and e["tx"] == tx:
                    continue
                if e["ev"] == "block" and tx in e["txs"]:
                    e = dict(e); e["txs"] = [t for t in e["txs"] if t != tx]
                m.append(e)
            muts.append(("unpaired-second-stage-unpunished", m))
        # the revoked commitment confirms again after a reorganisation in which the network forgot the justice
        # claims: they are not made again
        def reissued(evs):
            com = next((e for e in evs if e["ev"] == "commit"), None)
            if not com or not com["revoked"]:
                return None
            gone = False
            for i, e in enumerate(evs):
                if e["ev"] == "rewind" and com["tx"] in e["unconf"] and e["evicted"]:
                    gone = True
                elif gone and e["ev"] == "block" and com["tx"] in e["txs"]:
                    j = i + 1
                    while j < len(evs) and evs[j]["ev"] != "state":
                        j += 1
                    drop = {x["tx"] for x in evs[i:j] if x["ev"] == "bcast" and x["by"] < 2 and not x["dup"]}
                    big = [r for r in com["outs"] if r["k"] in ("to_local", "offered", "received") and r["amt"] >= ECON]
                    if drop and big:
                        return (i, j, drop)
            return None
        evs, k = first_run(reissued)
        if evs:
            i, j, drop = k
            m = []
            for q, e in enumerate(evs):
                if i <= q < j and e["ev"] == "bcast" and e["tx"] in drop:
                    continue
                if q >= j and e["ev"] == "bcast" and e["tx"] in drop and e["dup"]:
                    continue
                if e["ev"] == "block" and any(t in drop for t in e["txs"]):
                    e = dict(e); e["txs"] = [t for t in e["txs"] if t not in drop]
                m.append(e)
            muts.append(("claims-not-reissued-after-reconfirmation", m))
        # binding of the reorganisation record: a transaction that left the chain is not named
        evs, k = first_run(lambda evs: next((i for i, e in enumerate(evs) if e["ev"] == "rewind" and len(e["unconf"]) >= 1), None))
        if evs:
            m = copy.deepcopy(evs); m[k]["unconf"] = m[k]["unconf"][1:]; muts.append(("rewind-unconfirmed-set-wrong", m))
    rejected, names = 0, []
    for name, m in muts:
        p = os.path.join(wd, "selftest-%s.ndjson" % name)
        _write(p, m)
        _, fails = vlib.validate_trace(pid, "OnChainTrace", "OnChainTrace.cfg", p, max_failures=1, tag="st")
        names.append(name)
        if fails:
            rejected += 1
        else:
            vlib.log("[selftest] corruption %s was NOT rejected" % name)
    need = 10 if pid == "C07" else 12
    if len(muts) < need or rejected != len(muts):
        raise vlib.ToolError("binding self-test: %d of %d corrupted traces rejected (%s)" % (rejected, len(muts), names))
    return {"mutations": len(muts), "rejected": rejected, "kinds": names}


# ------------------------------------------------------------------ the check
def stats_of(tpath):
    st = {"runs": 0, "second_stage_confirmed": 0, "runs_with_second_stage": 0, "claims": 0, "rebumps": 0, "spendable": 0,
          "sweeps": 0, "reloads": 0, "htlc_outputs": 0, "revoked_runs": 0, "honest_runs": 0, "types": {}, "kinds": {},
          "styles": set(), "blocks": 0, "stale_broadcasts": 0, "bump_requests": 0, "rebump_requests": 0,
          "rebumps_after_estimate_fell_5x": {"close": 0, "htlc": 0}, "runs_with_rebump_after_fall": 0,
          "tip_reorgs": 0, "rebroadcast_requests": 0, "rebroadcast_requests_answered": 0,
          "justice_reissues_in_last_15_blocks": 0, "claims_raised_on_rebroadcast": 0,
          # hand-made second-stage transactions of the cheater that confirmed, by shape
          "handmade_second_stage_confirmed": 0, "second_stage_inputs_ne_outputs": 0, "second_stage_aggregated": 0,
          "second_stage_own_input_before_htlc": 0, "second_stage_extra_outputs": 0, "second_stage_timeout_aggregated": 0,
          # reorganisations that unconfirm transactions of the run
          "unwinds": 0, "unwinds_of_commitment": 0, "unwinds_forgetting_claims": 0, "unwinds_of_second_stage": 0,
          "unwinds_of_confirmed_claims": 0, "commitment_reconfirmed": 0, "commitment_reconfirmed_other_height": 0,
          "claims_after_reconfirmation": 0, "max_unwind_depth": 0,
          "runs_with_duplicate_hash_htlcs": 0, "late_preimages_for_duplicate_hashes": 0, "competing_commitment_confirmed": 0,
          "previous_holder_commitment_runs": 0, "late_preimages_on_previous_holder_commitment": 0,
          # a node with two closed channels; how the application sweeps
          "runs_with_second_channel": 0, "second_channel_closes": {"holder": 0, "counterparty": 0}, "spendable_events_of_second_channel": 0,
          "sweeps_of_several_descriptors": 0, "sweeps_needing_two_channel_signers": 0, "sweeps_two_signers_static_payment_and_delayed": 0,
          "sweeps_two_signers_with_static_output": 0, "single_channel_sweeps_in_two_channel_runs": 0, "sweeps_refused": 0,
          "sweep_modes": {}, "deferred_sweep_runs": 0}
    cur = None
    two = False
    dup_hashes, prevh = set(), False
    shapes, comtx, comh, recommitted, agent_all, victim_claims = {}, None, None, False, set(), set()
    agent, conf = set(), set()
    asked, fell, rbn = {}, False, None
    paid, expiry, delays, rbw = {}, None, [0, 0], None
    with open(tpath) as f:
        for ln in f:
            e = json.loads(ln)
            if e["ev"] == "rebroadcast":
                rbw = e["node"]
            elif e["ev"] in ("state", "block", "idle", "jump", "open"):
                rbw = None
            if e["ev"] == "open":
                st["runs"] += 1
                if agent & conf:
                    st["runs_with_second_stage"] += 1
                agent, conf = set(), set()
                asked, fell = {}, False
                paid, expiry, delays = {}, None, e["delays"]
                shapes, comtx, comh, recommitted, agent_all, victim_claims = {}, None, None, False, set(), set()
                dup_hashes, prevh = set(), e["kind"] == "cp_previous" and len(e["live"]) == 2
                st["previous_holder_commitment_runs"] += 1 if prevh else 0
                two = bool(e.get("second"))
                st["runs_with_second_channel"] += 1 if two else 0
                st["sweep_modes"][e.get("sweep", "each")] = st["sweep_modes"].get(e.get("sweep", "each"), 0) + 1
                st["deferred_sweep_runs"] += 1 if e.get("defer") else 0
                st["types"][e["chan_type"]] = st["types"].get(e["chan_type"], 0) + 1
                st["kinds"][e["kind"]] = st["kinds"].get(e["kind"], 0) + 1
                for s in e["styles"]:
                    st["styles"].add(s)
            elif e["ev"] == "commit":
                st["htlc_outputs"] += sum(1 for r in e["outs"] if r["k"] in ("offered", "received"))
                st["revoked_runs" if e["revoked"] else "honest_runs"] += 1
                if comtx is not None and comtx != e["tx"]:
                    st["competing_commitment_confirmed"] += 1
                comtx, comh = e["tx"], e["h"]
                hs = [r["hash"] for r in e["outs"] if r["k"] in ("offered", "received")]
                dup_hashes = {h for h in hs if hs.count(h) > 1}
                st["runs_with_duplicate_hash_htlcs"] += 1 if dup_hashes else 0
                if e["revoked"]:
                    expiry = (e["h"] + delays[e["owner"]], [[e["tx"], r["v"]] for r in e["outs"] if r["k"] == "to_local"])
            elif e["ev"] == "bcast" and not e["dup"]:
                if e["by"] == 2 and e["kind"] != "RevokedCommitment":
                    agent.add(e["tx"])
                    if e["shape"]["ins"]:
                        shapes[e["tx"]] = (e["shape"], e["locktime"])
                if e["by"] < 2 and e["kind"] == "Claim":
                    victim_claims.add(e["tx"])
                    if recommitted:
                        st["claims_after_reconfirmation"] += 1
                if e["by"] < 2 and e["kind"] == "Claim":
                    st["claims"] += 1
                    if expiry and expiry[0] - 15 <= e["h"] <= expiry[0] and any(x in expiry[1] for x in e["ins"]):
                        st["justice_reissues_in_last_15_blocks"] += 1
                    key = (e["by"], json.dumps(sorted(e["ins"])))
                    if rbw == e["by"] and not any(e["wal"]) and key in paid and e["feerate"] > paid[key] + 2 + paid[key] // 50:
                        st["claims_raised_on_rebroadcast"] += 1
                    paid[key] = max(paid.get(key, 0), e["feerate"])
                if e["by"] < 2 and e.get("stale"):
                    st["stale_broadcasts"] += 1
            elif e["ev"] == "rewind":
                st["tip_reorgs"] += 1
                if e["unconf"]:
                    st["unwinds"] += 1
                    st["max_unwind_depth"] = max(st["max_unwind_depth"], e["from"] - e["h"])
                    st["unwinds_of_commitment"] += 1 if comtx in e["unconf"] else 0
                    st["unwinds_forgetting_claims"] += 1 if e["evicted"] else 0
                    st["unwinds_of_second_stage"] += 1 if any(t in agent for t in e["unconf"]) else 0
                    st["unwinds_of_confirmed_claims"] += 1 if any(t in victim_claims for t in e["unconf"]) else 0
                    conf -= set(e["unconf"])
            elif e["ev"] == "rebroadcast":
                st["rebroadcast_requests"] += 1
                rbn = e["node"]
            if rbn is not None and ((e["ev"] == "bcast" and e["by"] == rbn) or (e["ev"] == "bump" and e["node"] == rbn)):
                st["rebroadcast_requests_answered"] += 1
                rbn = None
            elif e["ev"] == "state":
                rbn = None
            if e["ev"] == "bump":
                st["bump_requests"] += 1
                key = (e["node"], e["claim"])
                if key in asked:
                    st["rebump_requests"] += 1
                    if e["est"] * 5 < asked[key]:
                        st["rebumps_after_estimate_fell_5x"][e["kind"]] += 1
                        if not fell:
                            fell = True
                            st["runs_with_rebump_after_fall"] += 1
                asked[key] = e["target"]
            elif e["ev"] == "block":
                st["blocks"] += 1
                for t in e["txs"]:
                    conf.add(t)
                    if t in agent:
                        st["second_stage_confirmed"] += 1
                    if t in shapes:
                        sh, lt = shapes[t]
                        st["handmade_second_stage_confirmed"] += 1
                        nh = sum(1 for x in sh["ins"] if x > 0)
                        st["second_stage_inputs_ne_outputs"] += 1 if len(sh["ins"]) != len(sh["outs"]) else 0
                        st["second_stage_aggregated"] += 1 if nh >= 2 else 0
                        st["second_stage_timeout_aggregated"] += 1 if nh >= 2 and lt > 0 else 0
                        st["second_stage_extra_outputs"] += 1 if len(sh["outs"]) > len(sh["ins"]) else 0
                        last = max(i for i, x in enumerate(sh["ins"]) if x > 0)
                        st["second_stage_own_input_before_htlc"] += 1 if any(x == 0 for x in sh["ins"][:last]) else 0
                if comtx in e["txs"]:
                    if st.get("_com_run") == st["runs"]:
                        st["commitment_reconfirmed"] += 1
                        st["commitment_reconfirmed_other_height"] += 1 if e["h"] != st.get("_com_h") else 0
                        recommitted = True
                    st["_com_run"], st["_com_h"] = st["runs"], e["h"]
            elif e["ev"] == "idle":
                st["blocks"] += e["h"] - e["from"] + 1
            elif e["ev"] == "preimage":
                st["late_preimages_for_duplicate_hashes"] += 1 if e["hash"] in dup_hashes else 0
                st["late_preimages_on_previous_holder_commitment"] += 1 if prevh else 0
            elif e["ev"] == "spendable":
                st["spendable"] += len(e["outs"])
                st["spendable_events_of_second_channel"] += 1 if e.get("chan") == 2 else 0
            elif e["ev"] == "sweep":
                st["sweeps"] += 1
                kinds = e.get("kinds", [])
                st["sweeps_of_several_descriptors"] += 1 if len(e.get("req", [])) > 1 else 0
                st["sweeps_refused"] += 0 if e["ok"] else 1
                if e.get("signers", 0) >= 2:
                    st["sweeps_needing_two_channel_signers"] += 1
                    st["sweeps_two_signers_static_payment_and_delayed"] += 1 if "static_payment" in kinds and "delayed" in kinds else 0
                    st["sweeps_two_signers_with_static_output"] += 1 if "static" in kinds else 0
                elif two:
                    st["single_channel_sweeps_in_two_channel_runs"] += 1
            elif e["ev"] == "close2":
                st["second_channel_closes"][e["kind"]] += 1
            elif e["ev"] == "reload":
                st["reloads"] += 1
    if agent & conf:
        st["runs_with_second_stage"] += 1
    st["styles"] = sorted(st["styles"])
    for k in [k for k in st if k.startswith("_")]:
        del st[k]
    return st


def run_check(pid, tier, seed, assumptions):
    t0 = time.time()
    wd = vlib.workdir(pid)
    bins = vlib.build(["onchain"])
    thorough = tier == "thorough"
    rng = random.Random(seed)
    prof = "c06" if pid == "C06" else "c07"

    # ---- design check + behaviours: (cfg, how many of its behaviours become driver scripts)
    cfgs = {("C06", False): [("OnChainMC.cfg", 80), ("OnChainMCs.cfg", 60), ("OnChainMCr.cfg", 70), ("OnChainMC2q.cfg", 30)],
            ("C06", True): [("OnChainMCt.cfg", 700), ("OnChainMCst.cfg", 350), ("OnChainMCrt.cfg", 450), ("OnChainMC2.cfg", 200)],
            ("C07", False): [("OnChainMCh.cfg", 60), ("OnChainMCh3.cfg", 60), ("OnChainMChr.cfg", 40), ("OnChainMChd.cfg", 30), ("OnChainMCh2q.cfg", 40)],
            ("C07", True): [("OnChainMCht.cfg", 900), ("OnChainMChrt.cfg", 300), ("OnChainMChdt.cfg", 300), ("OnChainMCh2.cfg", 300)]}[(pid, thorough)]
    mcs, conv, ntlc = [], [], {}
    # prefer the behaviours in which the environment is active
    def weight(s):
        w = len(s["shape"])
        for o in s["ops"]:
            if o["op"] == "block":
                w += 2 if o["cheat"] else 0
                w += 2 if len(o.get("ins", [])) != len(o.get("outs", [])) else 0
                w += 1 if o.get("layout", "plain") != "plain" else 0
                w += 2 if o.get("layout", "plain") != "plain" and sum(1 for x in o.get("ins", []) if x > 0) >= 2 else 0
                # after the expiry only one side's transactions confirm: the races for contended outputs
                w += 3 if (s["mode"] == "honest" and o["h"] >= 14 and len(o["who"]) == 1) else 0
            elif o["op"] == "unwind":
                w += 3 + (1 if o["evict"] else 0)
            elif o["op"] == "sweep":
                # one call over outputs of both channels
                w += 4 if 0 < o["other"] < o["k"] else 1
            else:
                w += 1
        return w
    for cfg, cap in cfgs:
        r = vlib.tlc_mc(pid, "OnChainMC", cfg, workers=12, timeout=3000 if thorough else 600)
        if r["violated"]:
            raise vlib.ToolError("design model violates %s in %s (spec needs correction)" % (r["violated"], cfg))
        reorg = cfg.startswith(("OnChainMCr", "OnChainMChr"))
        two = cfg.startswith(("OnChainMC2", "OnChainMCh2"))
        need = ["MReact", "MSpendable", "MSweep", "MCheck", "MBlockFair", "MFinal"] + (["MBal"] if pid == "C07" else []) \
            + (["MReload"] if cfg in ("OnChainMC.cfg", "OnChainMCt.cfg", "OnChainMCh.cfg", "OnChainMCht.cfg", "OnChainMCst.cfg") else []) \
            + (["MUnwind", "MBlockBack"] if reorg else []) + (["MOther"] if two else [])
        vlib.require_coverage(r, need, cfg)
        got = vlib.tlc_printed(r["out"], "SCRIPT")
        if two and not (any(o["op"] == "sweep" and 0 < o["other"] < o["k"] for s in got for o in s["ops"]) and any(not s["hold"] for s in got)):
            raise vlib.ToolError("vacuity: no sweep call over outputs of both channels / no undeferred sweeping in %s" % cfg)
        if not any(o["op"] == "block" and o["cheat"] for s in got for o in s["ops"]) and pid == "C06":
            raise vlib.ToolError("vacuity: the model's cheater never confirmed a second-stage transaction")
        if cfg.startswith("OnChainMCs") and not (any(o["op"] == "block" and len(o["ins"]) != len(o["outs"]) for s in got for o in s["ops"])
                                                 and any(o["op"] == "block" and o["layout"] == "fee_between" for s in got for o in s["ops"])):
            raise vlib.ToolError("vacuity: no second-stage transaction with different numbers of inputs and outputs in %s" % cfg)
        if reorg and not any(o["op"] == "unwind" and o["evict"] and o["target"] == "commit" for s in got for o in s["ops"]):
            raise vlib.ToolError("vacuity: the commitment is never reorganised out (claims forgotten) in %s" % cfg)
        vlib.log("[mc] %s: %d distinct states, %d generated, depth %d, %d scripts, %.0fs" %
                 (cfg, r["distinct"], r["states"], r["depth"], len(got), r["wall_s"]))
        r.pop("out")
        mcs.append((cfg, r))
        uniq = {json.dumps(s, sort_keys=True): s for s in got}
        scripts = [uniq[k] for k in sorted(uniq)]
        rng.shuffle(scripts)
        scripts.sort(key=weight, reverse=True)
        head = scripts[:cap * 2]
        rng.shuffle(head)
        ntlc[cfg] = len(head[:cap])
        conv += [convert_script(s, rng) for s in head[:cap]]
    # spec mutants: an ideal monitor with a planted defect must be refuted by the same obligations
    mutants = []
    for cfg in ({"C06": ["OnChainMCs_m.cfg", "OnChainMCr_m.cfg", "OnChainMC2_m.cfg"], "C07": ["OnChainMChr_m.cfg", "OnChainMChd_m.cfg", "OnChainMCh2_m.cfg"]}[pid]):
        r = vlib.tlc_mc(pid, "OnChainMC", cfg, workers=12, timeout=600, coverage=False)
        vlib.log("[mc-mutant] %s: %s" % (cfg, "refuted (%s)" % r["violated"] if r["violated"] else "NOT refuted"))
        if not r["violated"]:
            raise vlib.ToolError("spec mutant %s is not refuted: the obligations of OnChain.tla do not notice the planted defect" % cfg)
        mutants.append({"cfg": cfg, "refuted_by": r["violated"], "distinct": r["distinct"]})
    spaths = []
    for k in range(0, len(conv), 300):
        spaths.append(os.path.join(wd, "scripts.ndjson" if k == 0 else "scripts%d.ndjson" % (k // 300 + 1)))
        _write(spaths[-1], conv[k:k + 300])

    # ---- the real code
    nrand = 5000 if thorough else 250
    # (several moderate batches rather than one large one: after every rejected run -- known findings
    #  included -- the rest of its batch is validated again)
    chunk = 1000 if thorough else nrand
    batches = [("tlc" if k == 0 else "tlc%d" % (k + 1), ["--scripts", sp]) for k, sp in enumerate(spaths)]
    batches += [("random" if k == 0 else "random%d" % (k + 1), ["--random", chunk, "--profile", prof]) for k in range(nrand // chunk)]
    if pid == "C06":
        # justice claims starved until the cheater's CSV delay has almost run out
        batches += [("race" if k == 0 else "race%d" % (k + 1), ["--random", 100 if thorough else 30, "--profile", "c06t"]) for k in range(3 if thorough else 1)]
        # hand-made second-stage transactions of every shape; the commitment reorganised out and confirmed again
        batches += [("shapes" if k == 0 else "shapes%d" % (k + 1), ["--random", 400 if thorough else 50, "--profile", "c06s"]) for k in range(3 if thorough else 1)]
        batches += [("unwind" if k == 0 else "unwind%d" % (k + 1), ["--random", 400 if thorough else 70, "--profile", "c06r"]) for k in range(3 if thorough else 1)]
        # the victim has a second closed channel: justice outputs, its own balance and the other channel's outputs swept together
        batches += [("multisweep" if k == 0 else "multisweep%d" % (k + 1), ["--random", 200 if thorough else 40, "--profile", "c06m"]) for k in range(2 if thorough else 1)]
    if pid == "C07":
        # late preimages followed by a reorganisation of the tip and rebroadcast requests
        batches += [("reorg" if k == 0 else "reorg%d" % (k + 1), ["--random", 100 if thorough else 40, "--profile", "c07r"]) for k in range(3 if thorough else 1)]
        # the commitment of an honest close (and the claims on top of it) reorganised out and confirmed again
        batches += [("unwind" if k == 0 else "unwind%d" % (k + 1), ["--random", 300 if thorough else 40, "--profile", "c07u"]) for k in range(3 if thorough else 1)]
        # several pending HTLCs with one payment hash; one commitment reorganised out and a competing one confirming instead;
        # the previous, unrevoked holder commitment of a node under test confirming, the preimage arriving afterwards
        for name, prof in (("duphash", "c07d"), ("compete", "c07x"), ("prevholder", "c07p")):
            batches += [(name if k == 0 else "%s%d" % (name, k + 1), ["--random", 200 if thorough else 40, "--profile", prof]) for k in range(3 if thorough else 1)]
        # a node with two unilaterally closed channels (every mix of holder / counterparty closes and channel types) sweeping
        # what both hand over in one call, per event, one by one, in random batches
        batches += [("multisweep" if k == 0 else "multisweep%d" % (k + 1), ["--random", 300 if thorough else 80, "--profile", "c07m"]) for k in range(3 if thorough else 1)]
    nviol, total_events, total_runs, panics, known_hits = 0, 0, 0, 0, {}
    stats, good_traces, bad_runs = {}, [], {}
    for bi, (bname, args) in enumerate(batches):
        tpath = os.path.join(wd, "trace-%s.ndjson" % bname)
        vlib.run_bin(bins["onchain"], args + ["--seed", seed * 100 + bi, "--out", tpath], discard_stdout=True, timeout=6000)
        summ = json.load(open(tpath + ".summary"))
        vlib.log("[onchain] %s %s" % (bname, summ))
        if summ["setup_failures"]:
            raise vlib.ToolError("onchain could not build the network / history in %d runs: %s" % (summ["setup_failures"], summ["setup_panic"]))
        if summ["runs"] * 2 < summ["scripts"]:
            raise vlib.ToolError("most scripts could not be realised (%d of %d)" % (summ["runs"], summ["scripts"]))
        total_runs += summ["runs"]
        panics += summ["panics"]
        st = stats_of(tpath)
        stats[bname] = st
        total, fails = vlib.validate_trace(pid, "OnChainTrace", "OnChainTrace.cfg", tpath, timeout=3000, tag=bname,
                                           max_failures=80 if thorough else 20)
        total_events += total
        if not fails:
            good_traces.append(tpath)
        scripts_of = {}
        with open(tpath + ".scripts") as f:
            for ln in f:
                sj = json.loads(ln)
                scripts_of[sj["run"]] = sj
        bad_runs[bname] = {fl["run"] for fl in fails}
        cap_hit = len(fails) >= (80 if thorough else 20)
        for fl in fails:
            key = classify(fl)
            vlib.log("[reject] batch %s run %s at event %d (%s, %s)%s" % (bname, fl["run"], fl["pos_in_run"], fl["rec"].get("ev"),
                     fl["inv"] or fl["kind"], " -> class " + key if key else ""))
            if key:
                known_hits[key] = known_hits.get(key, 0) + 1
            if vlib.report_violation(pid, "%s-run%s" % (bname, fl["run"]), {
                    "property": pid, "kind": fl["kind"], "invariant": fl["inv"], "class": key,
                    "first_unmatched_event": fl["rec"], "position_in_run": fl["pos_in_run"],
                    "script": scripts_of.get(fl["run"]), "trace_of_run": fl["run_events"], "last_state": fl["last_state"][:6000],
                    "how_to_replay": "put `script` on one line of s.ndjson; harness/target/debug/onchain --scripts s.ndjson --out t.ndjson ; "
                                     "tools/tv.sh OnChainTrace t.ndjson"}, key=key):
                nviol += 1
        if cap_hit and nviol == 0:
            raise vlib.ToolError("batch %s: %d runs were rejected, all of them known findings; the runs after the last one "
                                 "were not validated" % (bname, len(fails)))

    # ---- vacuity of the drivers (the counters measure reactions of the implementation too: with a violation
    #      already reported a thin counter is a consequence, not a tool error)
    def vacuous(msg):
        if nviol == 0:
            raise vlib.ToolError(msg)
        vlib.log("[note] " + msg)

    allst = {k: sum(stats[b][k] for b in stats) for k in ("runs", "second_stage_confirmed", "runs_with_second_stage", "claims",
                                                         "spendable", "sweeps", "reloads", "htlc_outputs", "revoked_runs", "honest_runs", "blocks", "stale_broadcasts")}
    if pid == "C06":
        if allst["revoked_runs"] < 0.9 * allst["runs"] or allst["runs_with_second_stage"] * 6 < allst["runs"]:
            vacuous("vacuity: drivers do not exercise revoked closes with second-stage transactions: %s" % allst)
        for k in ("justice_reissues_in_last_15_blocks", "claims_raised_on_rebroadcast", "handmade_second_stage_confirmed",
                  "second_stage_inputs_ne_outputs", "second_stage_aggregated", "second_stage_own_input_before_htlc",
                  "second_stage_extra_outputs", "second_stage_timeout_aggregated", "unwinds", "unwinds_of_commitment",
                  "unwinds_forgetting_claims", "unwinds_of_second_stage", "unwinds_of_confirmed_claims", "commitment_reconfirmed",
                  "commitment_reconfirmed_other_height", "claims_after_reconfirmation"):
            allst[k] = sum(stats[b][k] for b in stats)
        allst["max_unwind_depth"] = max(stats[b]["max_unwind_depth"] for b in stats)
        if allst["justice_reissues_in_last_15_blocks"] < 60 or allst["claims_raised_on_rebroadcast"] < 5:
            vacuous("vacuity: too few justice claims re-issued near the CSV expiry / raised on a rebroadcast request: %s" % allst)
        if allst["second_stage_inputs_ne_outputs"] < 30 or allst["second_stage_aggregated"] < 12 or allst["second_stage_own_input_before_htlc"] < 12 \
                or allst["second_stage_extra_outputs"] < 8:
            vacuous("vacuity: too few hand-made second-stage transactions of the unusual shapes confirmed: %s" % allst)
        if allst["unwinds_of_commitment"] < 50 or allst["unwinds_forgetting_claims"] < 30 or allst["commitment_reconfirmed"] < 50 \
                or allst["commitment_reconfirmed_other_height"] < 15 or allst["unwinds_of_second_stage"] < 8 \
                or allst["claims_after_reconfirmation"] < 60:
            vacuous("vacuity: too few reorganisations of the commitment / re-confirmations / claims made again: %s" % allst)
    else:
        if allst["honest_runs"] < 0.9 * allst["runs"] or allst["claims"] < allst["runs"] // 2:
            vacuous("vacuity: drivers do not exercise honest closes with HTLC claims: %s" % allst)
        # fee-estimator trajectories: externally funded claims re-requested after the estimate collapsed
        fall = {k: sum(stats[b]["rebumps_after_estimate_fell_5x"][k] for b in stats) for k in ("close", "htlc")}
        allst["rebumps_after_estimate_fell_5x"] = fall
        allst["rebump_requests"] = sum(stats[b]["rebump_requests"] for b in stats)
        if fall["close"] < 20 or fall["htlc"] < 5:
            vacuous("vacuity: too few anchor-channel claims re-bumped after a sharp fall of the fee estimate: %s" % allst)
        for k in ("tip_reorgs", "rebroadcast_requests", "rebroadcast_requests_answered"):
            allst[k] = sum(stats[b][k] for b in stats)
        if allst["tip_reorgs"] < 10 or allst["rebroadcast_requests_answered"] < 20:
            vacuous("vacuity: too few tip reorganisations / answered rebroadcast requests: %s" % allst)
        for k in ("unwinds", "unwinds_of_commitment", "unwinds_forgetting_claims", "unwinds_of_confirmed_claims", "commitment_reconfirmed",
                  "commitment_reconfirmed_other_height", "claims_after_reconfirmation"):
            allst[k] = sum(stats[b][k] for b in stats)
        if allst["unwinds_of_commitment"] < 25 or allst["commitment_reconfirmed"] < 25 or allst["unwinds_forgetting_claims"] < 8:
            vacuous("vacuity: too few reorganisations of the commitment / re-confirmations: %s" % allst)
        for k in ("runs_with_duplicate_hash_htlcs", "late_preimages_for_duplicate_hashes", "competing_commitment_confirmed",
                  "previous_holder_commitment_runs", "late_preimages_on_previous_holder_commitment"):
            allst[k] = sum(stats[b][k] for b in stats)
        if allst["late_preimages_for_duplicate_hashes"] < 15 or allst["competing_commitment_confirmed"] < 20 \
                or allst["late_preimages_on_previous_holder_commitment"] < 15:
            vacuous("vacuity: too few late preimages for duplicate hashes / competing commitments / late preimages on a previous "
                    "holder commitment: %s" % allst)
    if allst["spendable"] < allst["runs"] or allst["sweeps"] < allst["runs"] or allst["reloads"] == 0:
        vacuous("vacuity: too few SpendableOutputs / sweeps / reloads: %s" % allst)
    # two closed channels of one node, batched sweeps
    for k in ("runs_with_second_channel", "spendable_events_of_second_channel", "sweeps_of_several_descriptors",
              "sweeps_needing_two_channel_signers", "sweeps_two_signers_static_payment_and_delayed", "sweeps_two_signers_with_static_output",
              "single_channel_sweeps_in_two_channel_runs", "sweeps_refused", "deferred_sweep_runs"):
        allst[k] = sum(stats[b][k] for b in stats)
    allst["second_channel_closes"] = {k: sum(stats[b]["second_channel_closes"][k] for b in stats) for k in ("holder", "counterparty")}
    low = MULTI_MIN[pid]
    if allst["runs_with_second_channel"] < low["runs"] or allst["sweeps_needing_two_channel_signers"] < low["two_signers"] \
            or allst["sweeps_two_signers_static_payment_and_delayed"] < low["mixed"] or allst["single_channel_sweeps_in_two_channel_runs"] < low["single"] \
            or min(allst["second_channel_closes"].values()) < low["closes"] or allst["sweeps_of_several_descriptors"] < low["several"]:
        vacuous("vacuity: too few runs with two closed channels / sweep calls over both channels (mixed descriptor kinds) / "
                "per-channel calls: %s" % allst)

    st = None
    if nviol == 0:
        st = selftest(pid, wd, [(b, os.path.join(wd, "trace-%s.ndjson" % b)) for b in ("random", "race", "shapes", "unwind", "multisweep") if b in stats], bad_runs)
        vlib.log("[selftest] %s" % st)

    samples = conv[:2]
    with open(os.path.join(wd, "trace-tlc.ndjson")) as f:
        samples.append({"trace_head": [json.loads(next(f)) for _ in range(8)]})
    cov = {
        "states": sum(r["distinct"] for _, r in mcs), "transitions": sum(r["states"] for _, r in mcs),
        "traces_validated_against_impl": total_runs, "samples": samples,
        "mc_runs": [{"cfg": c, "distinct": r["distinct"], "generated": r["states"], "depth": r["depth"],
                     "action_coverage": {k: v for k, v in r["coverage"].items() if k.startswith("M")}, "wall_s": round(r["wall_s"], 1)} for c, r in mcs],
        "scripts_from_tlc": len(conv), "scripts_from_tlc_by_cfg": ntlc, "spec_mutants": mutants,
        "random_scripts": sum(int(a[1]) for _, a in batches if a[0] == "--random"), "events_validated": total_events,
        "driver_stats": {b: stats[b] for b in stats}, "impl_panics": panics, "known_finding_hits": known_hits,
        "binding_selftest": st, "exhaustive": False,
    }
    vlib.write_evidence(pid, tier, seed, "model_checking", cov, assumptions, time.time() - t0, nviol)
    return nviol


# least numbers (quick tier) of: runs with a second closed channel, sweep calls that need two channel signers, of those with a
# StaticPaymentOutput and a DelayedPaymentOutput, sweep calls for one channel in such runs, second channels closed by either
# side, sweep calls of several descriptors
MULTI_MIN = {"C06": {"runs": 40, "two_signers": 10, "mixed": 2, "single": 10, "closes": 8, "several": 30},
             "C07": {"runs": 70, "two_signers": 20, "mixed": 5, "single": 20, "closes": 15, "several": 50}}

COMMON_ASSUMPTIONS = [
    "both nodes are the implementation under test; the would-be cheater is an old-state copy of the real ChannelMonitor "
    "(its commitment and second-stage HTLC transactions are real, signed LDK transactions) that never sweeps its delayed outputs",
    "the harness' chain enforces consensus script validity (bitcoinconsensus), nLockTime and BIP68 but no relay policy "
    "(no minimum relay fee, no RBF rules, no package limits): any valid final transaction can be mined when the script says so",
    "fee estimator and wallet are the test doubles of functional_test_utils (constant feerate changed by the script; "
    "four 1 BTC wallet UTXOs per node for anchor bumping)",
    "channel value 1,000,000 sat; to_self_delay 144; histories of at most 6 updates",
    "BumpTransactionEvents are handled at once by the wallet-backed BumpTransactionEventHandler of functional_test_utils; the "
    "monotonicity of externally funded claims is judged on the feerate the monitor requests (per claim id), that of the "
    "monitor's own transactions on the package feerate of the replacements",
    "outputs worth less than 1000 sat are exempt from the liveness obligations (they cannot pay for a standalone claim)",
    "the application sweeps what it has been handed with KeysManager::spend_spendable_outputs at 253 sat/kW to one script: one "
    "descriptor per call, the descriptors of one event, everything mature in one call (OutputSweeper) or random batches, at once or "
    "only after every balance has drained; a second (third node's) channel of the node is judged through its broadcasts' validity, its "
    "SpendableOutputs reports, the sweeps and its balances having drained at the end -- not through the per-output obligations, which "
    "are stated for the channel the run is about",
]
