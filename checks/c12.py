"""C12 -- persisted objects survive serialization unchanged."""
import chan_common as cc

def run(tier, seed):
    return cc.run_check("C12", tier, seed,
        mc_cfgs=(["ChanMC_c10.cfg"], ["ChanMC_c10.cfg", "ChanMC_c10t.cfg"]),
        profiles=[("reload", 2, 250), ("reload", 3, 80), ("async", 2, 60)],
        thorough_profiles=[("reload", 2, 4000), ("reload", 3, 1500), ("async", 2, 1000)],
        mc_actions=("MAdd", "MSendCS", "MSendRAA", "MDeliver", "MSave", "MCrash"),
        assumptions=cc.COMMON_ASSUMPTIONS + [
            "ChannelMonitor and ChannelMonitorUpdate are compared with the library's own ==; the ChannelManager by "
            "its public projection and by continuing the run on the re-read copy (every later event must still be a "
            "behaviour of Chan.tla); network graph round trips are checked in C17; scorer and sweeper are not covered"])
