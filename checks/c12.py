"""C12 -- persisted objects survive serialization unchanged."""
import chan_common as cc
import graph_rt_part

def run(tier, seed):
    return cc.run_check("C12", tier, seed,
        mc_cfgs=(["ChanMC_c10.cfg", "GossipStatus:GossipStatus.cfg"], ["ChanMC_c10.cfg", "ChanMC_c10t.cfg", "GossipStatus:GossipStatus.cfg"]),
        mutant_cfgs=("GossipStatus:GossipStatusMutant.cfg",),
        mc_actions_by_module={"GossipStatus": ("Tick", "Reload", "Disconnect", "Reconnect")},
        extra_parts=[("graph_rt", graph_rt_part.part)],
        profiles=[("reload", 2, 250), ("reload", 3, 80), ("async", 2, 60)],
        thorough_profiles=[("reload", 2, 2000), ("reload", 3, 700), ("async", 2, 500)],
        mc_actions=("MAdd", "MSendCS", "MSendRAA", "MDeliver", "MSave", "MCrash"),
        families=[("feecross", 300), ("skim", 200), ("chainsettle", 60), ("cfgreload", 150), ("evreload", 250)], thorough_families=[("feecross", 3000), ("skim", 1500), ("chainsettle", 300), ("cfgreload", 1500), ("evreload", 2500)],
        assumptions=cc.COMMON_ASSUMPTIONS + [
            "ChannelMonitor and ChannelMonitorUpdate are compared with the library's own ==; the ChannelManager by "
            "its public projection and by continuing the run on the re-read copy (every later event must still be a "
            "behaviour of Chan.tla); monitors of closed channels are round-tripped at every block while the chain settles "
            "them (fields the library documents as in-memory only are not held against ==); a ProbabilisticScorer fed "
            "with the run's payment paths is written and re-read in fresh, decayed and re-decayed states and must "
            "answer like the original afterwards; what a node has told the network about a channel (enabled / disabled) follows the channel's liveness across reloads within generous tick bounds (GossipStatus.tla), judged when some peer is connected to hear it; network graph round trips are checked in C17 and, over every size of their variable-length parts (0..700 bytes, the relay limit, the wire limit), in this check's graph_rt part (GraphRtTrace.tla); the output sweeper is "
            "not covered"])
