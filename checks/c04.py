"""C04 -- inbound payments are claimable only if complete and authentic; all-or-nothing.

1. TLC model-checks the recipient's algorithm (spec/PayRecvMC.tla: verify, check_incoming_mpp_part, MPP
   timeout, height-based fail-back, claim / fail) composed with the observable specification
   spec/PayRecv.tla, over all sequences of <= 3 parts with every secret class, total_msat around the
   registered amount, final CLTV around each acceptance boundary, ticks, block jumps to one below / at each
   fail-back height and the user's answer at every such point.
2. The reachable quiescent states are printed as behaviours, compiled to scripts for the engine `paynet`
   (every part its own send_payment_with_route with hand-set RecipientOnionFields / final CLTV) and executed
   on real ChannelManagers, together with seeded random scripts (direct, line and diamond topologies,
   under/over-payment, mismatching totals, bit-flipped / foreign / missing secrets, expired registrations,
   keysend, disconnections, claims and fails around the advertised deadline).
3. TLC validates every recorded run against PayRecv.tla (PayRecvTrace.tla).
4. Onion fields and amounts: PayRecvMCfld / PayRecvMCmeta enumerate, for <= 3 parts in every order, custom TLVs of
   even / odd type present in all / only the first / only a later / the middle part or with differing values, a
   payment_metadata that is the registration's, absent or foreign, and the answer claim_funds /
   claim_funds_with_known_custom_tlvs; PayRecvMCskim enumerates a last forwarding node that skims a fee off one part
   and reports nothing / one less / exactly / more than the shortfall (or a fee it did not take), with and without
   accept_underpaying_htlcs. The engine sends every part with its own RecipientOnionFields, lets a real intercepting
   node skim (forward_intercepted_htlc) and sets the skimmed_fee_msat TLV handed to the recipient. Design models with
   a planted defect (spec mutants) must be refuted by TLC.
"""
import pay_common as pc


def _run_has(recs, run, pred):
    return any(x["run"] == run and pred(x) for x in recs)


def _amt_plus_one(r, k, recs):
    if r["ev"] == "event" and r.get("kind") == "PaymentClaimable":
        r["amt"] += 1
        return [r]


def _single(recs, run):
    """one registration, shown as claimable exactly once"""
    return sum(1 for x in recs if x["run"] == run and x["ev"] == "reg") == 1 and \
        sum(1 for x in recs if x["run"] == run and x["ev"] == "event" and x.get("kind") == "PaymentClaimable") == 1


def _deadline_plus_one(r, k, recs):
    # a run in which the node failed the set back on its own when the advertised deadline was reached
    if r["ev"] == "event" and r.get("kind") == "PaymentClaimable" and _single(recs, r["run"]):
        later = [x for x in recs[k + 1:] if x["run"] == r["run"]]
        for j, x in enumerate(later):
            if x["ev"] in ("claim", "failback"):
                return None
            if x["ev"] == "block" and x["height"] == r["deadline"]:
                if any(y["ev"] == "msg" and y["kind"] == "update_fail_htlc" and y["from"] == r["node"] for y in later[j:j + 6]):
                    r["deadline"] += 1
                    return [r]
                return None


def _fulfil_as_fail(r, k, recs):
    # a set of >= 2 parts claimed strictly below its deadline: one part failed instead
    if r["ev"] == "msg" and r["kind"] == "update_fulfill_htlc" and _single(recs, r["run"]):
        cl = [x for x in recs if x["run"] == r["run"] and x["ev"] == "event" and x.get("kind") == "PaymentClaimable"][0]
        claims = [x for x in recs if x["run"] == r["run"] and x["ev"] == "claim"]
        n = sum(1 for x in recs if x["run"] == r["run"] and x["ev"] == "msg" and x["kind"] == "update_fulfill_htlc" and x["from"] == cl["node"])
        if r["from"] == cl["node"] and n >= 2 and len(claims) == 1 and claims[0]["height"] < cl["deadline"]:
            r["kind"] = "update_fail_htlc"
            return [r]


def _reg_dropped(r, k, recs):
    if r["ev"] == "reg" and r["reg"] == 1 and _run_has(recs, r["run"], lambda x: x["ev"] == "event" and x.get("kind") == "PaymentClaimable" and x["hash"] == r["hash"]) \
            and not _run_has(recs, r["run"], lambda x: x["ev"] == "reg" and x["reg"] != 1):
        return []


def _secret_corrupted(r, k, recs):
    if r["ev"] == "send" and r["res"] == "ok" and r["sreg"] == 1 and not r["keysend"]:
        sends = [x for x in recs if x["run"] == r["run"] and x["ev"] == "send"]
        if len(sends) == 1 and _run_has(recs, r["run"], lambda x: x["ev"] == "event" and x.get("kind") == "PaymentClaimable"):
            r["sreg"] = 0
            return [r]


def _claimed_minus_one(r, k, recs):
    if r["ev"] == "event" and r.get("kind") == "PaymentClaimed":
        r["amt"] -= 1
        return [r]


def _fail_dropped(r, k, recs):
    # a part that was failed back without being shown: pretend the recipient never failed it
    if r["ev"] == "msg" and r["kind"] == "update_fail_htlc" \
            and not _run_has(recs, r["run"], lambda x: x["ev"] == "event" and x.get("kind") == "PaymentClaimable"):
        sends = [x for x in recs if x["run"] == r["run"] and x["ev"] == "send"]
        if len(sends) == 1 and sends[0]["res"] == "ok" and sends[0]["sreg"] == 0 and not sends[0]["keysend"] and sends[0]["dst"] == r["from"] \
                and _run_has(recs, r["run"], lambda x: x["ev"] == "quiet"):
            return []


def _underpaid(r, k, recs):
    # the registration asked for more than what was shown as claimable
    if r["ev"] == "reg" and r["reg"] == 1 and r["amt"] > 0 and _run_has(recs, r["run"], lambda x: x["ev"] == "event" and x.get("kind") == "PaymentClaimable" and x["hash"] == r["hash"] and x["amt"] < 3 * r["amt"]) \
            and not _run_has(recs, r["run"], lambda x: x["ev"] == "reg" and x["reg"] != 1):
        r["amt"] *= 3
        return [r]


def _claimables(recs, run):
    return [x for x in recs if x["run"] == run and x["ev"] == "event" and x.get("kind") == "PaymentClaimable"]


def _skimmed_plus_one(r, k, recs):
    if r["ev"] == "event" and r.get("kind") == "PaymentClaimable" and r.get("skimmed", 0) > 0:
        r["skimmed"] += 1
        return [r]


def _even_tlv_dropped_from_one_part(r, k, recs):
    # two parts that agree on an even TLV and are shown together: one of them no longer carries it
    if r["ev"] == "send" and r["res"] == "ok" and any(t[0] % 2 == 0 for t in r.get("tlvs", [])):
        sends = [x for x in recs if x["run"] == r["run"] and x["ev"] == "send" and x["res"] == "ok"]
        cl = _claimables(recs, r["run"])
        if len(sends) == 2 and len(cl) == 1 and len(cl[0]["via"]) == 2 and sends[0]["tlvs"] == sends[1]["tlvs"] and _single(recs, r["run"]):
            r["tlvs"] = [t for t in r["tlvs"] if t[0] % 2 == 1]
            return [r]


def _tlv_invented(r, k, recs):
    if r["ev"] == "event" and r.get("kind") == "PaymentClaimable" and r.get("tlvs"):
        r["tlvs"] = r["tlvs"] + [[70003, 1]]
        return [r]


def _opt_in_removed(r, k, recs):
    if r["ev"] == "open" and r.get("underpay") and any(c.get("skimmed", 0) > 0 and _run_has(recs, r["run"], lambda x: x["ev"] == "send" and any(
            q["amt"] < q["oamt"] for q in x["parts"])) for c in _claimables(recs, r["run"])):
        r["underpay"] = []
        return [r]


def _reported_skim_lowered(r, k, recs):
    # an under-paying part that was accepted: the previous hop reported one msat less than it kept
    if r["ev"] == "deliver" and r["kind"] == "update_add_htlc" and r.get("skim", 0) > 0 and _single(recs, r["run"]):
        sends = [x for x in recs if x["run"] == r["run"] and x["ev"] == "send" and x["res"] == "ok" and x["dst"] == r["to"]]
        short = [q["oamt"] - q["amt"] for x in sends for q in x["parts"] if q["amt"] == r["amt"] and q["oamt"] > q["amt"]]
        cl = _claimables(recs, r["run"])
        if len(sends) == 1 and short and r["skim"] == short[0] and cl and cl[0]["node"] == r["to"] and cl[0]["skimmed"] == r["skim"]:
            r["skim"] -= 1
            return [r]


def _even_run(recs, run):
    cl = _claimables(recs, run)
    return _single(recs, run) and any(t[0] % 2 == 0 for t in cl[0].get("tlvs", [])) and \
        sum(1 for x in recs if x["run"] == run and x["ev"] in ("claim", "failback")) == 1


def _plain_claim_as_known(r, k, recs):
    # claim_funds met an even custom TLV and failed the payment back: pretend the user had vouched for the TLVs
    if r["ev"] == "claim" and not r["known"] and _even_run(recs, r["run"]) \
            and r["height"] < _claimables(recs, r["run"])[0]["deadline"] \
            and _run_has(recs, r["run"], lambda x: x["ev"] == "msg" and x["kind"] == "update_fail_htlc" and x["from"] == r["node"]):
        r["known"] = True
        return [r]


def _known_claim_as_plain(r, k, recs):
    if r["ev"] == "claim" and r["known"] and _even_run(recs, r["run"]) \
            and _run_has(recs, r["run"], lambda x: x["ev"] == "msg" and x["kind"] == "update_fulfill_htlc" and x["from"] == r["node"]):
        r["known"] = False
        return [r]


def _metadata_foreign(r, k, recs):
    if r["ev"] == "send" and r["res"] == "ok" and not r["keysend"] and r["sreg"] == 1 and r.get("meta", 0) == 1 and _claimables(recs, r["run"]) \
            and _single(recs, r["run"]):
        r["meta"] = 2
        return [r]


def _onion_amount_raised(r, k, recs):
    # what the sender meant the recipient to get was one msat more than what arrived (no opt-in anywhere)
    if r["ev"] == "send" and r["res"] == "ok" and not r["keysend"] and r["sreg"] == 1 and _claimables(recs, r["run"]) and _single(recs, r["run"]) \
            and _run_has(recs, r["run"], lambda x: x["ev"] == "open" and not x.get("underpay")):
        r["parts"][0]["oamt"] += 1
        return [r]


SELFTESTS = [("claimable-amount-plus-one", _amt_plus_one), ("deadline-plus-one", _deadline_plus_one),
             ("one-part-failed-others-fulfilled", _fulfil_as_fail), ("registration-dropped", _reg_dropped),
             ("secret-not-issued", _secret_corrupted), ("claimed-amount-minus-one", _claimed_minus_one),
             ("bad-part-never-failed", _fail_dropped), ("registered-amount-not-reached", _underpaid),
             ("claimable-skimmed-fee-plus-one", _skimmed_plus_one), ("even-tlv-missing-in-one-part", _even_tlv_dropped_from_one_part),
             ("claimable-tlv-invented", _tlv_invented), ("underpaying-opt-in-removed", _opt_in_removed),
             ("reported-skim-one-less-than-shortfall", _reported_skim_lowered), ("plain-claim-with-even-tlv-as-known", _plain_claim_as_known),
             ("known-claim-with-even-tlv-as-plain", _known_claim_as_plain), ("payment-metadata-foreign", _metadata_foreign),
             ("sender-intended-amount-plus-one", _onion_amount_raised)]


EVCLASS = {"e1": "e1", "e1o1": "e1", "e1b": "e1b", "e1e2": "e1e2", "e2": "e2", "o1e2": "oe2", "mnone": "mn", "mflip": "mf"}


def pick(got, rng):
    """Stratified choice of the behaviours to execute: grouped by what the parts disagree about and in which order
    (even TLVs / metadata per part, skim class, secret, total, CLTV class), the channel opt-in and the last step;
    the groups are served round-robin."""
    groups = {}
    for s in got:
        parts = tuple((EVCLASS.get(o.get("f", "none"), "-"), o.get("sk", "no"), o["sec"], o["tot"] != s["regamt"], o["cl"])
                      for o in s["ops"] if o["op"] == "part")
        last = s["ops"][-1]
        key = (parts, s.get("up", False), last["op"], last.get("kind", ""))
        groups.setdefault(key, []).append(s)
    keys = sorted(groups, key=repr)
    rng.shuffle(keys)
    for k in keys:
        rng.shuffle(groups[k])
    order, depth = [], 0
    while len(order) < len(got):
        for k in keys:
            if depth < len(groups[k]):
                order.append(groups[k][depth])
        depth += 1
    return {"must": order, "rest": []}


# Recorded finding (not part of the default runs, see `assumptions`): a first complete set is failed back,
# a new part of the same hash arrives, the user answers the old PaymentClaimable with claim_funds: the
# new HTLC is dropped from claimable_payments without being failed back (it never times out).
PROBES = [("claim_funds_drops_unshown_htlcs", {"cfg": {"topo": "par", "n": 2}, "ops": [
    {"op": "reg", "node": 1, "reg": 1, "amt": 4000000},
    {"op": "send", "from": 0, "id": 1, "reg": 1, "paths": [[1]], "amts": [4000000]}, {"op": "pump"},
    {"op": "failback", "reg": 1}, {"op": "pump"},
    {"op": "send", "from": 0, "id": 2, "reg": 1, "paths": [[1]], "amts": [1000000], "total": 4000000}, {"op": "pump"},
    {"op": "claim", "reg": 1, "force": True}, {"op": "pump"},
    {"op": "tick", "node": 1}, {"op": "tick", "node": 1}, {"op": "settle"}]})]


def run(tier, seed):
    thorough = tier == "thorough"
    return pc.run_check(
        "C04", tier, seed,
        mc_cfgs=["PayRecvMC.cfg", "PayRecvMCcltv.cfg", "PayRecvMCfld.cfg", "PayRecvMCskim.cfg", "PayRecvMCmeta.cfg", "PayRecvMCmeta0.cfg"] if not thorough
        else ["PayRecvMC.cfg", "PayRecvMCcltvT.cfg", "PayRecvMC3.cfg", "PayRecvMCfldT.cfg", "PayRecvMCskimT.cfg", "PayRecvMCmeta.cfg", "PayRecvMCmeta0.cfg"],
        mc_mutants=["PayRecvMCfld_mut_evenLater.cfg", "PayRecvMCfld_mut_evenValue.cfg", "PayRecvMCfld_mut_claimEven.cfg",
                    "PayRecvMCskim_mut_skimNoOptIn.cfg", "PayRecvMCskim_mut_skimUncovered.cfg", "PayRecvMCskim_mut_intendedShown.cfg"],
        compile_fn=pc.compile_recv_script,
        random_fn=pc.random_recv_script,
        n_tlc=16000 if thorough else 2400, n_rand=16000 if thorough else 1500,
        need={"ev_PaymentClaimable": 100, "ev_PaymentClaimed": 50, "claim": 50, "failback": 20, "msg_update_fail_htlc": 100,
              "msg_update_fulfill_htlc": 50, "tick": 50, "block": 50, "quiet": 100,
              "send_with_tlvs": 200, "claimable_with_tlvs": 50, "claimable_with_even_tlv": 30, "claim_known": 30, "send_skimmed_part": 100,
              "add_with_skimmed_fee": 100, "claimable_skimmed": 30, "runs_with_underpay_channels": 100, "ev_HTLCIntercepted": 100,
              "send_foreign_metadata": 10, "claimable_with_metadata": 10},
        selftests=SELFTESTS, pick=pick, probes=PROBES,
        assumptions=pc.COMMON_ASSUMPTIONS + [
            "the HMAC inside a payment secret is not modelled: the driver produces concrete secrets of each class (issued "
            "for this hash, bit-flipped at a seeded position, issued for another hash / amount, absent)",
            "the user calls claim_funds only after it has handled a PaymentClaimable for the hash and while every HTLC the "
            "node holds for that hash was part of what was shown (a late claim_funds that meets newer, never shown HTLCs of "
            "the same hash is a recorded finding, see the report)",
            "an expired registration must be refused only when the best header time is more than the documented two hours "
            "past its expiry; a part whose secret commits to less than total_msat may be accepted or failed",
            "onion fields: custom TLV values are 4-byte integers, types 65536..70001; the skimmed_fee_msat TLV handed to the "
            "recipient is set by the harness on the wire (it is not covered by the commitment signatures), the amount that is "
            "missing is really kept by an intercepting LDK node; counterparty_skimmed_fee_msat of PaymentClaimable is required "
            "to be the sum of the fees the previous hops reported (events/mod.rs), also when no channel has opted in",
            "PaymentClaimable.onion_fields: the custom TLVs shown must be carried with that value by every part, contain every "
            "even one, and be all the common ones when the set is everything the node has seen for the hash; an odd TLV that "
            "differs between parts may be dropped or the part refused (both accepted)",
        ])
