"""C04 -- inbound payments are claimable only if complete and authentic; all-or-nothing.

1. TLC model-checks the recipient's algorithm (spec/PayRecvMC.tla: verify, check_incoming_mpp_part, MPP
   timeout, height-based fail-back, claim / fail) composed with the observable specification
   spec/PayRecv.tla, over all sequences of <= 3 parts with every secret class, total_msat around the
   registered amount, final CLTV around each acceptance boundary, ticks, block jumps to one below / at each
   fail-back height and the user's answer at every such point.
2. The reachable quiescent states are printed as behaviours, compiled to scripts for the engine `paynet`
   (every part its own send_payment_with_route with hand-set RecipientOnionFields / final CLTV) and executed
   on real ChannelManagers, together with seeded random scripts (direct, line and diamond topologies,
   under/over-payment, mismatching totals, bit-flipped / foreign / missing secrets, expired registrations,
   keysend, disconnections, claims and fails around the advertised deadline).
3. TLC validates every recorded run against PayRecv.tla (PayRecvTrace.tla).
"""
import pay_common as pc


def _run_has(recs, run, pred):
    return any(x["run"] == run and pred(x) for x in recs)


def _amt_plus_one(r, k, recs):
    if r["ev"] == "event" and r.get("kind") == "PaymentClaimable":
        r["amt"] += 1
        return [r]


def _single(recs, run):
    """one registration, shown as claimable exactly once"""
    return sum(1 for x in recs if x["run"] == run and x["ev"] == "reg") == 1 and \
        sum(1 for x in recs if x["run"] == run and x["ev"] == "event" and x.get("kind") == "PaymentClaimable") == 1


def _deadline_plus_one(r, k, recs):
    # a run in which the node failed the set back on its own when the advertised deadline was reached
    if r["ev"] == "event" and r.get("kind") == "PaymentClaimable" and _single(recs, r["run"]):
        later = [x for x in recs[k + 1:] if x["run"] == r["run"]]
        for j, x in enumerate(later):
            if x["ev"] in ("claim", "failback"):
                return None
            if x["ev"] == "block" and x["height"] == r["deadline"]:
                if any(y["ev"] == "msg" and y["kind"] == "update_fail_htlc" and y["from"] == r["node"] for y in later[j:j + 6]):
                    r["deadline"] += 1
                    return [r]
                return None


def _fulfil_as_fail(r, k, recs):
    # a set of >= 2 parts claimed strictly below its deadline: one part failed instead
    if r["ev"] == "msg" and r["kind"] == "update_fulfill_htlc" and _single(recs, r["run"]):
        cl = [x for x in recs if x["run"] == r["run"] and x["ev"] == "event" and x.get("kind") == "PaymentClaimable"][0]
        claims = [x for x in recs if x["run"] == r["run"] and x["ev"] == "claim"]
        n = sum(1 for x in recs if x["run"] == r["run"] and x["ev"] == "msg" and x["kind"] == "update_fulfill_htlc" and x["from"] == cl["node"])
        if r["from"] == cl["node"] and n >= 2 and len(claims) == 1 and claims[0]["height"] < cl["deadline"]:
            r["kind"] = "update_fail_htlc"
            return [r]


def _reg_dropped(r, k, recs):
    if r["ev"] == "reg" and r["reg"] == 1 and _run_has(recs, r["run"], lambda x: x["ev"] == "event" and x.get("kind") == "PaymentClaimable" and x["hash"] == r["hash"]) \
            and not _run_has(recs, r["run"], lambda x: x["ev"] == "reg" and x["reg"] != 1):
        return []


def _secret_corrupted(r, k, recs):
    if r["ev"] == "send" and r["res"] == "ok" and r["sreg"] == 1 and not r["keysend"]:
        sends = [x for x in recs if x["run"] == r["run"] and x["ev"] == "send"]
        if len(sends) == 1 and _run_has(recs, r["run"], lambda x: x["ev"] == "event" and x.get("kind") == "PaymentClaimable"):
            r["sreg"] = 0
            return [r]


def _claimed_minus_one(r, k, recs):
    if r["ev"] == "event" and r.get("kind") == "PaymentClaimed":
        r["amt"] -= 1
        return [r]


def _fail_dropped(r, k, recs):
    # a part that was failed back without being shown: pretend the recipient never failed it
    if r["ev"] == "msg" and r["kind"] == "update_fail_htlc" \
            and not _run_has(recs, r["run"], lambda x: x["ev"] == "event" and x.get("kind") == "PaymentClaimable"):
        sends = [x for x in recs if x["run"] == r["run"] and x["ev"] == "send"]
        if len(sends) == 1 and sends[0]["res"] == "ok" and sends[0]["sreg"] == 0 and not sends[0]["keysend"] and sends[0]["dst"] == r["from"] \
                and _run_has(recs, r["run"], lambda x: x["ev"] == "quiet"):
            return []


def _underpaid(r, k, recs):
    # the registration asked for more than what was shown as claimable
    if r["ev"] == "reg" and r["reg"] == 1 and r["amt"] > 0 and _run_has(recs, r["run"], lambda x: x["ev"] == "event" and x.get("kind") == "PaymentClaimable" and x["hash"] == r["hash"] and x["amt"] < 3 * r["amt"]) \
            and not _run_has(recs, r["run"], lambda x: x["ev"] == "reg" and x["reg"] != 1):
        r["amt"] *= 3
        return [r]


SELFTESTS = [("claimable-amount-plus-one", _amt_plus_one), ("deadline-plus-one", _deadline_plus_one),
             ("one-part-failed-others-fulfilled", _fulfil_as_fail), ("registration-dropped", _reg_dropped),
             ("secret-not-issued", _secret_corrupted), ("claimed-amount-minus-one", _claimed_minus_one),
             ("bad-part-never-failed", _fail_dropped), ("registered-amount-not-reached", _underpaid)]


def pick(got, rng):
    return got


# Recorded finding (not part of the default runs, see `assumptions`): a first complete set is failed back,
# a new part of the same hash arrives, the user answers the old PaymentClaimable with claim_funds: the
# new HTLC is dropped from claimable_payments without being failed back (it never times out).
PROBES = [("claim_funds_drops_unshown_htlcs", {"cfg": {"topo": "par", "n": 2}, "ops": [
    {"op": "reg", "node": 1, "reg": 1, "amt": 4000000},
    {"op": "send", "from": 0, "id": 1, "reg": 1, "paths": [[1]], "amts": [4000000]}, {"op": "pump"},
    {"op": "failback", "reg": 1}, {"op": "pump"},
    {"op": "send", "from": 0, "id": 2, "reg": 1, "paths": [[1]], "amts": [1000000], "total": 4000000}, {"op": "pump"},
    {"op": "claim", "reg": 1, "force": True}, {"op": "pump"},
    {"op": "tick", "node": 1}, {"op": "tick", "node": 1}, {"op": "settle"}]})]


def run(tier, seed):
    thorough = tier == "thorough"
    return pc.run_check(
        "C04", tier, seed,
        mc_cfgs=["PayRecvMC.cfg", "PayRecvMCcltv.cfg"] if not thorough else ["PayRecvMC.cfg", "PayRecvMCcltvT.cfg", "PayRecvMC3.cfg"],
        compile_fn=pc.compile_recv_script,
        random_fn=pc.random_recv_script,
        n_tlc=8000 if thorough else 900, n_rand=12000 if thorough else 900,
        need={"ev_PaymentClaimable": 100, "ev_PaymentClaimed": 50, "claim": 50, "failback": 20, "msg_update_fail_htlc": 100,
              "msg_update_fulfill_htlc": 50, "tick": 50, "block": 50, "quiet": 100},
        selftests=SELFTESTS, pick=pick, probes=PROBES,
        assumptions=pc.COMMON_ASSUMPTIONS + [
            "the HMAC inside a payment secret is not modelled: the driver produces concrete secrets of each class (issued "
            "for this hash, bit-flipped at a seeded position, issued for another hash / amount, absent)",
            "the user calls claim_funds only after it has handled a PaymentClaimable for the hash and while every HTLC the "
            "node holds for that hash was part of what was shown (a late claim_funds that meets newer, never shown HTLCs of "
            "the same hash is a recorded finding, see the report)",
            "an expired registration must be refused only when the best header time is more than the documented two hours "
            "past its expiry; a part whose secret commits to less than total_msat may be accepted or failed",
        ])
