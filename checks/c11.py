"""C11 -- on-chain conclusions depend only on the chain, not on how it was delivered.

1. TLC model-checks spec/ChainViewMC.tla: chain histories (block trees with the relevant
   transactions present / absent / moved in competing forks) x every delivery schedule the
   chain::Listen / chain::Confirm contracts permit (ChainView.tla = the contracts as guards);
   invariant: every schedule ends synchronised to the same chain; every reachable end state is
   printed as a driver script.
2. The Rust engine `chainsync` delivers each (history, schedule) to a CLONE of the same starting
   state of real ChannelManager + ChainMonitor objects and logs their conclusions at every
   synchronisation point.
3. TLC validates the log against spec/ChainViewTrace.tla: legality of every notification,
   conclusions = F(chain) (best block, funding depth, closed or not, relevant txids, irreversible
   events only when buried, shallow reorgs retract) and equality of the remaining conclusions with
   the plain whole-block delivery of the same history / of the same chain.
"""
import json, os, random, time
import vlib

PID = "C11"
LISTEN_MODES = ["full", "filtered", "replay", "split"]
ORDERS = ["mon_first", "mgr_first", "mon_all", "mgr_all"]


# ----------------------------------------------------------------------------- trees

class Tree:
    """parent[k-1] = parent of block k (0 = base tip); txs[k-1] = roles confirmed in block k."""

    def __init__(self, parent, txs):
        self.parent = [0] + list(parent)
        self.txs = [[]] + [sorted(t) for t in txs]
        self.height = [0] * len(self.parent)
        for k in range(1, len(self.parent)):
            self.height[k] = self.height[self.parent[k]] + 1

    def chain(self, b):
        v = [b]
        while b != 0:
            b = self.parent[b]
            v.append(b)
        return v[::-1]

    def lca(self, a, b):
        ca, cb = self.chain(a), self.chain(b)
        l = 0
        for x, y in zip(ca, cb):
            if x != y:
                break
            l = x
        return l

    def path(self, a, b):
        """blocks after ancestor a up to b"""
        c = self.chain(b)
        return c[c.index(a) + 1:]


# ----------------------------------------------------------------------------- schedules

def canonical_ops(tree, old, target):
    """Plain Listen delivery: one blocks_disconnected to the fork point, whole blocks in order."""
    l = tree.lca(old, target)
    ops = []
    if l != old:
        ops.append({"op": "disc", "to": l})
    for b in tree.path(l, target):
        ops.append({"op": "conn", "b": b, "mode": "full"})
    return ops


def listen_ops(rng, tree, old, target, walk, mode):
    l = tree.lca(old, target)
    ops = []
    if l != old:
        back = tree.path(l, old)[::-1]           # old tip ... first block above l
        stops = [tree.parent[b] for b in back]   # candidate fork points walking back
        if walk == "each":
            for s in stops:
                ops.append({"op": "disc", "to": s})
        elif walk == "some":
            for s in stops[:-1]:
                if rng.random() < 0.5:
                    ops.append({"op": "disc", "to": s})
            ops.append({"op": "disc", "to": l})
        else:
            ops.append({"op": "disc", "to": l})
    for b in tree.path(l, target):
        m = mode if mode != "mix" else rng.choice(LISTEN_MODES)
        ops.append({"op": "conn", "b": b, "mode": m})
    return ops


def split_sel(roles):
    """parents first, children in a later call (role 1 is the parent of 2, 3, 4)"""
    if 1 in roles and len(roles) > 1:
        return [[1], [r for r in roles if r != 1]]
    return [list(roles)]


def confirm_ops(rng, tree, old, target, reorg, fwd, drain_p=0.0):
    """Confirm delivery.  reorg in {unconf_asc, unconf_desc, best_fork, best_walk, unconf_best};
    fwd in {txfirst, bestfirst, skip_txfirst, skip_bestfirst, dup, redundant, split, mix}."""
    l = tree.lca(old, target)
    ops = []
    if l != old:
        back = tree.path(l, old)[::-1]
        if reorg in ("unconf_asc", "unconf_desc") and target != l:
            ops.append({"op": "unconf", "ord": reorg[7:]})
        elif reorg == "best_walk":
            for b in back:
                ops.append({"op": "best", "b": tree.parent[b]})
        elif reorg == "unconf_best":
            ops.append({"op": "unconf", "ord": rng.choice(["asc", "desc"])})
            ops.append({"op": "best", "b": l})
        else:
            ops.append({"op": "best", "b": l})
    path = tree.path(l, target)
    withtx = [b for b in path if tree.txs[b]]
    chain_t = tree.chain(target)

    def txs_ops(b):
        return [{"op": "txs", "b": b, "sel": list(tree.txs[b])}] if tree.txs[b] else []

    if fwd == "txfirst":
        for b in path:
            ops += txs_ops(b) + [{"op": "best", "b": b}]
    elif fwd == "bestfirst":
        for b in path:
            ops += [{"op": "best", "b": b}] + txs_ops(b)
    elif fwd == "skip_txfirst":
        for b in withtx:
            ops += txs_ops(b)
        if path:
            ops.append({"op": "best", "b": target})
    elif fwd == "skip_bestfirst":
        if path:
            ops.append({"op": "best", "b": target})
        for b in withtx:
            ops += txs_ops(b)
    elif fwd == "dup":
        for b in path:
            ops += txs_ops(b) + txs_ops(b)
            if rng.random() < 0.5 or b == target:
                ops.append({"op": "best", "b": b})
    elif fwd == "redundant":
        for b in path:
            if tree.txs[b]:
                for e in chain_t:
                    if tree.height[e] < tree.height[b] and tree.txs[e]:
                        ops += txs_ops(e)
            ops += txs_ops(b)
            if rng.random() < 0.4 or b == target:
                ops.append({"op": "best", "b": b})
    elif fwd == "split":
        for b in path:
            parts = split_sel(tree.txs[b]) if tree.txs[b] else []
            first = rng.random() < 0.5
            if first:
                ops.append({"op": "best", "b": b})
            for k, sel in enumerate(parts):
                ops.append({"op": "txs", "b": b, "sel": sel})
            if not first:
                ops.append({"op": "best", "b": b})
    else:  # mix: any legal interleaving: best updates at a random subset of heights, each block's
        # transactions before or after a best update at or above it, duplicates sprinkled in
        pending = []
        for b in path:
            if tree.txs[b]:
                pending.append(b)
            if rng.random() < 0.5:
                # flush transactions first, or update the tip first
                if rng.random() < 0.5:
                    for p in pending:
                        for sel in (split_sel(tree.txs[p]) if rng.random() < 0.5 else [tree.txs[p]]):
                            ops.append({"op": "txs", "b": p, "sel": list(sel)})
                        if rng.random() < 0.2:
                            ops += txs_ops(p)
                    pending = []
                ops.append({"op": "best", "b": b})
        for p in pending:
            ops += txs_ops(p)
        if path and not (ops and ops[-1] == {"op": "best", "b": target}):
            # the tip itself, unless the last thing done was exactly that
            if not any(o["op"] == "best" and o["b"] == target for o in ops):
                ops.append({"op": "best", "b": target})
            elif rng.random() < 0.3:
                ops.append({"op": "best", "b": target})
    if drain_p > 0:
        out = []
        for o in ops:
            out.append(o)
            if rng.random() < drain_p:
                out.append({"op": "drain"})
        ops = out
    return ops


REORG_STYLES = ["unconf_asc", "unconf_desc", "best_fork", "best_walk", "unconf_best"]
FWD_STYLES = ["txfirst", "bestfirst", "skip_txfirst", "skip_bestfirst", "dup", "redundant", "split", "mix"]


def random_schedule(rng, tree, targets, reloads):
    """One schedule for a history (targets + restart points): the interface (Listen / Confirm) may
    change only across a restart."""
    trans = []
    old = 0
    iface = rng.choice(["listen", "confirm"])
    drain_p = rng.choice([0.0, 0.0, 0.3])
    for i, t in enumerate(targets):
        reload_ = bool(reloads[i])
        if reload_:
            iface = rng.choice(["listen", "confirm"])
        if iface == "listen":
            ops = listen_ops(rng, tree, old, t, rng.choice(["one", "each", "some"]), rng.choice(LISTEN_MODES + ["mix"]))
            if drain_p:
                ops = [x for o in ops for x in ([o, {"op": "drain"}] if rng.random() < drain_p else [o])]
        else:
            ops = confirm_ops(rng, tree, old, t, rng.choice(REORG_STYLES), rng.choice(FWD_STYLES), drain_p)
        trans.append({"reload": reload_, "ops": ops})
        old = t
    return {"order": rng.choice(ORDERS), "trans": trans}


def canonical_schedule(tree, targets, reloads):
    trans, old = [], 0
    for i, t in enumerate(targets):
        trans.append({"reload": bool(reloads[i]), "ops": canonical_ops(tree, old, t)})
        old = t
    return {"order": "mon_first", "trans": trans}


def mk_script(scen, tree, targets, sched, kind, hist):
    return {"scen": scen, "kind": kind, "hist": hist, "parent": tree.parent[1:], "txs": tree.txs[1:],
            "targets": list(targets), "order": sched["order"], "trans": sched["trans"]}
