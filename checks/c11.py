"""C11 -- on-chain conclusions depend only on the chain, not on how it was delivered.

1. TLC model-checks spec/ChainViewMC.tla: chain histories (block trees with the relevant
   transactions present / absent / moved in competing forks) x every delivery schedule the
   chain::Listen / chain::Confirm contracts permit (ChainView.tla = the contracts as guards);
   invariant: every schedule ends synchronised to the same chain; every reachable end state is
   printed as a driver script.
2. The Rust engine `chainsync` delivers each (history, schedule) to a CLONE of the same starting
   state of real ChannelManager + ChainMonitor objects and logs their conclusions at every
   synchronisation point.
3. TLC validates the log against spec/ChainViewTrace.tla: legality of every notification,
   conclusions = F(chain) (best block, funding depth, closed or not, relevant txids, irreversible
   events only when buried, shallow reorgs retract) and equality of the remaining conclusions with
   the plain whole-block delivery of the same history / of the same chain.
"""
import json, os, random, time
import vlib

PID = "C11"
LISTEN_MODES = ["full", "filtered", "replay", "split"]
ORDERS = ["mon_first", "mgr_first", "mon_all", "mgr_all"]


# ----------------------------------------------------------------------------- trees

class Tree:
    """parent[k-1] = parent of block k (0 = base tip); txs[k-1] = roles confirmed in block k."""

    def __init__(self, parent, txs, dep=None, rev=False, keep_order=False):
        self.parent = [0] + list(parent)
        self.dep = list(dep) if dep else [0, 1, 1, 1]     # dep[r-1] = the role whose output role r spends
        self.rev = rev
        self.txs = [[]] + [list(t) if keep_order else self.order(t) for t in txs]
        self.height = [0] * len(self.parent)
        for k in range(1, len(self.parent)):
            self.height[k] = self.height[self.parent[k]] + 1

    def order(self, roles):
        """block-internal order: topological, independent transactions ascending (descending if rev)"""
        left, out = set(roles), []
        while left:
            ready = [r for r in left if self.dep[r - 1] not in left]
            x = max(ready) if self.rev else min(ready)
            out.append(x)
            left.discard(x)
        return out

    def generations(self, roles):
        """the roles of one block split into generations of in-block descendants"""
        gen = {}
        for r in self.order(roles):
            d = self.dep[r - 1]
            gen[r] = gen[d] + 1 if d in gen else 0
        return [[r for r in self.order(roles) if gen[r] == g] for g in range(max(gen.values()) + 1)] if gen else []

    def chain(self, b):
        v = [b]
        while b != 0:
            b = self.parent[b]
            v.append(b)
        return v[::-1]

    def lca(self, a, b):
        ca, cb = self.chain(a), self.chain(b)
        l = 0
        for x, y in zip(ca, cb):
            if x != y:
                break
            l = x
        return l

    def path(self, a, b):
        """blocks after ancestor a up to b"""
        c = self.chain(b)
        return c[c.index(a) + 1:]


# ----------------------------------------------------------------------------- schedules

def canonical_ops(tree, old, target):
    """Plain Listen delivery: one blocks_disconnected to the fork point, whole blocks in order."""
    l = tree.lca(old, target)
    ops = []
    if l != old:
        ops.append({"op": "disc", "to": l})
    for b in tree.path(l, target):
        ops.append({"op": "conn", "b": b, "mode": "full"})
    return ops


def listen_ops(rng, tree, old, target, walk, mode):
    l = tree.lca(old, target)
    ops = []
    if l != old:
        back = tree.path(l, old)[::-1]           # old tip ... first block above l
        stops = [tree.parent[b] for b in back]   # candidate fork points walking back
        if walk == "each":
            for s in stops:
                ops.append({"op": "disc", "to": s})
        elif walk == "some":
            for s in stops[:-1]:
                if rng.random() < 0.5:
                    ops.append({"op": "disc", "to": s})
            ops.append({"op": "disc", "to": l})
        else:
            ops.append({"op": "disc", "to": l})
    for b in tree.path(l, target):
        m = mode if mode != "mix" else rng.choice(LISTEN_MODES)
        ops.append({"op": "conn", "b": b, "mode": m})
    return ops


def split_sel(tree, roles, rng=None):
    """parents first, their in-block children in a later call, grandchildren after that; or (rng) some
    other cut of the topological order into consecutive calls"""
    gens = tree.generations(roles)
    if rng is not None and len(roles) > 2 and rng.random() < 0.5:
        o = tree.order(roles)
        k = rng.randint(1, len(o) - 1)
        return [o[:k], o[k:]]
    return gens


def confirm_ops(rng, tree, old, target, reorg, fwd, drain_p=0.0):
    """Confirm delivery.  reorg in {unconf_asc, unconf_desc, best_fork, unconf_best};
    fwd in {txfirst, bestfirst, skip_txfirst, skip_bestfirst, dup, redundant, split, mix}."""
    l = tree.lca(old, target)
    ops = []
    if l != old:
        if reorg in ("unconf_asc", "unconf_desc") and target != l:
            ops.append({"op": "unconf", "ord": reorg[7:]})
        elif reorg == "unconf_best":
            ops.append({"op": "unconf", "ord": rng.choice(["asc", "desc"])})
            ops.append({"op": "best", "b": l})
        else:
            ops.append({"op": "best", "b": l})
    path = tree.path(l, target)
    withtx = [b for b in path if tree.txs[b]]
    chain_t = tree.chain(target)

    def txs_ops(b):
        return [{"op": "txs", "b": b, "sel": list(tree.txs[b])}] if tree.txs[b] else []

    if fwd == "txfirst":
        for b in path:
            ops += txs_ops(b) + [{"op": "best", "b": b}]
    elif fwd == "bestfirst":
        for b in path:
            ops += [{"op": "best", "b": b}] + txs_ops(b)
    elif fwd == "skip_txfirst":
        for b in withtx:
            ops += txs_ops(b)
        if path:
            ops.append({"op": "best", "b": target})
    elif fwd == "skip_bestfirst":
        if path:
            ops.append({"op": "best", "b": target})
        for b in withtx:
            ops += txs_ops(b)
    elif fwd == "dup":
        for b in path:
            ops += txs_ops(b) + txs_ops(b)
            if rng.random() < 0.5 or b == target:
                ops.append({"op": "best", "b": b})
    elif fwd == "redundant":
        for b in path:
            if tree.txs[b]:
                for e in chain_t:
                    if tree.height[e] < tree.height[b] and tree.txs[e]:
                        ops += txs_ops(e)
            ops += txs_ops(b)
            if rng.random() < 0.4 or b == target:
                ops.append({"op": "best", "b": b})
    elif fwd == "split":
        for b in path:
            parts = split_sel(tree, tree.txs[b], rng) if tree.txs[b] else []
            first = rng.random() < 0.5
            if first:
                ops.append({"op": "best", "b": b})
            for k, sel in enumerate(parts):
                ops.append({"op": "txs", "b": b, "sel": sel})
            if not first:
                ops.append({"op": "best", "b": b})
    else:  # mix: any legal interleaving: best updates at a random subset of heights, each block's
        # transactions before or after a best update at or above it, duplicates sprinkled in
        pending = []
        for b in path:
            if tree.txs[b]:
                pending.append(b)
            if rng.random() < 0.5:
                # flush transactions first, or update the tip first
                if rng.random() < 0.5:
                    for p in pending:
                        for sel in (split_sel(tree, tree.txs[p], rng) if rng.random() < 0.5 else [tree.txs[p]]):
                            ops.append({"op": "txs", "b": p, "sel": list(sel)})
                        if rng.random() < 0.2:
                            ops += txs_ops(p)
                    pending = []
                ops.append({"op": "best", "b": b})
        for p in pending:
            ops += txs_ops(p)
        if path and not any(o["op"] == "best" and o["b"] == target for o in ops):
            ops.append({"op": "best", "b": target})
    if drain_p > 0:
        out = []
        for o in ops:
            out.append(o)
            if rng.random() < drain_p:
                out.append({"op": "drain"})
        ops = out
    return ops


REORG_STYLES = ["unconf_asc", "unconf_desc", "best_fork", "unconf_best"]
FWD_STYLES = ["txfirst", "bestfirst", "skip_txfirst", "skip_bestfirst", "dup", "redundant", "split", "mix"]


def random_schedule(rng, tree, targets, reloads, claims=None):
    """One schedule for a history (targets + restart points): the interface (Listen / Confirm) may
    change only across a restart."""
    trans = []
    old = 0
    iface = rng.choice(["listen", "confirm"])
    drain_p = rng.choice([0.0, 0.0, 0.3])
    for i, t in enumerate(targets):
        reload_ = bool(reloads[i])
        if reload_:
            iface = rng.choice(["listen", "confirm"])
        if iface == "listen":
            ops = listen_ops(rng, tree, old, t, rng.choice(["one", "each", "some"]), rng.choice(LISTEN_MODES + ["mix"]))
            if drain_p:
                ops = [x for o in ops for x in ([o, {"op": "drain"}] if rng.random() < drain_p else [o])]
        else:
            ops = confirm_ops(rng, tree, old, t, rng.choice(REORG_STYLES), rng.choice(FWD_STYLES), drain_p)
        trans.append({"reload": reload_, "claim": bool(claims and claims[i]), "ops": ops})
        old = t
    return {"order": rng.choice(ORDERS), "trans": trans}


def styled_schedule(rng, tree, targets, reloads, claims, reorg, fwd, order):
    """Confirm interface throughout, one fixed style (used to cover the named styles systematically)."""
    trans, old = [], 0
    for i, t in enumerate(targets):
        trans.append({"reload": bool(reloads[i]), "claim": bool(claims and claims[i]),
                      "ops": confirm_ops(rng, tree, old, t, reorg, fwd)})
        old = t
    return {"order": order, "trans": trans}


def canonical_schedule(tree, targets, reloads, claims=None):
    trans, old = [], 0
    for i, t in enumerate(targets):
        trans.append({"reload": bool(reloads[i]), "claim": bool(claims and claims[i]), "ops": canonical_ops(tree, old, t)})
        old = t
    return {"order": "mon_first", "trans": trans}


def mk_script(scen, tree, targets, sched, kind, hist):
    return {"scen": scen, "kind": kind, "hist": hist, "parent": tree.parent[1:], "txs": tree.txs[1:],
            "targets": list(targets), "order": sched["order"], "trans": sched["trans"]}


# ----------------------------------------------------------------------------- histories

def tree_valid(tree, meta):
    """Every chain of the tree is a valid block chain for the scenario's transactions."""
    avail = {r + 1 for r, ok in enumerate(meta["roles"]) if ok}
    if tree.dep != list(meta["dep"]):
        return False
    for b in range(1, len(tree.parent)):
        if tree.order(tree.txs[b]) != tree.txs[b] and Tree([], [], tree.dep, not tree.rev).order(tree.txs[b]) != tree.txs[b]:
            return False
        ch = tree.chain(b)
        seen = {}
        for a in ch:
            for r in tree.txs[a]:
                if r in seen or r not in avail:
                    return False
                seen[r] = a
        for r in tree.txs[b]:
            d = meta["dep"][r - 1]
            if d != 0 and d not in seen:
                return False
            if tree.height[b] < meta["minh"][r - 1]:
                return False
        if 2 in seen and 4 in seen:
            return False
    return True


def random_tree(rng, meta, ard, nbmax=12):
    la = rng.randint(2, 8)
    parent = list(range(la))
    height = [0] + [k + 1 for k in range(la)]
    tips = [la]
    for _ in range(rng.choice([0, 1, 1, 1, 2])):
        nb = len(parent)
        if nb >= nbmax:
            break
        tip = rng.choice(tips)
        d = rng.randint(1, min(ard + 1, height[tip]))
        f = tip
        for _ in range(d):
            f = parent[f - 1] if f > 0 else 0
        lb = rng.randint(1, min(nbmax - nb, d + 3))
        prev = f
        for _ in range(lb):
            parent.append(prev)
            height.append(height[prev] + 1)
            prev = len(parent)
        tips.append(prev)
    avail = [r + 1 for r, ok in enumerate(meta["roles"]) if ok]
    txs = [[] for _ in parent]
    tree = Tree(parent, txs, meta["dep"], rev=rng.random() < 0.3)
    p = rng.choice([0.15, 0.3, 0.5])
    for b in range(1, len(parent) + 1):
        for r in avail:
            if rng.random() < (p * 2 if r == 1 else p):
                tree.txs[b] = tree.order(tree.txs[b] + [r])
                if not tree_valid(tree, meta):
                    tree.txs[b] = [x for x in tree.txs[b] if x != r]
    return tree, tips


def random_targets(rng, tree, tips, ard):
    n = rng.randint(2, 7)
    cur, out = 0, []
    nb = len(tree.parent) - 1
    for _ in range(n):
        desc = [b for b in range(1, nb + 1) if b != cur and cur in tree.chain(b)]
        others = [b for b in range(1, nb + 1) if cur not in tree.chain(b) and b not in tree.chain(cur)
                  and tree.height[b] >= tree.height[cur]          # a best chain never gets shorter sideways
                  and tree.height[cur] - tree.height[tree.lca(cur, b)] <= ard + 1]
        anc = [b for b in tree.chain(cur)[:-1] if tree.height[cur] - tree.height[b] <= ard + 1]
        x = rng.random()
        if others and x < 0.35:
            nxt = rng.choice(others)
        elif anc and x < 0.45:
            nxt = rng.choice(anc)
        elif desc:
            near = [b for b in desc if tree.height[b] - tree.height[cur] <= 2]
            nxt = rng.choice(near if near and rng.random() < 0.6 else desc)
        elif others:
            nxt = rng.choice(others)
        else:
            break
        out.append(nxt)
        cur = nxt
    return out


def sweep_histories(meta, ard):
    """Burial thresholds and reorganisations at depth ARD-2 .. ARD, for every role the starting state
    offers: the root (role 1) in block 1 and the role under test in a later block, then
      (a) one sync point per block until the role is ARD+1 deep;
      (b) the role reorganised away with d confirmations (the root stays), the competing branch --
          without the role, or with the role one block later -- followed block by block past ARD;
      (c) as (b) but the client jumps: base -> tip of A in one transition, back to the fork point,
          -> tip of B in one transition."""
    out = []
    avail = [r + 1 for r, ok in enumerate(meta["roles"]) if ok]
    h1 = max(1, meta["minh"][0])
    variants = []
    for r in avail:
        hr = h1 if r == 1 else max(h1 + 1, meta["minh"][r - 1])
        variants.append((r, hr))
        # also after the height from which the node's own time-locked claims are pending (so that the
        # role competes with, or splits, a claim that is already out)
        late = max(hr, meta["minh"][1])
        if r != 1 and late != hr:
            variants.append((r, late))
    for r, hr in variants:

        def place(n, extra=None):
            txs = [[] for _ in range(n)]
            txs[h1 - 1].append(1)
            if r != 1:
                txs[hr - 1].append(r)
            if extra is not None:
                txs[extra].append(r)
            return [sorted(set(x)) for x in txs]
        n = hr + ard + 1
        if n <= 12:
            t = Tree(list(range(n)), place(n), meta["dep"])
            if tree_valid(t, meta):
                out.append((t, list(range(1, n + 1))))
        for d in (ard - 3, ard - 2, ard - 1, ard):
            la = hr + d - 1                     # the role has d confirmations at the tip of A
            lb = min(12 - la, max(d + 1, ard - 1))
            if lb < 1 or la > 11:
                continue
            parent = list(range(la)) + [hr - 1] + [la + k for k in range(1, lb)]
            walk = ([la - 1] if la > 1 else []) + [la, hr - 1] + [la + k for k in range(1, lb + 1)]
            jump = [la, hr - 1, la + lb]
            for extra in (None, la + 1 if lb >= 2 else None):
                if extra is None and r == 1 and False:
                    continue
                t = Tree(parent, place(len(parent), extra), meta["dep"])
                if not tree_valid(t, meta):
                    continue
                out.append((t, walk))
                out.append((t, jump))
                if extra is None:
                    break
    # no duplicates
    seen, res = set(), []
    for t, tg in out:
        k = (tuple(t.parent), tuple(tuple(x) for x in t.txs), tuple(tg))
        if k not in seen:
            seen.add(k)
            res.append((t, tg))
    return res


def late_histories(ard):
    """The preimage of the inbound HTLC is learned k blocks after the commitment (role 1, block 1)
    confirmed; j more blocks; then the last d blocks are reorganised away (the commitment stays
    confirmed) and a competing branch of two blocks follows."""
    out = []
    for k in range(0, 8):
        for j in (0, 1):
            for d in (1, 2, 3):
                la = 1 + k + j
                if d > la - 1 or la + 2 > 12:
                    continue
                parent = list(range(la)) + [la - d, la + 1]
                txs = [[1]] + [[] for _ in range(la + 1)]
                targets, claims = [1], [False]
                if k > 0:
                    targets.append(1 + k)
                    claims.append(False)
                nxt = [la] if j > 0 else []
                nxt += [la - d, la + 1, la + 2]
                for q, t in enumerate(nxt):
                    targets.append(t)
                    claims.append(q == 0)
                out.append((Tree(parent, txs), targets, claims))
    return out


def chain_histories(meta, ard, thorough=False):
    """Dependency chains of relevant transactions (a role, the role it spends, ... up to the root;
    depth 2 and 3), every way of packing consecutive members into the same block or spreading them
    (gap 0 = same block, 1 = next block, [2]), at the earliest heights the locktimes allow:
      (a) on one chain: the object is taken from the starting state (it has never seen any member)
          to the block of the last member in ONE transition, then block by block until the last
          member is buried ARD + 1 deep;
      (b) with a reorganisation: one arrangement on branch A (followed block by block, or in one
          jump), another one on branch B which forks below the first member, B followed until buried."""
    dep, out = meta["dep"], []
    avail = {r + 1 for r, ok in enumerate(meta["roles"]) if ok}
    chains = []
    for r in sorted(avail):
        c = [r]
        while dep[c[0] - 1] != 0:
            c.insert(0, dep[c[0] - 1])
        if len(c) >= 2 and all(x in avail for x in c):
            chains.append(c)
    gapsets = (0, 1, 2) if thorough else (0, 1)

    def arrangements(c):
        res = [[]]
        for _ in c[1:]:
            res = [g + [x] for g in res for x in gapsets]
        return res

    def heights(c, gaps):
        s = 1
        while True:
            hs = [s]
            for g in gaps:
                hs.append(hs[-1] + g)
            if all(h >= max(1, meta["minh"][r - 1]) for h, r in zip(hs, c)):
                return hs
            s += 1

    for c in chains:
        arr = arrangements(c)
        for ga in arr:
            ha = heights(c, ga)
            n = min(12, ha[-1] + ard + 1)
            txs = [[] for _ in range(n)]
            for h, r in zip(ha, c):
                txs[h - 1].append(r)
            t = Tree(list(range(n)), txs, dep)
            if tree_valid(t, meta):
                out.append((t, list(range(ha[-1], n + 1))))
                if ha[-1] > 1:
                    out.append((t, [ha[0]] + list(range(ha[-1], n + 1))) if ha[0] < ha[-1] else (t, [ha[-1] - 1] + list(range(ha[-1], n + 1))))
            for gb in arr:
                if gb == ga:
                    continue
                hb = heights(c, gb)
                la = ha[-1]
                f = min(ha[0], hb[0]) - 1                      # fork point below the first member on either branch
                lb_top = min(12 - la, max(hb[-1], la) - f + ard)
                if lb_top < max(hb[-1], la) - f:
                    continue
                parent = list(range(la)) + [f] + [la + k for k in range(1, lb_top)]
                txs = [[] for _ in parent]
                for h, r in zip(ha, c):
                    txs[h - 1].append(r)
                for h, r in zip(hb, c):
                    txs[la + (h - f) - 1].append(r)
                t = Tree(parent, txs, dep)
                if not tree_valid(t, meta):
                    continue
                first_b = la + (max(hb[-1], la) - f)           # the block of B at which B is at least as high as A
                rest = list(range(first_b, la + lb_top + 1))
                out.append((t, list(range(1, la + 1)) + rest))
                out.append((t, [la] + rest))
    seen, res = set(), []
    for t, tg in out:
        k = (tuple(t.parent), tuple(tuple(x) for x in t.txs), tuple(tg))
        if k not in seen:
            seen.add(k)
            res.append((t, tg))
    return res


def chain_key(scen, tree, tip):
    return (scen, tuple(tuple(tree.txs[b]) for b in tree.chain(tip)[1:]))


def direct_script(scen, tree, tip):
    ch = tree.chain(tip)[1:]
    dt = Tree(list(range(len(ch))), [tree.txs[b] for b in ch], tree.dep, tree.rev, keep_order=True)
    return mk_script(scen, dt, [len(ch)], canonical_schedule(dt, [len(ch)], [False]), "direct", 0)


# ----------------------------------------------------------------------------- TLC scripts

def convert_tlc(rng, s):
    """TLC behaviour (ChainViewMC.hist) -> (tree, targets, reloads, schedule)."""
    tree = Tree(s["parent"], s["txs"], s["dep"], keep_order=True)
    tree.rev = any(tree.order(t) != t for t in tree.txs)
    targets, reloads, trans = [], [], []
    old, pending_reload, cur = 0, False, None
    for o in s["ops"]:
        k = o["op"]
        if k == "restart":
            pending_reload = True
        elif k == "plain":
            targets.append(o["t"])
            reloads.append(pending_reload)
            trans.append({"reload": pending_reload, "ops": canonical_ops(tree, old, o["t"])})
            pending_reload, old = False, o["t"]
        elif k == "begin":
            targets.append(o["t"])
            reloads.append(pending_reload)
            cur = {"reload": pending_reload, "ops": []}
            pending_reload = False
        elif k == "sync":
            trans.append(cur)
            old, cur = targets[-1], None
        elif k == "conn":
            cur["ops"].append({"op": "conn", "b": o["b"], "mode": rng.choice(LISTEN_MODES)})
        elif k == "disc":
            cur["ops"].append({"op": "disc", "to": o["to"]})
        elif k == "txs":
            cur["ops"].append({"op": "txs", "b": o["b"], "sel": sorted(o["sel"])})
        elif k == "best":
            cur["ops"].append({"op": "best", "b": o["b"]})
        elif k == "unconf":
            cur["ops"].append({"op": "unconf", "ord": rng.choice(["asc", "desc"])})
        if cur is not None and k in ("conn", "disc", "txs", "best", "unconf") and rng.random() < 0.15:
            cur["ops"].append({"op": "drain"})
    return tree, targets, reloads, {"order": rng.choice(ORDERS), "trans": trans}


# ----------------------------------------------------------------------------- the check

TRACE_MODULE, TRACE_CFG = "ChainViewTrace", "ChainViewTrace.cfg"
KNOWN_KEY = "PendingClaims_LostOnRewind"       # first, broad record: equivalent to classes A + B
CLAIM_KEYS = {"A": "ClaimLost_CommitmentReconfirmedLowerViaConfirm",
              "B": "ClaimLost_HolderCommitmentBroadcastAfterFundingReorg",
              "C": "ClaimLost_LatePreimageOnHolderCommitment",
              "D": "ClaimLost_LatePreimageAfterCommitmentFinal",
              "E": "ClaimLost_HolderCommitmentBroadcastBeforeLateConfirmation"}
PANIC_KEYS = [("pending_claim_requests.get(&claim_id).is_none()", "panic_duplicate_locktimed_claim_after_commitment_reorg")]
ENV_OPS = ("conn", "disc", "txs", "best", "unconf", "begin", "reload", "reset")
MC_ACTIONS = ["MPlain", "MBegin", "MRestart", "MConnect", "MDisconnect", "MTxs", "MUnconfirm", "MBest", "MSync"]


def cfg_ard():
    for ln in open(os.path.join(vlib.SPEC, TRACE_CFG)):
        if ln.strip().startswith("CONSTANT ARD"):
            return int(ln.split("=")[1])
    raise vlib.ToolError("ARD not found in " + TRACE_CFG)


class Plan:
    """Scripts grouped so that every batch is self-contained: the plain delivery of every chain
    (`direct`) first, then per history the canonical run followed by its other schedules."""

    def __init__(self):
        self.hists = {}      # key -> dict(scen, tree, targets, reloads, scheds[])
        self.order = []

    def add(self, scen, tree, targets, reloads, sched, origin, claims=None):
        claims = list(claims) if claims else [False] * len(targets)
        key = (scen, tuple(tree.parent), tuple(tuple(t) for t in tree.txs), tuple(targets), tuple(reloads), tuple(claims))
        h = self.hists.get(key)
        if h is None:
            h = {"scen": scen, "tree": tree, "targets": targets, "reloads": reloads, "claims": claims,
                 "scheds": [], "origin": origin}
            self.hists[key] = h
            self.order.append(key)
        if sched is not None:
            h["scheds"].append(sched)

    def batches(self, per_batch):
        out, cur, n = [], [], 0
        for key in self.order:
            h = self.hists[key]
            cur.append(h)
            n += 1 + len(h["scheds"])
            if n >= per_batch:
                out.append(cur)
                cur, n = [], 0
        if cur:
            out.append(cur)
        return out


def batch_scripts(hists, first_hist_id):
    scripts, seen = [], set()
    for h in hists:
        if any(h["claims"]):
            continue
        for t in h["targets"]:
            k = chain_key(h["scen"], h["tree"], t)
            if k not in seen and k[1]:
                seen.add(k)
                scripts.append(direct_script(h["scen"], h["tree"], t))
    hid = first_hist_id
    for h in hists:
        hid += 1
        scripts.append(mk_script(h["scen"], h["tree"], h["targets"],
                                 canonical_schedule(h["tree"], h["targets"], h["reloads"], h["claims"]), "canon", hid))
        for sc in h["scheds"]:
            scripts.append(mk_script(h["scen"], h["tree"], h["targets"], sc, "sched", hid))
    return scripts, hid


def diff_conclusions(run_events, canon_events, idx):
    """Human-readable difference between a run's and its canonical run's sync record (replay file)."""
    a = [e for e in canon_events if e["ev"] == "sync" and e["idx"] == idx]
    b = [e for e in run_events if e["ev"] == "sync" and e["idx"] == idx]
    if not a or not b:
        return {}
    out = {}
    for part in ("R", "S"):
        for k in a[0][part]:
            if a[0][part][k] != b[0][part][k]:
                out["%s.%s" % (part, k)] = {"canonical": a[0][part][k], "this_schedule": b[0][part][k]}
    return out


def selftest(wd, trace_paths, env):
    """Binding self-test: corrupt an accepted trace; every corruption must be refused."""
    last = None
    for tp in trace_paths:
        try:
            return selftest_on(wd, tp, env)
        except vlib.ToolError as e:
            last = e
            if "no suitable history" not in str(e):
                raise
    raise last or vlib.ToolError("binding self-test: no accepted trace")


def selftest_on(wd, trace_path, env):
    recs = [json.loads(x) for x in open(trace_path)]
    # keep the direct runs + the first history that has a buried role, an irreversible event and a
    # schedule other than the canonical one
    by_run = {}
    for r in recs:
        by_run.setdefault(r["run"], []).append(r)
    keep = [r for r in recs if by_run[r["run"]][0]["kind"] == "direct"]
    pick = None
    for run, evs in by_run.items():
        if evs[0]["kind"] != "canon":
            continue
        syncs = [e for e in evs if e["ev"] == "sync"]
        if any(e["ev"] in ("disc", "reload") for e in evs):
            continue        # keep it simple: a history without reorganisation or restart
        first_irr = next((k for k, s in enumerate(syncs) if s["f"]["irrev"]), None)
        if first_irr is not None and first_irr >= 1 and any(s["f"]["mrel"] for s in syncs):
            others = [x for x in by_run if by_run[x][0]["kind"] == "sched" and by_run[x][0]["hist"] == evs[0]["hist"]]
            if others:
                pick = (run, others[0])
                break
    if pick is None:
        raise vlib.ToolError("binding self-test: no suitable history in the accepted trace")
    base = keep + by_run[pick[0]] + by_run[pick[1]]
    muts = []

    def clone():
        return [json.loads(json.dumps(r)) for r in base]

    def sync_idx(m, run, pred):
        for k, r in enumerate(m):
            if r["run"] == run and r["ev"] == "sync" and pred(r):
                return k
        return None
    # (a) an irreversible event reported one sync point too early (before its trigger is buried)
    m = clone()
    k = sync_idx(m, pick[0], lambda r: r["f"]["irrev"])
    if k is not None:
        prev = max(j for j in range(k) if m[j]["ev"] == "sync" and m[j]["run"] == pick[0]) if any(
            m[j]["ev"] == "sync" and m[j]["run"] == pick[0] for j in range(k)) else None
        if prev is not None:
            m[prev]["f"]["irrev"] = m[k]["f"]["irrev"]
            muts.append(("irreversible-too-early", m))
    # (b) a relevant txid dropped while not yet buried
    m = clone()
    k = sync_idx(m, pick[0], lambda r: r["f"]["mrel"])
    if k is not None:
        m[k]["f"]["mrel"] = []
        muts.append(("unburied-forgotten", m))
    # (c) best block off by one block
    m = clone()
    k = sync_idx(m, pick[0], lambda r: True)
    m[k]["f"]["mbest"] = m[k]["f"]["mbest"] + 1
    muts.append(("best-block-wrong", m))
    # (d) a balance differs in the non-canonical schedule
    m = clone()
    k = sync_idx(m, pick[1], lambda r: r["R"]["bal"])
    if k is not None:
        m[k]["R"]["bal"] = m[k]["R"]["bal"][1:]
        muts.append(("balance-differs", m))
    # (e) a notification dropped from the schedule (an illegal / incomplete delivery must be refused)
    m = clone()
    for k, r in enumerate(m):
        if r["run"] == pick[1] and r["ev"] in ("conn", "txs", "best") and r["who"] == "mon":
            muts.append(("notification-dropped", m[:k] + m[k + 1:]))
            break
    # (f) an extra event in the non-canonical schedule
    m = clone()
    k = sync_idx(m, pick[1], lambda r: True)
    m[k]["S"]["evs"] = m[k]["S"]["evs"] + ["SpendableOutputs:static:t1:0"]
    muts.append(("event-duplicated", m))
    rejected, names = 0, []
    for name, m in muts:
        p = os.path.join(wd, "selftest-%s.ndjson" % name)
        with open(p, "w") as f:
            for r in m:
                f.write(json.dumps(r) + "\n")
        _, fails = vlib.validate_trace(PID, TRACE_MODULE, TRACE_CFG, p, max_failures=1, tag="st", env=env)
        names.append(name + ("" if fails else ":ACCEPTED"))
        if fails:
            rejected += 1
    if len(muts) < 6 or rejected != len(muts):
        raise vlib.ToolError("binding self-test: %d of %d corrupted traces rejected (%s)" % (rejected, len(muts), names))
    return {"mutations": len(muts), "rejected": rejected, "kinds": names}


def report_panics(bi, tpath, scripts, seen):
    """Report runs that ended in a panic (once per starting state and message) and cut them out."""
    lines = open(tpath).read().splitlines()
    panicked = {}
    for ln in lines:
        if '"ev":"panic"' in ln:
            r = json.loads(ln)
            panicked[r["run"]] = r
    if not panicked:
        return 0
    drop = set(panicked)
    for run in list(panicked):
        if scripts[run - 1]["kind"] == "canon":
            k = run + 1
            while k <= len(scripts) and scripts[k - 1]["kind"] == "sched":
                drop.add(k)
                k += 1
    nviol = 0
    for run, rec in sorted(panicked.items()):
        msg = rec.get("msg", "")
        key = next((k for pat, k in PANIC_KEYS if pat in msg), None)
        sig = (scripts[run - 1]["scen"], msg[:120])
        seen[sig] = seen.get(sig, 0) + 1
        if seen[sig] > 1:
            continue
        vlib.log("[panic] batch %d run %d (%s, %s): %s" % (bi, run, scripts[run - 1]["scen"], scripts[run - 1]["kind"],
                                                          msg.replace("\n", " ")[:160]))
        evs = [json.loads(x) for x in lines if json.loads(x)["run"] == run]
        if vlib.report_violation(PID, "b%d-run%d-panic" % (bi, run), {
                "property": PID, "kind": "panic", "message": msg, "script": scripts[run - 1], "trace_of_run": evs,
                "how_to_replay": "write `script` to s.ndjson; VERIF_VERBOSE=1 harness/target/debug/chainsync "
                                 "--scripts s.ndjson --out t.ndjson"}, key=key):
            nviol += 1
    kept = [ln for ln in lines if json.loads(ln)["run"] not in drop]
    with open(tpath, "w") as f:
        f.write("\n".join(kept) + "\n")
    return nviol


def run(tier, seed):
    t0 = time.time()
    wd = vlib.workdir(PID)
    thorough = tier == "thorough"
    bins = vlib.build(["chainsync"])
    rng = random.Random(seed)

    # ---- 0. the starting states the engine offers, and the constant of the code
    dpath = os.path.join(wd, "describe.json")
    vlib.run_bin(bins["chainsync"], ["--describe", "--out", dpath], discard_stdout=True)
    desc = json.load(open(dpath))
    ard = desc["ard"]
    if ard != cfg_ard():
        raise vlib.ToolError("ANTI_REORG_DELAY of the code (%d) differs from the specs' ARD" % ard)
    metas = {m["name"]: m for m in desc["scenarios"]}
    for m in metas.values():
        if m.get("late"):
            m["roles"][2] = False   # the node's own preimage-claim transaction does not exist before it claims

    # ---- 1. environment check + behaviours from TLC
    mcs, tlc_scripts = [], []
    cfgs = ["ChainViewMC.cfg", "ChainViewMCc.cfg"] if not thorough else ["ChainViewMC.cfg", "ChainViewMCc.cfg", "ChainViewMCt1.cfg", "ChainViewMCt2.cfg"]
    for cfg in cfgs:
        r = vlib.tlc_mc(PID, "ChainViewMC", cfg, workers=12, timeout=3000 if thorough else 600)
        if r["violated"]:
            raise vlib.ToolError("environment model violates %s in %s (spec needs correction)" % (r["violated"], cfg))
        vlib.require_coverage(r, MC_ACTIONS, cfg)
        got = vlib.tlc_printed(r["out"], "SCRIPT")
        vlib.log("[mc] %s: %d distinct states, %d generated, depth %d, %d scripts, %.0fs" %
                 (cfg, r["distinct"], r["states"], r["depth"], len(got), r["wall_s"]))
        tlc_scripts += got
        r.pop("out")
        mcs.append((cfg, r))
    cap = 12000 if thorough else 1600
    tlc_scripts.sort(key=lambda x: json.dumps(x, sort_keys=True))    # TLC prints in worker order
    if len(tlc_scripts) > cap:
        tlc_scripts = rng.sample(tlc_scripts, cap)

    plan = Plan()
    n_tlc = 0
    names = sorted(metas)
    for k, s in enumerate(tlc_scripts):
        tree, targets, reloads, sched = convert_tlc(rng, s)
        ok = [n for n in names if tree_valid(tree, metas[n])]
        if not ok:
            continue
        scen = ok[k % len(ok)]
        plan.add(scen, tree, targets, reloads, sched, "tlc")
        n_tlc += 1
    if tlc_scripts and n_tlc * 2 < len(tlc_scripts):
        raise vlib.ToolError("most TLC behaviours fit no starting state (%d of %d)" % (n_tlc, len(tlc_scripts)))

    # ---- 2. larger histories: threshold sweeps + seeded random trees, several schedules each
    n_sweep = n_rand = 0
    per_hist = 6 if thorough else 2
    for n in names:
        for tree, targets in sweep_histories(metas[n], ard):
            reloads = [False] + [rng.random() < 0.15 for _ in targets[1:]]
            plan.add(n, tree, targets, reloads, None, "sweep")
            # the two "skipping" Confirm styles, systematically (tip first / transactions first)
            plan.add(n, tree, targets, reloads, styled_schedule(rng, tree, targets, reloads, None, "best_fork", "skip_bestfirst", "mgr_first"), "sweep")
            plan.add(n, tree, targets, reloads, styled_schedule(rng, tree, targets, reloads, None, "unconf_desc", "skip_txfirst", "mon_first"), "sweep")
            n_sweep += 2
            for _ in range(per_hist - 1 if not thorough else per_hist):
                plan.add(n, tree, targets, reloads, random_schedule(rng, tree, targets, reloads), "sweep")
                n_sweep += 1
    # dependency chains packed into one block / spread over blocks, every delivery style systematically
    n_chain = 0
    for n in names:
        if max(metas[n]["dep"]) < 2:
            continue
        for tree, targets in chain_histories(metas[n], ard, thorough):
            variants = [[False] * len(targets)]
            if thorough or rng.random() < 0.3:
                variants.append([False] + [k == 1 for k in range(1, len(targets))])     # a restart after the first transition
            for reloads in variants:
                plan.add(n, tree, targets, reloads, None, "chain")
                lst = [{"order": rng.choice(ORDERS), "trans": [
                    {"reload": bool(reloads[i]), "claim": False,
                     "ops": listen_ops(rng, tree, ([0] + targets)[i], t, "one", mode)} for i, t in enumerate(targets)]}
                    for mode in LISTEN_MODES[1:]]
                cnf = [styled_schedule(rng, tree, targets, reloads, None, rng.choice(REORG_STYLES), fwd, rng.choice(ORDERS))
                       for fwd in ("txfirst", "bestfirst", "split", "skip_txfirst", "skip_bestfirst")]
                scheds = lst + cnf if thorough else rng.sample(lst, 2) + rng.sample(cnf, 2)
                for sc in scheds:
                    plan.add(n, tree, targets, reloads, sc, "chain")
                    n_chain += 1
    if any(max(m["dep"]) >= 2 for m in metas.values()) and n_chain == 0:
        raise vlib.ToolError("no dependency-chain history was generated")
    n_late = 0
    for n in names:
        if not metas[n].get("late"):
            continue
        for tree, targets, claims in late_histories(ard):
            reloads = [False] * len(targets)
            plan.add(n, tree, targets, reloads, None, "late", claims)
            for _ in range(per_hist if thorough else 2):
                plan.add(n, tree, targets, reloads, random_schedule(rng, tree, targets, reloads, claims), "late", claims)
                n_late += 1
    nrand = 1200 if thorough else 150
    for k in range(nrand):
        n = names[k % len(names)]
        tree, tips = random_tree(rng, metas[n], ard)
        targets = random_targets(rng, tree, tips, ard)
        if not targets or not tree_valid(tree, metas[n]):
            continue
        reloads = [False] + [rng.random() < 0.25 for _ in targets[1:]]
        claims = [False] * len(targets)
        if metas[n].get("late") and len(targets) > 1:
            claims[rng.randrange(1, len(targets))] = True
        plan.add(n, tree, targets, reloads, None, "random", claims)
        for _ in range(per_hist):
            plan.add(n, tree, targets, reloads, random_schedule(rng, tree, targets, reloads, claims), "random", claims)
            n_rand += 1

    # ---- 3. real code, batch by batch; 4. trace validation (the oracle)
    known_keys = {k.get("key") for k in vlib.load_known() if k.get("property") == PID}
    classes = {c for c, key in CLAIM_KEYS.items() if key in known_keys}
    if KNOWN_KEY in known_keys:
        classes |= {"A", "B"}
    classes |= set(os.environ.get("VERIF_C11_ASSUME_KNOWN", ""))     # for rehearsals before a key is recorded
    env = {"C11_WAIVE_" + c: "1" for c in classes}
    known = bool(classes)
    waived_by_class = {}
    nviol = total_events = total_runs = total_syncs = total_calls = panics = waived = 0
    first_ok_trace, sample_scripts, ok_traces = None, [], []
    panic_seen = {}
    hid = 0
    batches = plan.batches(900 if thorough else 700)
    for bi, hists in enumerate(batches):
        scripts, hid = batch_scripts(hists, hid)
        spath = os.path.join(wd, "scripts-%d.ndjson" % bi)
        tpath = os.path.join(wd, "trace-%d.ndjson" % bi)
        with open(spath, "w") as f:
            for s in scripts:
                f.write(json.dumps(s) + "\n")
        if not sample_scripts:
            sample_scripts = [x for x in scripts if x["kind"] == "sched"][:2]
        vlib.run_bin(bins["chainsync"], ["--scripts", spath, "--out", tpath], discard_stdout=True, timeout=3000)
        summ = json.load(open(tpath + ".summary"))
        if summ["setup_failures"]:
            raise vlib.ToolError("chainsync could not prepare a starting state (%d failures)" % summ["setup_failures"])
        total_runs += summ["runs"]
        total_syncs += summ["syncs"]
        total_calls += summ["calls"]
        panics += summ["panics"]
        # Panics are data (rule 4): the trace spec has no action for a `panic` record, so such a run can
        # only be rejected.  They are reported here directly and taken out of the file -- together with
        # the other schedules of a history whose canonical run panicked -- so that TLC judges the rest.
        nviol += report_panics(bi, tpath, scripts, panic_seen)
        total, fails = vlib.validate_trace(PID, TRACE_MODULE, TRACE_CFG, tpath, timeout=2400, env=env,
                                           tag="b%d" % bi, max_failures=8)
        total_events += total
        out = open(os.path.join(wd, "tlc-trace-b%d1.out" % bi)).read() if known else ""
        for ln in out.splitlines():
            if ln.startswith('<<"WAIVED"'):
                waived += 1
                for c in "ABCDE":
                    if '"%s"' % c in ln.split(",", 3)[-1]:
                        waived_by_class[c] = waived_by_class.get(c, 0) + 1
        if not fails:
            ok_traces.append(tpath)
            first_ok_trace = first_ok_trace or tpath
        by_run = None
        failed_runs = set()
        for fl in fails:
            ev = fl["rec"]
            script = scripts[fl["run"] - 1]
            if fl["kind"] == "rejected" and ev.get("ev") in ENV_OPS + ("sync",) and ev.get("ev") != "sync":
                raise vlib.ToolError("script %d of batch %d is not permitted by the contract at %s (generator bug): %s"
                                     % (fl["run"], bi, ev, json.dumps(script)[:600]))
            if fl["kind"] == "rejected" and ev.get("ev") == "sync":
                raise vlib.ToolError("script %d of batch %d reaches a sync point without having delivered the chain: %s"
                                     % (fl["run"], bi, json.dumps(script)[:600]))
            if fl["inv"] == "HistoryWellFormed":
                cr = fl["run"]
                while cr > 1 and scripts[cr - 1]["kind"] == "sched":
                    cr -= 1
                if cr in failed_runs:      # its canonical run was cut out as a failure: nothing to compare with
                    failed_runs.add(fl["run"])
                    continue
                raise vlib.ToolError("ill-formed history in batch %d run %d" % (bi, fl["run"]))
            failed_runs.add(fl["run"])
            if by_run is None:
                by_run = {}
                for ln in open(tpath):
                    r = json.loads(ln)
                    by_run.setdefault(r["run"], []).append(r)
            canon_run = fl["run"]
            while canon_run > 1 and scripts[canon_run - 1]["kind"] == "sched":
                canon_run -= 1
            diff = diff_conclusions(fl["run_events"], by_run.get(canon_run, []), ev.get("idx", 0)) if ev.get("ev") == "sync" else {}
            key = None
            name = "b%d-run%d" % (bi, fl["run"])
            what = "panic" if ev.get("ev") == "panic" else (fl["inv"] or "unmatched event")
            vlib.log("[reject] batch %d run %d (%s, %s) at %s: %s" % (bi, fl["run"], script["scen"], script["kind"], ev.get("ev"), what))
            if vlib.report_violation(PID, name, {
                    "property": PID, "kind": fl["kind"], "invariant": fl["inv"], "first_unmatched_event": ev,
                    "position_in_run": fl["pos_in_run"], "difference_from_canonical_delivery": diff,
                    "script": script, "canonical_script": scripts[canon_run - 1],
                    "trace_of_run": fl["run_events"], "last_state": fl["last_state"],
                    "how_to_replay": "write `canonical_script` and `script` (one JSON per line) to s.ndjson; "
                                     "harness/target/debug/chainsync --scripts s.ndjson --out t.ndjson; "
                                     "tools/tv.sh ChainViewTrace t.ndjson"}, key=key):
                nviol += 1
    for c in sorted(waived_by_class):
        vlib.log("KNOWN-FINDING: property=%s %s (class %s of lost pending claims; %d synchronisation points waived)"
                 % (PID, CLAIM_KEYS[c], c, waived_by_class[c]))
    if total_runs == 0 or total_syncs == 0:
        raise vlib.ToolError("nothing was executed")

    st = None
    if nviol == 0:
        if first_ok_trace is None:
            raise vlib.ToolError("no accepted batch to run the binding self-test on")
        st = selftest(wd, ok_traces[::-1], env)
        vlib.log("[selftest] %s" % st)

    nsched = sum(len(h["scheds"]) for h in plan.hists.values())
    samples = sample_scripts[:2]
    if first_ok_trace:
        with open(first_ok_trace) as f:
            samples.append({"trace_head": [json.loads(next(f)) for _ in range(6)]})
    cov = {
        "states": sum(r["distinct"] for _, r in mcs), "transitions": sum(r["states"] for _, r in mcs),
        "traces_validated_against_impl": total_runs, "samples": samples,
        "mc_runs": [{"cfg": c, "distinct": r["distinct"], "generated": r["states"], "depth": r["depth"],
                     "action_coverage": r["coverage"], "wall_s": round(r["wall_s"], 1)} for c, r in mcs],
        "histories": len(plan.hists), "schedules_other_than_canonical": nsched,
        "schedules_from_tlc": n_tlc, "schedules_threshold_sweep": n_sweep, "schedules_random": n_rand,
        "schedules_late_preimage": n_late, "schedules_dependency_chains": n_chain,
        "starting_states": names, "sync_points_judged": total_syncs, "notification_calls": total_calls,
        "events_validated": total_events, "impl_panics": panics,
        "impl_panic_classes": {"%s: %s" % (k[0], k[1][:80]): v for k, v in panic_seen.items()}, "anti_reorg_delay": ard,
        "known_finding_waived_sync_points": waived, "waived_by_class": waived_by_class, "binding_selftest": st, "exhaustive": False,
    }
    vlib.write_evidence(PID, tier, seed, "model_checking", cov, [
        "a reorganisation deeper than ANTI_REORG_DELAY for a transaction that was already final is outside the "
        "property (the run is only required not to panic and to keep the best block right)",
        "Confirm clients un-confirm stale transactions before announcing a tip of the new branch at or above "
        "their height (as lightning-transaction-sync does); best_block_updated always names a header of the best chain",
        "the interface (Listen / Confirm) changes only across a restart; restarts happen at synchronisation points "
        "and are part of the history (the canonical run restarts at the same points)",
        "claims are compared by the outpoints they spend, restricted to outputs that can still be claimed on the best chain",
        "2 nodes, static_remote_key channels (no anchors): fail-backs are observed as PaymentPathFailed / PaymentFailed",
    ], time.time() - t0, nviol)
    return nviol
