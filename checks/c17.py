"""C17 -- the network graph holds only authentic, current gossip, whatever the order.

1. TLC model-checks spec/GossipMC.tla: small universes of gossip messages (valid, wrongly signed,
   re-signed with other keys, wrong chain, conflicting, stale / equal timestamps, htlc_maximum
   above capacity, unknown channel, node without channels) delivered in every order with every
   duplication, interleaved with permanent failures, pruning and reloads, against the
   observable spec spec/Gossip.tla: OnlyAuthentic, NeverOlder, NodeCleanup, FailedStayOut (what
   was reported permanently failed stays out while the report is certainly remembered: no
   announcement naming the failed channel, or the failed node in either slot, is applied, through
   whatever entry point, until a pruning call a week later / a reload / a snapshot), Confluence
   (the graph is a function of the set of valid messages delivered) and CodeWithinSpec.
2. Every reachable model state is printed as a driver script (a delivery order incl. duplicates,
   prunes, failures); the Rust engine `gossip` replays them -- plus seeded random scripts over
   larger universes incl. rapid-gossip-sync snapshots -- into the real NetworkGraph through both
   entry points with really signed messages and records return-value classes, the public
   read-only view of the graph and a write/read round trip after every step.
3. TLC validates the recorded trace against spec/Gossip.tla (GossipTrace.tla): the single oracle.
"""
import json, os, random, re, time
import vlib

PID = "C17"
# universes whose scripts are all replayed (small; the memory of removals against later gossip)
KEEP_ALL = ("GossipMC9.cfg", "GossipMC10.cfg")
MC_ACTIONS = {"FailCs": "MFailC", "FailNs": "MFailN", "PruneTs": "MPrune", "RgsSnaps": "MRgs", "ResolveCs": "MResolve"}


def cfg_actions(cfg):
    """named actions that must have been taken under this cfg (vacuity guard)"""
    txt = open(os.path.join(vlib.SPEC, cfg)).read()
    acts = ["MDeliver"]
    for const, act in MC_ACTIONS.items():
        m = re.search(r"%s = \{([^}]*)\}" % const, txt)
        if m and m.group(1).strip():
            acts.append(act)
    if re.search(r"WithReload = TRUE", txt):
        acts.append("MReload")
    return acts


def convert(script, rng):
    """TLC history -> engine script; the entry point per step and extra duplicate deliveries
    are chosen here (any choice must be accepted by the trace spec)."""
    mode = rng.choice(["direct", "p2p", "mixed"])
    ops = []
    sent = []
    dup_each = rng.random() < 0.15
    for o in script["ops"]:
        o = dict(o)
        if o["op"] == "deliver":
            m = o["m"]
            if (m["s1"] if m["k"] == "ca" else m["s"]) == -2:
                o["via"] = "unsigned"     # the unsigned entry points (no verification requested)
            else:
                o["via"] = mode if mode != "mixed" else rng.choice(["direct", "p2p"])
            sent.append(o)
        elif o["op"] in ("failc", "failn"):
            o["via"] = rng.choice(["direct", "update"])
        ops.append(o)
        if dup_each and o["op"] == "deliver":
            d = dict(o)
            if d["via"] != "unsigned":
                d["via"] = rng.choice(["direct", "p2p"])
            ops.append(d)
    if rng.random() < 0.3 and sent:
        again = list(sent)
        rng.shuffle(again)
        for o in again:
            d = dict(o)
            if d["via"] != "unsigned":
                d["via"] = rng.choice(["direct", "p2p"])
            ops.append(d)
    return {"lookup": script["lookup"], "async": script.get("async", False), "caps": [1000, 1000, 1000, 1000], "ops": ops, "u": script["u"]}


def selftest(wd, good_lines):
    """Binding self-test: corruptions of an accepted trace must each be rejected."""
    recs = [json.loads(x) for x in good_lines]
    muts = []

    def clone():
        return json.loads(json.dumps(recs))

    def applied_cu(r):
        if r["ev"] != "deliver" or r["m"]["k"] != "cu" or r["res"] != "ok":
            return None
        for ch in r["g"]["chans"]:
            if ch["c"] == r["m"]["c"]:
                return ch
        return None

    # (a) an applied update leaves an older timestamp in the graph
    for k, r in enumerate(recs):
        ch = applied_cu(r)
        if ch:
            m = clone()
            for c2 in m[k]["g"]["chans"]:
                if c2["c"] == r["m"]["c"]:
                    c2["d%d" % r["m"]["d"]]["ts"] -= 100
            muts.append(("older-timestamp-kept", m))
            break
    # (b) an applied update shows up in the other direction
    for k, r in enumerate(recs):
        ch = applied_cu(r)
        if ch and ch["d0"] != ch["d1"]:
            m = clone()
            for c2 in m[k]["g"]["chans"]:
                if c2["c"] == r["m"]["c"]:
                    c2["d0"], c2["d1"] = c2["d1"], c2["d0"]
            muts.append(("wrong-direction", m))
            break
    # (c) a message that must be refused is reported Ok
    for k, r in enumerate(recs):
        if r["ev"] == "deliver" and r["act"] == "warning":
            m = clone()
            m[k]["res"] = "ok"
            muts.append(("bad-signature-reported-ok", m))
            break
    # (d) a wrongly signed update is applied
    for k, r in enumerate(recs):
        if (r["ev"] == "deliver" and r["m"]["k"] == "cu" and r["act"] == "warning"
                and any(c["c"] == r["m"]["c"] for c in r["g"]["chans"])):
            m = clone()
            mm = r["m"]
            for c2 in m[k]["g"]["chans"]:
                if c2["c"] == mm["c"]:
                    c2["d%d" % mm["d"]] = {"has": True, "ts": mm["ts"], "en": mm["en"], "cltv": mm["cltv"],
                                           "hmin": mm["hmin"], "hmax": mm["hmax"], "fb": mm["fb"], "fp": mm["fp"]}
            m[k]["res"] = "ok"
            muts.append(("forged-update-applied", m))
            break
    # (e) a node stays behind after its last channel went away
    for k, r in enumerate(recs):
        if r["ev"] in ("failc", "failn", "prune") and k > 0 and recs[k - 1].get("g") \
                and recs[k - 1]["run"] == r["run"] and len(recs[k - 1]["g"]["nodes"]) > len(r["g"]["nodes"]):
            m = clone()
            m[k]["g"]["nodes"] = [dict(n, chans=[c for c in n["chans"] if any(x["c"] == c for x in r["g"]["chans"])])
                                  for n in recs[k - 1]["g"]["nodes"]]
            muts.append(("node-left-behind", m))
            break
    # (f) the graph did not survive serialization
    for k, r in enumerate(recs):
        if r.get("rt") is True and r.get("g", {}).get("chans"):
            m = clone()
            m[k]["rt"] = False
            muts.append(("round-trip-failed", m))
            break
    # (g) an accepted message is dropped from the trace (its effect appears from nowhere)
    for k, r in enumerate(recs):
        if r["ev"] == "deliver" and r["res"] == "ok" and r["m"]["k"] == "ca":
            muts.append(("announcement-dropped", recs[:k] + recs[k + 1:]))
            break
    # (h) an unsigned node announcement with the stored timestamp replaces the stored record
    for k, r in enumerate(recs):
        if (r["ev"] == "deliver" and r["via"] == "unsigned" and r["m"]["k"] == "na" and r["res"] == "err"
                and any(n["n"] == r["m"]["n"] and n["ha"] and n["ats"] == r["m"]["ts"]
                        and (n["ap"], n["ad"]) != (r["m"]["ap"], r["m"]["ad"]) for n in r["g"]["nodes"])):
            m = clone()
            for n in m[k]["g"]["nodes"]:
                if n["n"] == r["m"]["n"]:
                    n["ap"], n["ad"] = r["m"]["ap"], r["m"]["ad"]
            m[k]["res"] = "ok"
            muts.append(("unsigned-equal-timestamp-replaces", m))
            break
    # (i) resolving an asynchronous lookup applies an older held update than the newest one
    for k, r in enumerate(recs):
        if r["ev"] != "resolve" or not r["ok"]:
            continue
        held = [x["m"] for x in recs[:k] if x["run"] == r["run"] and x["ev"] == "deliver" and x["m"]["k"] == "cu"
                and x["m"]["c"] == r["c"] and x["m"]["chain"]]
        before = recs[k - 1].get("g", {"chans": []})
        if any(c["c"] == r["c"] for c in before["chans"]):
            continue
        done = False
        for ch in r["g"]["chans"]:
            if ch["c"] != r["c"]:
                continue
            for d in (0, 1):
                cur = ch["d%d" % d]
                older = [h for h in held if h["d"] == d and h["ts"] < cur["ts"] and h["s"] != 0 and h["s"] != -1]
                if cur["has"] and older:
                    h = older[0]
                    m = clone()
                    for c2 in m[k]["g"]["chans"]:
                        if c2["c"] == r["c"]:
                            c2["d%d" % d] = {"has": True, "ts": h["ts"], "en": h["en"], "cltv": h["cltv"],
                                             "hmin": h["hmin"], "hmax": h["hmax"], "fb": h["fb"], "fp": h["fp"]}
                    muts.append(("async-older-held-update-wins", m))
                    done = True
                    break
        if done:
            break
    # (j) gossip brings back a node reported permanently failed while the report is remembered
    lookup_of, remembered = {}, {}
    for k, r in enumerate(recs):
        run = r["run"]
        if r["ev"] == "reset":
            lookup_of[run] = r["lookup"]
            remembered[run] = set()
            continue
        rem = remembered.setdefault(run, set())
        if r["ev"] == "failn" and k > 0 and recs[k - 1]["run"] == run and \
                any(n["n"] == r["n"] for n in recs[k - 1].get("g", {"nodes": []})["nodes"]):
            rem.add(r["n"])
        elif r["ev"] in ("prune", "reload", "rgs"):
            rem.clear()
        elif (r["ev"] == "deliver" and r["m"]["k"] == "ca" and not lookup_of.get(run, True) and r["res"] == "err"
              and r["m"]["chain"] and r["m"]["bs"] == 1 and r["m"]["s1"] in (r["m"]["n1"], -2)
              and r["m"]["s2"] in (r["m"]["n2"], -2) and (r["m"]["s1"] == -2) == (r["m"]["s2"] == -2)
              and (r["m"]["n1"] in rem or r["m"]["n2"] in rem)
              and not any(c["c"] == r["m"]["c"] for c in r["g"]["chans"])):
            m = clone()
            mm = r["m"]
            nod = {"has": False, "ts": 0, "en": False, "cltv": 0, "hmin": 0, "hmax": 0, "fb": 0, "fp": 0}
            m[k]["g"]["chans"].append({"c": mm["c"], "n1": mm["n1"], "n2": mm["n2"], "cap": -1, "d0": dict(nod), "d1": dict(nod)})
            for n in (mm["n1"], mm["n2"]):
                ent = [x for x in m[k]["g"]["nodes"] if x["n"] == n]
                if ent:
                    ent[0]["chans"].append(mm["c"])
                else:
                    m[k]["g"]["nodes"].append({"n": n, "ha": False, "ats": 0, "ap": 0, "ad": 0, "chans": [mm["c"]]})
            m[k]["res"] = "ok"
            muts.append(("failed-node-brought-back", m))
            break
    rejected = 0
    for name, m in muts:
        p = os.path.join(wd, "selftest-%s.ndjson" % name)
        with open(p, "w") as f:
            for r in m:
                f.write(json.dumps(r) + "\n")
        _, fails = vlib.validate_trace(PID, "GossipTrace", "GossipTrace.cfg", p, max_failures=1, tag="st")
        if fails:
            rejected += 1
        else:
            vlib.log("[selftest] corrupted trace %s was ACCEPTED" % name)
    if rejected != len(muts) or len(muts) < 8:
        raise vlib.ToolError("binding self-test: %d of %d corrupted traces rejected" % (rejected, len(muts)))
    return {"mutations": len(muts), "rejected": rejected, "kinds": [n for n, _ in muts]}


def run(tier, seed):
    t0 = time.time()
    wd = vlib.workdir(PID)
    bins = vlib.build(["gossip"])
    thorough = tier == "thorough"
    rng = random.Random(seed)

    # ---- 1. model checking + behaviour generation
    cfgs = ["GossipMC.cfg", "GossipMC2.cfg", "GossipMC3.cfg", "GossipMC4.cfg", "GossipMC5.cfg", "GossipMC7.cfg",
            "GossipMC8.cfg", "GossipMC9.cfg", "GossipMC10.cfg"]
    if thorough:
        cfgs = ["GossipMC.cfg", "GossipMC2.cfg", "GossipMC3.cfg", "GossipMC4t.cfg", "GossipMC5t.cfg", "GossipMC6.cfg",
                "GossipMC7t.cfg", "GossipMC8.cfg", "GossipMC9.cfg", "GossipMC10.cfg"]
    mcs = []
    per_cfg = []
    for cfg in cfgs:
        r = vlib.tlc_mc(PID, "GossipMC", cfg, workers=12, timeout=3000 if thorough else 600)
        if r["violated"]:
            # the model contradicts the property as formalised: the spec needs correction, this is
            # not (yet) a statement about the code
            raise vlib.ToolError("model violates %s in %s (spec needs correction)" % (r["violated"], cfg))
        vlib.require_coverage(r, cfg_actions(cfg), cfg)
        got = vlib.tlc_printed(r["out"], "SCRIPT")
        maxops = int(re.search(r"MaxOps = (\d+)", open(os.path.join(vlib.SPEC, cfg)).read()).group(1))
        r["complete"] = r["depth"] <= maxops   # the bound did not cut the exploration
        vlib.log("[mc] %s: %d distinct states, %d generated, depth %d (%s), %d scripts, %.0fs" %
                 (cfg, r["distinct"], r["states"], r["depth"], "complete" if r["complete"] else "bounded",
                  len(got), r["wall_s"]))
        if not got:
            raise vlib.ToolError("no scripts from %s" % cfg)
        per_cfg.append((cfg, got))
        r.pop("out")
        mcs.append((cfg, r))
    cap = 40000 if thorough else 6000
    share = cap // len([c for c, _ in per_cfg if c not in KEEP_ALL])
    scripts = []
    for cfg, got in per_cfg:
        # deep states carry the long orders: keep all of the deepest, sample the rest
        got.sort(key=lambda s: -len(s["ops"]))
        if len(got) > share and cfg not in KEEP_ALL:
            keep = got[:share // 2] + rng.sample(got[share // 2:], share - share // 2)
        else:
            keep = got
        scripts += keep
    conv = [convert(s, rng) for s in scripts]
    # held messages must end up the same whatever order they arrived in: for the asynchronous
    # universe also run every script with each block of consecutive deliveries reversed
    # (newest-first where TLC's shortest path happened to be oldest-first)
    for s in scripts:
        if s.get("async"):
            ops, blk = [], []
            for o in s["ops"]:
                if o["op"] == "deliver" and o["m"]["k"] != "ca":
                    blk.append(o)
                else:
                    ops += blk[::-1] + [o]
                    blk = []
            ops += blk[::-1]
            if ops != s["ops"]:
                conv.append(convert(dict(s, ops=ops), rng))
    spath = os.path.join(wd, "scripts.ndjson")
    with open(spath, "w") as f:
        for s in conv:
            f.write(json.dumps(s) + "\n")

    # ---- 2. run the real code
    nrand = 12000 if thorough else 1200
    tpath = os.path.join(wd, "trace.ndjson")
    rpath = os.path.join(wd, "random-scripts.ndjson")
    p = vlib.run_bin(bins["gossip"], ["--scripts", spath, "--random", nrand, "--seed", seed, "--out", tpath,
                                      "--scripts-out", rpath])
    summ = json.loads(p.stdout.strip().splitlines()[-1])
    vlib.log("[gossip] %s" % summ)
    kinds = {}
    with open(tpath) as f:
        for ln in f:
            m = re.search(r'"ev":"(\w+)"', ln)
            kinds[m.group(1)] = kinds.get(m.group(1), 0) + 1
    vlib.log("[gossip] events by kind: %s" % kinds)

    # ---- 3. trace validation (the oracle)
    total, fails = vlib.validate_trace(PID, "GossipTrace", "GossipTrace.cfg", tpath, timeout=2400)
    rscripts = None
    nviol = 0
    for fl in fails:
        runid = fl["run"]
        if runid - 1 < len(conv):
            script = conv[runid - 1]
        else:
            if rscripts is None:
                rscripts = [json.loads(x) for x in open(rpath)]
            script = dict(rscripts[runid - 1 - len(conv)], random_index=runid - 1 - len(conv), seed=seed)
        key = "panic" if fl["rec"].get("ev") == "panic" else None
        if vlib.report_violation(PID, "run%d" % runid, {
                "property": PID, "kind": fl["kind"], "invariant": fl["inv"],
                "first_unmatched_event": fl["rec"], "position_in_run": fl["pos_in_run"],
                "script": script, "trace_of_run": fl["run_events"], "last_state": fl["last_state"],
                "how_to_replay": "write `script` as one line into s.ndjson; harness/target/debug/gossip --scripts "
                                 "s.ndjson --out t.ndjson; cd spec && TRACE=../t.ndjson tlc -config GossipTrace.cfg "
                                 "GossipTrace.tla  (the first event the spec cannot match is first_unmatched_event)"},
                key=key):
            nviol += 1

    # vacuity guards -- only when nothing was found (a change to the code under test must not turn a verdict
    # into a tool error)
    if nviol == 0:
        if summ["changed"] * 8 < summ["steps"] or summ["ok"] * 10 < summ["delivered"]:
            raise vlib.ToolError("driver is not exercising the graph: %s" % summ)
        for need in ("deliver", "failc", "failn", "prune", "reload", "rgs", "resolve"):
            if kinds.get(need, 0) < 20:
                raise vlib.ToolError("vacuity: only %d `%s` events in the trace" % (kinds.get(need, 0), need))

    # ---- 4. binding self-test on a slice of the accepted trace (random part: all event kinds)
    st = None
    if not fails:
        head = []
        with open(tpath) as f:
            for ln in f:
                if json.loads(ln)["run"] > len(conv):
                    head.append(ln)
                    if len(head) >= 6000:
                        break
        last_run = json.loads(head[-1])["run"]
        head = [x for x in head if json.loads(x)["run"] != last_run]
        st = selftest(wd, head)
        vlib.log("[selftest] %s" % st)

    samples = [conv[0], conv[len(conv) // 2]] if conv else []
    with open(tpath) as f:
        samples.append({"trace_head": [json.loads(next(f)) for _ in range(6)]})
    cov = {
        "states": sum(r["distinct"] for _, r in mcs),
        "transitions": sum(r["states"] for _, r in mcs),
        "traces_validated_against_impl": summ["runs"],
        "samples": samples,
        "mc_runs": [{"cfg": c, "distinct": r["distinct"], "generated": r["states"], "depth": r["depth"],
                     "complete_state_space": r["complete"], "action_coverage": r["coverage"],
                     "wall_s": round(r["wall_s"], 1)} for c, r in mcs],
        "scripts_from_tlc": len(conv), "random_scripts": nrand, "events_validated": total,
        "events_by_kind": kinds, "steps": summ["steps"], "messages_delivered": summ["delivered"],
        "steps_changing_graph": summ["changed"], "returned_ok": summ["ok"], "returned_err": summ["err"],
        "impl_panics": summ["panics"], "round_trip_failures_seen_by_engine": summ["rt_fail"],
        "binding_selftest": st,
        "exhaustive": False,
    }
    vlib.write_evidence(PID, tier, seed, "model_checking", cov, [
        "harness builds `lightning` with feature _test_utils: the wall-clock rejection of channel_updates older "
        "than two weeks / more than a day ahead in update_channel is compiled out; timestamps used are within "
        "that window anyway (run start + 100..400 s)",
        "asynchronous UTXO lookups: one pending lookup per scid at a time; permanent failures and clock-only pruning "
        "calls while a lookup is pending are driven, snapshots / reloads / pruning that removes channels are not",
        "memory of removals: refusal is demanded only while a failure report is certainly remembered (no reload, no "
        "snapshot naming the item, no pruning call with a clock a week past the start of the run); afterwards, and for "
        "channels removed by pruning, either outcome is accepted; a snapshot re-adds whatever it names",
        "messages carry no excess data and no dont_forward flag; features are empty",
        "where the property text is silent (re-announcement of a removed channel, conflicting announcement of a "
        "known scid, half-updated channel at pruning time, pruning pass at the end of a snapshot) the trace spec "
        "accepts either outcome",
        "universes: <= 4 scids, <= 5 nodes, timestamps from {100..400} s after run start",
    ], time.time() - t0, nviol)
    return nviol
