"""C03 -- every outbound payment reaches a truthful terminal outcome.

1. TLC model-checks the payer's algorithm (spec/PaySendMC.tla: Retryable / Fulfilled / Abandoned, parts in
   flight, event queue, manager snapshot, restart, duplicate deliveries, idempotency timeout) composed with
   the observable specification spec/PaySend.tla; an observation the property forbids is a deadlock.
   Stale = TRUE adds the restart from a snapshot the monitors have overtaken (channels closed, HTLCs re-added from
   the monitors, missing ones failed), automatic retries, and the on-chain claim / timeout of HTLC outputs.
2. The reachable quiescent states are printed as behaviours, compiled to scripts for the engine `paynet`
   (fan topology A-{B_k}-D, one part per branch) and executed on real ChannelManagers, together with seeded
   random scripts over line / fan / parallel-channel topologies (MPP, retries, keysend, abandon, duplicate
   ids, disconnections, held events, snapshots and restarts).
   The payer's first-hop channels may persist asynchronously (PaySendMCw*: what every first hop answers at send time --
   sent / monitor write in flight / refused / parked in the holding cell --, completions in any order, the holding-cell
   release with its fail-back branch; families `wipref`, `hcfail` -- also with a second payment parked in the same holding
   cell, so that one pass releases one HTLC and fails the other back --, random schedules with asynchronous persistence
   at the payer and at a forwarding node / the recipient).
3. TLC validates every recorded run against PaySend.tla (PaySendTrace.tla).
4. The BOLT-12 payment flow (OfferFlow.tla, engine offernet) is a part of its own (offer_common.run_part).
"""
import pay_common as pc
import offer_common


def pick(got, rng):
    # every behaviour that shows a feature (repeated event after a restart, duplicate delivery, refused send,
    # abandon with parts in flight); of the plain ones prefer those in which a resolution reached the payer
    def has(s, *names):
        return any(o["op"] in names for o in s["ops"])
    f = [s for s in got if s.get("feat")]
    rep = [s for s in f if any("repeated" in x for x in s["feat"])]
    # stale restarts in which an HTLC is only in a monitor (re-added to / re-creating the payment), and those
    # followed by an on-chain claim
    st = [s for s in f if "stale-readd" in s["feat"] or ("stale-recreate" in s["feat"] and "chain-claim" in s["feat"])]
    rng.shuffle(st)
    rep = rep + st[:120]
    # asynchronous persistence: a part whose write is in flight beside a refused one, holding-cell releases
    asy = [s for s in f if {"wip+refused", "hc-failed", "hc-sent", "retry-wip", "hc-retry"} & set(s["feat"])]
    rng.shuffle(asy)
    rep = rep + asy[:160]
    c = [s for s in got if not s.get("feat") and has(s, "deliver")]
    d = [s for s in got if not s.get("feat") and not has(s, "deliver")]
    for x in (f, c, d):
        rng.shuffle(x)
    n = max(100, len(f))
    return {"must": rep, "rest": f + c[:n // 2] + d[:n // 8]}


def _second_sent(r, k, recs):
    if r["ev"] == "event" and r.get("kind") == "PaymentSent" and not any(
            x["ev"] == "restart" and x["run"] == r["run"] for x in recs):
        return [r, dict(r)]


def _sent_as_failed(r, k, recs):
    if r["ev"] == "event" and r.get("kind") == "PaymentSent" and \
            sum(1 for x in recs if x["run"] == r["run"] and x["ev"] == "send" and x["pid"] == r["pid"]) == 1:
        return [{"ev": "event", "node": r["node"], "kind": "PaymentFailed", "pid": r["pid"], "hash": r["hash"],
                 "reason": "x", "pend": 0, "cell": 0, "run": r["run"], "seq": r["seq"]}]


def _claim_dropped(r, k, recs):
    if r["ev"] == "claim" and any(x["ev"] == "event" and x.get("kind") == "PaymentSent" and x["run"] == r["run"]
                                  and x["hash"] == r["hash"] for x in recs[k:]) \
            and not any(x["ev"] == "claim" and x["run"] == r["run"] and x["hash"] == r["hash"] for x in recs[:k]):
        return []


def _fee_off(r, k, recs):
    if r["ev"] == "event" and r.get("kind") == "PaymentSent" and r["fee"] >= 0:
        q = [x for x in recs[k:] if x["run"] == r["run"] and x["ev"] == "quiet"]
        if q and q[-1]["nodes"][r["node"]]["htlcs"] == 0 and not q[-1]["closed"] and \
                sum(1 for x in recs if x["run"] == r["run"] and x["ev"] == "event" and x.get("kind") == "PaymentSent") == 1:
            r["fee"] += 1
            return [r]


def _dup_accepted(r, k, recs):
    # a refused duplicate of a payment whose HTLC is on the wire and unresolved
    if r["ev"] == "send" and r["res"] == "dup":
        first = [x for x in recs[:k] if x["run"] == r["run"] and x["ev"] == "send" and x["pid"] == r["pid"] and x["res"] == "ok"]
        if len(first) == 1 and any(x["ev"] == "msg" and x["kind"] == "update_add_htlc" and x["run"] == r["run"] and x["from"] == r["node"]
                                   and x["hash"] == first[0]["hash"] for x in recs[:k]) \
                and not any(x["run"] == r["run"] and x["ev"] == "deliver" and x["kind"] != "update_add_htlc" for x in recs[:k]):
            r["res"] = "ok"
            return [r]


def _blame_moved(r, k, recs):
    if r["ev"] == "event" and r.get("kind") == "PaymentPathFailed" and not r["initial"] and len(r["path"]) >= 3 \
            and r["blamed"] in r["path"][1:] and not any(x["ev"] == "restart" and x["run"] == r["run"] for x in recs):
        sends = [x for x in recs if x["run"] == r["run"] and x["ev"] == "send" and (x["pid"] == r["pid"] or x["hash"] == r["hash"])]
        if len(sends) == 1 and sends[0]["res"] == "ok":
            r["blamed"] = r["path"][0] if r["path"].index(r["blamed"]) >= 2 else -1
            if r["blamed"] != -1:
                return [r]


def _failed_early(r, k, recs):
    # move a PaymentFailed in front of the delivery of the last failure
    if r["ev"] == "deliver" and r["kind"] == "update_fail_htlc" and r["to"] == 0:
        later = [j for j in range(k + 1, len(recs)) if recs[j]["run"] == r["run"]]
        pf = [j for j in later if recs[j]["ev"] == "event" and recs[j].get("kind") == "PaymentFailed"]
        more = [j for j in later if recs[j]["ev"] == "deliver" and recs[j]["kind"] != "update_add_htlc" and recs[j]["to"] == 0]
        sends = [x for x in recs if x["run"] == r["run"] and x["ev"] == "send"]
        if pf and not more and len(sends) == 1 and sends[0]["res"] == "ok" and recs[pf[0]]["pid"] == sends[0]["pid"]:
            return [recs[pf[0]], r]


def _onchain_claim_unreported(r, k, recs):
    # the PaymentSent that follows the on-chain claim of the payment's HTLC output is dropped
    if r["ev"] == "event" and r.get("kind") == "PaymentSent":
        mine = [x for x in recs if x["run"] == r["run"]]
        before = [x for x in recs[:k] if x["run"] == r["run"]]
        if any(x["ev"] == "chain" and x["what"] == "htlc" and x["preimage"] and x["hash"] == r["hash"] for x in before) \
                and sum(1 for x in mine if x["ev"] == "event" and x.get("kind") == "PaymentSent") == 1 \
                and sum(1 for x in mine if x["ev"] == "send") == 1 \
                and not any(x["ev"] == "deliver" and x["kind"] == "update_fulfill_htlc" and x["to"] == r["node"] for x in mine) \
                and mine[-1]["ev"] == "quiet" and mine[-1].get("settled"):
            return []


def _failed_with_output_unspent(r, k, recs):
    # PaymentFailed is moved in front of the confirmation of the timeout of one of the payment's HTLCs (the HTLC
    # output is still unspent in the payer's confirmed commitment)
    if r["ev"] == "chain" and r["what"] == "htlc" and not r["preimage"]:
        mine = [x for x in recs if x["run"] == r["run"]]
        before = [x for x in recs[:k] if x["run"] == r["run"]]
        later = [x for x in recs[k + 1:] if x["run"] == r["run"]]
        sends = [x for x in mine if x["ev"] == "send"]
        adds = [x for x in before if x["ev"] == "msg" and x["kind"] == "update_add_htlc" and x["chan"] == r["chan"] and x["hash"] == r["hash"]]
        pf = [x for x in later if x["ev"] == "event" and x.get("kind") == "PaymentFailed"]
        if pf and len(sends) == 1 and sends[0]["res"] == "ok" and sends[0]["hash"] == r["hash"] and pf[0]["pid"] == sends[0]["pid"] \
                and adds and all(x["from"] == sends[0]["node"] for x in adds) \
                and not any(x["ev"] == "event" and x.get("kind") in ("PaymentFailed", "PaymentSent") for x in before) \
                and not any(x["ev"] == "deliver" and x["kind"] in ("update_fulfill_htlc", "update_fail_htlc") and x["chan"] == r["chan"] for x in mine):
            return [pf[0], r]


def _forgotten_with_live_htlc(r, k, recs):
    # list_recent_payments after a stale restart no longer lists a payment whose HTLC is later claimed on-chain
    if r["ev"] == "recent" and r["after_restart"] and r["list"] and recs[k - 1]["ev"] == "restart" and recs[k - 1].get("stale"):
        later = [x for x in recs[k + 1:] if x["run"] == r["run"]]
        if any(x["ev"] == "event" and x.get("kind") == "PaymentSent" and x["node"] == r["node"] and x["pid"] == r["list"][0]["pid"]
               for x in later):
            r["list"] = r["list"][1:]
            return [r]


def _one_send(recs, run):
    sends = [x for x in recs if x["run"] == run and x["ev"] == "send"]
    return sends[0] if len(sends) == 1 and sends[0]["res"] == "ok" and not sends[0]["auto"] else None


def _failed_with_write_in_flight(r, k, recs):
    # PaymentFailed is moved in front of the completion of the monitor write that holds one of the payment's parts back
    # (the part is offered to the peer right after the completion)
    if r["ev"] == "complete" and r["node"] == 0 and k + 1 < len(recs):
        nx = recs[k + 1]
        snd = _one_send(recs, r["run"])
        later = [x for x in recs[k + 1:] if x["run"] == r["run"]]
        before = [x for x in recs[:k] if x["run"] == r["run"]]
        pf = [x for x in later if x["ev"] == "event" and x.get("kind") == "PaymentFailed"]
        if snd and pf and nx["ev"] == "msg" and nx["kind"] == "update_add_htlc" and nx["from"] == 0 and nx["hash"] == snd["hash"] \
                and nx["run"] == r["run"] and pf[0]["pid"] == snd["pid"] \
                and not any(x["ev"] == "restart" for x in before + later) \
                and not any(x["ev"] == "event" and x.get("kind") in ("PaymentFailed", "PaymentSent") for x in before):
            return [dict(pf[0], pend=0), r]


def _failed_still_listed(r, k, recs):
    # the payer's own channels still list an HTLC of the payment when PaymentFailed is handled
    if r["ev"] == "event" and r.get("kind") == "PaymentFailed" and r.get("pend") == 0 and _one_send(recs, r["run"]) \
            and _one_send(recs, r["run"])["pid"] == r["pid"]:
        r["pend"] = 1
        return [r]


def _held_part_vanishes(r, k, recs):
    # the failure of a part that never left the payer (freed from the holding cell, unsendable) goes unreported: the
    # payment stays pending although none of its HTLCs is
    if r["ev"] == "event" and r.get("kind") == "PaymentPathFailed" and not r["initial"] and r["node"] == 0 and len(r["path"]) > 0:
        snd = _one_send(recs, r["run"])
        mine = [x for x in recs if x["run"] == r["run"]]
        if snd and snd["pid"] == r["pid"] and len(snd["parts"]) == 1 and mine[-1]["ev"] == "quiet" \
                and not any(x["ev"] == "msg" and x["kind"] == "update_add_htlc" and x["from"] == 0 and x["hash"] == r["hash"] for x in mine) \
                and not any(x["ev"] == "restart" for x in mine):
            return []


def _held_part_vanishes_silently(r, k, recs):
    m = _held_part_vanishes(r, k, recs)
    if m is None:
        return None
    # `mutate` splices the returned records in place of record k only: the PaymentFailed of the payment is turned into an
    # event the specification ignores (in place: this corruption is the last one of the list)
    for x in recs:
        if x["run"] == r["run"] and x["ev"] == "event" and x.get("kind") == "PaymentFailed" and x["pid"] == r["pid"]:
            x["kind"] = "PaymentForwarded"
            x["fee"] = 0
    return []


# Recorded finding (not part of the default runs: the engine restarts from a stale snapshot only if the node
# was idle when it was taken): the snapshot is taken while payment 2 waits in the holding cell of the channel
# (send_payment returned Ok); it is sent afterwards and becomes claimable at the recipient; the payer restarts
# from the snapshot: LDK closes the channel, fails the "dropped" holding-cell HTLC and forgets the payment.
PROBES = [("stale_restart_forgets_holding_cell_htlc", {"cfg": {"topo": "line", "n": 3}, "ops": [
    {"op": "reg", "node": 2, "reg": 1, "amt": 3000000}, {"op": "reg", "node": 2, "reg": 2, "amt": 5000000},
    {"op": "send", "from": 0, "id": 1, "reg": 1, "paths": [[1, 2]], "amts": [3000000]},
    {"op": "send", "from": 0, "id": 2, "reg": 2, "paths": [[1, 2]], "amts": [5000000]},
    {"op": "save", "node": 0}, {"op": "pump"},
    {"op": "restart", "node": 0, "use": "stale", "allow_unclean": True}, {"op": "settle"}]}),
    # second recorded finding of the same family: the snapshot holds an MPP payment in state Abandoned (one part
    # failed, one in flight); the payment then fails, the user retries with the same payment id, the new HTLC
    # becomes claimable at the recipient; restart from the snapshot: insert_from_monitor_on_startup cannot add
    # the new HTLC to the Abandoned entry, the old parts are failed, the payment is forgotten.
    ("stale_restart_reused_id_not_readded", {"cfg": {"topo": "fan", "n": 2}, "ops": [
        {"op": "reg", "node": 3, "reg": 1, "amt": 6000000},
        {"op": "send", "from": 0, "id": 1, "reg": 1, "paths": [[1, 3], [2, 4]], "amts": [2000000, 4000000], "fee_over": {"0:0": 0}},
        {"op": "pump"}, {"op": "save", "node": 0}, {"op": "tick", "node": 3}, {"op": "pump"},
        {"op": "send", "from": 0, "id": 1, "reg": 1, "paths": [[2, 4]], "amts": [6000000]}, {"op": "pump"},
        {"op": "restart", "node": 0, "use": "stale", "allow_unclean": True}, {"op": "settle"}]}),
    # third recorded finding: the snapshot was written after the send; the payment completes, the user handles
    # PaymentSent (which releases the monitor update that removes the HTLC), the manager is not persisted again;
    # restart from the snapshot: the HTLC is "missing in the ChannelMonitor" and the payment is reported failed.
    # (The library documents this window -- events/mod.rs, Event::PaymentFailed: "In exceedingly rare cases ... an
    # Event::PaymentFailed is generated for a payment after an Event::PaymentSent ... MUST be ignored" -- while the
    # property says an event is "never contradicted": recorded as a finding, not judged in the default runs.)
    ("stale_restart_fails_after_handled_payment_sent", {"cfg": {"topo": "line", "n": 3}, "ops": [
        {"op": "reg", "node": 2, "reg": 1, "amt": 3000000},
        {"op": "send", "from": 0, "id": 1, "reg": 1, "paths": [[1, 2]], "amts": [3000000]}, {"op": "save", "node": 0},
        {"op": "pump"}, {"op": "claim", "reg": 1}, {"op": "pump"},
        {"op": "restart", "node": 0, "use": "stale", "allow_unclean": True}, {"op": "settle_chain"}, {"op": "settle"}]})]

SELFTESTS = [("second-PaymentSent", _second_sent), ("PaymentSent-reported-as-failed", _sent_as_failed),
             ("recipient-never-claimed", _claim_dropped), ("fee-off-by-one", _fee_off),
             ("duplicate-id-accepted", _dup_accepted), ("blamed-channel-moved", _blame_moved),
             ("PaymentFailed-before-last-failure", _failed_early),
             ("onchain-claim-without-PaymentSent", _onchain_claim_unreported),
             ("PaymentFailed-with-HTLC-output-unspent", _failed_with_output_unspent),
             ("forgotten-after-stale-restart-with-live-HTLC", _forgotten_with_live_htlc),
             ("PaymentFailed-before-write-of-a-part-completes", _failed_with_write_in_flight),
             ("PaymentFailed-with-HTLC-still-listed-by-the-channel", _failed_still_listed),
             ("held-part-vanishes-payment-pending-for-good", _held_part_vanishes_silently)]


def run(tier, seed):
    thorough = tier == "thorough"
    return pc.run_check(
        "C03", tier, seed,
        mc_cfgs=["PaySendMC2.cfg", "PaySendMCw.cfg", "PaySendMCw2.cfg", "PaySendMCs.cfg", "PaySendMC.cfg"] if not thorough
        else ["PaySendMCt.cfg", "PaySendMC2t.cfg", "PaySendMC3t.cfg", "PaySendMCr2.cfg", "PaySendMCst.cfg", "PaySendMCs3t.cfg",
              "PaySendMCwt.cfg", "PaySendMCw2.cfg"],
        mc_mutants=["PaySendMCw_mut_forget.cfg", "PaySendMCw_mut_reuse.cfg", "PaySendMCw_mut_drop.cfg"],
        families=[("wipref", pc.wipref_script, 1500 if thorough else 220), ("hcfail", pc.hcfail_script, 1500 if thorough else 220),
                  ("rand-async", lambda rng: pc.with_async(pc.random_send_script(rng), rng), 3000 if thorough else 260)],
        extra_parts=[("bolt12-offer-flow", offer_common.run_part)],
        need_feat=["wip+refused", "hc-failed", "hc-sent", "retry-wip"],
        compile_fn=lambda s, rng, consts: pc.compile_send_script(s, rng),
        random_fn=lambda rng, consts: pc.random_send_script(rng),
        n_tlc=9000 if thorough else 1000, n_rand=12000 if thorough else 800,
        need={"ev_PaymentSent": 50, "ev_PaymentFailed": 50, "ev_PaymentPathFailed": 50, "restart": 30, "send_dup": 20,
              "send_multipart": 50, "runs_with_repeated_PaymentSent": 3, "runs_with_repeated_PaymentFailed": 3, "restart_stale": 100, "pathfailed_hop3": 20, "quiet": 100,
              "chain_commitment": 100, "chain_htlc_claimed": 20, "chain_htlc_timeout": 20, "quiet_chain_settled": 100,
              "persist": 300, "complete": 300, "config": 100, "pathfailed_never_offered": 30,
              "pathfailed_initial_while_write_in_flight": 30,
              # a holding cell freed by a completion from which one HTLC left while another one was failed back; writes in
              # flight at a node that is not the payer
              "pathfailed_never_offered_beside_a_released_add": 3, "persist_not_payer": 8},
        selftests=SELFTESTS, pick=pick, probes=PROBES,
        assumptions=pc.COMMON_ASSUMPTIONS + [
            "the channel named by PaymentPathFailed is accepted if it is the hop on which the failing node received the "
            "HTLC or the hop it could not use; it is compared with the ground truth only for the first use of a payment "
            "id and before any restart of the payer (later events may stem from an earlier use or be repetitions)",
            "a restart of the payer from a snapshot the monitors have overtaken (LDK closes those channels; the run goes on, "
            "the chain settles: every broadcast transaction is mined as soon as it can confirm, block after block, until all "
            "timelocks have expired) is driven unless the snapshot was taken while an HTLC of the payer waited in a holding "
            "cell, a payment id was used twice in the run, or the payer's user handled a PaymentSent since the snapshot: those "
            "are recorded findings (probes stale_restart_forgets_holding_cell_htlc, stale_restart_reused_id_not_readded, "
            "stale_restart_fails_after_handled_payment_sent -- the last one is documented by the library, events/mod.rs "
            "Event::PaymentFailed: 'In exceedingly rare cases ... MUST be ignored', but contradicts the property's 'never "
            "contradicted'); only the payer restarts, no restart after a transaction was mined",
            "after a close an HTLC counts as in flight while an output of its value sits unspent in the confirmed (or a not "
            "yet confirmed) commitment; what a mined transaction shows (funding spend = commitment with its output values; "
            "spend of a commitment output whose witness script commits to the payment hash, with or without the preimage) "
            "is read off the transaction by the engine's miner; static_remote_key channels, no anchors, no reorgs; balances "
            "are not compared once a channel was closed (closing fees)",
            "the balance check applies to payers that never receive or forward in the run; PaymentSent.fee_paid_msat = None "
            "disables it for that payer",
        ])
