"""Quiescence + splicing part of the channel family: engine `splicenet` + spec Splice.tla.

    design check   TLC on SpliceMC.tla (two endpoints + FIFO links + a chain reaching the nodes separately):
                   agreement per funding scope, conservation across the splice, splice_locked depth,
                   tx_signatures after durability, both-or-neither after a disconnection; two spec mutants
                   (a guard removed) must be refuted
    behaviours     TLC's quiescent states -> user-level scripts, replayed on real ChannelManagers
    schedules      structured families (a cut -- disconnect / restart -- after every k-th message of the
                   negotiation, asynchronous persistence, lock order, tie-break, forwarding across a channel
                   being spliced, held signatures / cancel) and seeded random drivers, 2 and 3 nodes
    oracle         TLC validates every recorded run against SpliceTrace.tla

    run_part(pid, tier, seed, wd) -> (violations, coverage)        python3 checks/splice_common.py quick 1
"""
import json, os, random, sys, time
sys.path.insert(0, os.path.join(os.path.dirname(os.path.dirname(os.path.abspath(__file__))), "lib"))
import vlib

GROUPS = {"C01": "SpliceTraceR01.cfg", "C05": "SpliceTraceR05.cfg", "C09": "SpliceTraceR09.cfg", "C10": "SpliceTraceR10.cfg"}
# block connection styles that hand every block to the node (the engine decides itself which node sees what when)
CONNECT_STYLES = ["BEST_BLOCK_FIRST", "TRANSACTIONS_FIRST", "FULL_BLOCK_VIA_LISTEN"]
MC_ACTIONS = ["MPay", "MSendCS", "MSendRAA", "MWant", "MStfu", "MSpliceInit", "MSpliceAck", "MTx", "MLearn", "MInitCS",
              "MPersistReneg", "MTxSigs", "MMine", "MSync", "MLocked", "MDeliver"]
MC_ACTIONS_BY_CFG = {
    "SpliceMC.cfg": MC_ACTIONS + ["MClaim", "MFlush"],
    "SpliceMC_tie0.cfg": [a for a in MC_ACTIONS if a not in ("MPay", "MSendCS", "MSendRAA")],
    "SpliceMC_tie.cfg": MC_ACTIONS + ["MClaim", "MFlush"],
    "SpliceMC_disc0.cfg": [a for a in MC_ACTIONS if a not in ("MPay", "MSendCS", "MSendRAA")] + ["MDisconnect", "MReconnect", "MReest", "MAbort", "MComplete"],
    "SpliceMC_disc.cfg": MC_ACTIONS + ["MDisconnect", "MReconnect", "MReest", "MAbort", "MComplete", "MResend"],
}
MC_ASYNC = {"SpliceMC_disc0.cfg": 2, "SpliceMC_disc.cfg": 2}


def convert_script(s, async_side, k, rng):
    """TLC behaviour (user-level ops of SpliceMC) -> splicenet script."""
    ops = []
    if async_side:
        ops.append({"op": "persist_mode", "node": async_side - 1, "mode": "inprogress"})
    sends = {}
    npay = 0
    for o in s["ops"]:
        o = dict(o)
        if o["op"] == "send":
            side = o["from"] + 1
            i = sum(1 for h in sends if h // 10 == side)
            sends[10 * side + i] = npay
            npay += 1
            ops.append(o)
        elif o["op"] == "claim":
            if o["hash"] in sends:
                ops.append({"op": "claim", "pay": sends[o["hash"]]})
        elif o["op"] == "mine":
            ops.append({"op": "mine", "n": o.get("n", 1), "nodes": []})
        else:
            ops.append(o)
    ops.append({"op": "settle"})
    value = rng.choice([300000, 1000000])
    return {"cfg": {"nodes": 2, "chan_type": ["static", "anchors"][k % 2], "value": value, "push": value * 500, "feerate": 253},
            "ops": ops}


# ------------------------------------------------------------------------------- structured schedules

def _cfg(rng, nodes=2):
    value = rng.choice([200000, 500000, 1000000])
    return {"nodes": nodes, "chan_type": rng.choice(["static", "anchors"]), "value": value, "push": value * 500, "feerate": 253}


def _splice(rng, a, b, kind=None):
    return {"op": "splice", "node": a, "peer": b, "kind": kind or rng.choice(["in", "out", "inout"]),
            "amt": rng.choice([20000, 50000, 90000]), "feerate": rng.choice([253, 500, 1000])}


def fam_cut(rng, count, restart=False, asyncp=False):
    """A cut after every k-th message of the negotiation: disconnect / restart, then go on."""
    out = []
    for i in range(count):
        k = i % 44
        a = rng.randrange(2)
        b = 1 - a
        ops = []
        if rng.random() < 0.5:
            ops += [{"op": "send", "from": rng.randrange(2), "to": 0, "amt": 7000000}]
            ops[-1]["to"] = 1 - ops[-1]["from"]
            ops += [{"op": "deliver_all"}]
        if asyncp:
            for nd in range(2):
                if rng.random() < 0.7:
                    ops.append({"op": "persist_mode", "node": nd, "mode": "inprogress"})
        if rng.random() < 0.3:
            ops.append({"op": "send", "from": b, "to": a, "amt": 3000000})
        ops.append(_splice(rng, a, b))
        if rng.random() < 0.25:
            ops.append(_splice(rng, b, a, rng.choice(["in", "out"])))
        if rng.random() < 0.3:
            ops.append({"op": "send", "from": a, "to": b, "amt": 2000000})
        ops.append({"op": "deliver_n", "n": k, "first": rng.randrange(2)})
        if asyncp and rng.random() < 0.6:
            ops.append({"op": "complete", "node": rng.randrange(2), "which": rng.choice(["oldest", "all"])})
            ops.append({"op": "deliver_n", "n": rng.randrange(4), "first": rng.randrange(2)})
        if restart and not asyncp:
            ops.append({"op": "restart", "node": rng.randrange(2), "mon": "latest"})
            if rng.random() < 0.2:
                ops.append({"op": "restart", "node": rng.randrange(2), "mon": "latest"})
        else:
            ops.append({"op": "disconnect", "a": 0, "b": 1})
        if rng.random() < 0.3:
            ops.append({"op": "mine", "n": rng.randrange(1, 4), "nodes": [rng.randrange(2)]})
        ops.append({"op": "reconnect", "a": 0, "b": 1})
        ops.append({"op": "deliver_n", "n": rng.randrange(0, 12), "first": rng.randrange(2)})
        if asyncp:
            for nd in range(2):
                ops.append({"op": "complete", "node": nd, "which": "all"})
        if rng.random() < 0.3:
            ops += [{"op": "disconnect", "a": 0, "b": 1}, {"op": "reconnect", "a": 0, "b": 1}]
        ops += [{"op": "deliver_all"}, {"op": "mine", "n": rng.randrange(1, 8)}, {"op": "deliver_all"}]
        if rng.random() < 0.4:
            ops += [{"op": "send", "from": a, "to": b, "amt": 30000000}, {"op": "deliver_all"}]
        ops.append({"op": "settle"})
        out.append({"cfg": _cfg(rng), "ops": ops})
    return out


def fam_lock(rng, count):
    """The splice transaction confirms on one node before the other; splice_locked crosses payments,
    disconnections and restarts."""
    out = []
    for i in range(count):
        a = rng.randrange(2)
        b = 1 - a
        ops = [_splice(rng, a, b), {"op": "deliver_all"}]
        first = rng.randrange(2)
        n1 = rng.randrange(1, 8)
        ops.append({"op": "mine", "n": n1, "nodes": [first]})
        if rng.random() < 0.5:
            ops.append({"op": "send", "from": rng.randrange(2), "to": 0, "amt": 7000000})
            ops[-1]["to"] = 1 - ops[-1]["from"]
        ops.append({"op": "deliver_n", "n": rng.randrange(0, 6), "first": rng.randrange(2)})
        r = rng.random()
        if r < 0.3:
            ops += [{"op": "disconnect", "a": 0, "b": 1}]
        elif r < 0.5:
            ops += [{"op": "restart", "node": rng.randrange(2), "mon": "latest"}]
        ops.append({"op": "sync", "node": 1 - first, "k": rng.randrange(1, 8)})
        if rng.random() < 0.5:
            ops.append({"op": "mine", "n": rng.randrange(1, 6)})
        ops.append({"op": "reconnect", "a": 0, "b": 1})
        ops.append({"op": "deliver_n", "n": rng.randrange(0, 8), "first": rng.randrange(2)})
        if rng.random() < 0.4:
            ops.append({"op": "send", "from": a, "to": b, "amt": 2000000})
        ops += [{"op": "deliver_all"}, {"op": "settle"}]
        out.append({"cfg": _cfg(rng), "ops": ops})
    return out


def fam_tie(rng, count):
    """Both sides ask at once, with updates of either side in flight when the stfu's cross."""
    out = []
    for i in range(count):
        ops = []
        for _ in range(rng.randrange(0, 3)):
            f = rng.randrange(2)
            ops.append({"op": "send", "from": f, "to": 1 - f, "amt": rng.choice([300000, 2000000, 30000000])})
        ops.append({"op": "deliver_n", "n": rng.randrange(0, 9), "first": rng.randrange(2)})
        first = rng.randrange(2)
        fr = rng.choice([253, 500])
        s1 = _splice(rng, first, 1 - first)
        s2 = _splice(rng, 1 - first, first)
        if rng.random() < 0.7:
            s1["feerate"] = s2["feerate"] = fr
        ops.append(s1)
        ops.append({"op": "deliver_n", "n": rng.randrange(0, 3), "first": rng.randrange(2)})
        ops.append(s2)
        if rng.random() < 0.5:
            f = rng.randrange(2)
            ops.append({"op": "send", "from": f, "to": 1 - f, "amt": 7000000})
        if rng.random() < 0.3:
            ops.append({"op": "claim", "pay": 0})
        ops += [{"op": "deliver_all"}, {"op": "mine", "n": rng.randrange(1, 8)}, {"op": "deliver_all"}]
        if rng.random() < 0.5:
            ops += [{"op": "mine", "n": 6}, {"op": "deliver_all"}, _splice(rng, rng.randrange(2), 0), {"op": "deliver_all"}]
            ops[-2]["peer"] = 1 - ops[-2]["node"]
        ops.append({"op": "settle"})
        out.append({"cfg": _cfg(rng), "ops": ops})
    return out


def fam_fwd3(rng, count):
    """An HTLC forwarded across a channel that is being spliced (three nodes)."""
    out = []
    for i in range(count):
        ops = []
        link = rng.choice([(0, 1), (1, 0), (1, 2), (2, 1)])
        src, dst = rng.choice([(0, 2), (2, 0)])
        ops.append({"op": "send", "from": src, "to": dst, "amt": 7000000})
        ops.append({"op": "deliver_n", "n": rng.randrange(0, 14), "first": rng.randrange(3)})
        ops.append(_splice(rng, link[0], link[1]))
        ops.append({"op": "deliver_n", "n": rng.randrange(0, 30), "first": rng.randrange(3)})
        ops.append({"op": "send", "from": dst, "to": src, "amt": 3000000})
        if rng.random() < 0.5:
            ops.append({"op": "forward", "node": 1})
        ops.append({"op": "deliver_n", "n": rng.randrange(0, 30), "first": rng.randrange(3)})
        if rng.random() < 0.5:
            ops.append({"op": "claim", "pay": 0})
        if rng.random() < 0.3:
            x = rng.randrange(2)
            ops += [{"op": "disconnect", "a": x, "b": x + 1}, {"op": "reconnect", "a": x, "b": x + 1}]
        ops += [{"op": "deliver_all"}, {"op": "mine", "n": rng.randrange(1, 8)}, {"op": "deliver_all"}, {"op": "settle"}]
        out.append({"cfg": _cfg(rng, 3), "ops": ops})
    return out


def fam_hold(rng, count):
    """The user signs late or cancels: around disconnections, at every point of the negotiation."""
    out = []
    for i in range(count):
        a = rng.randrange(2)
        b = 1 - a
        ops = [{"op": "hold_sign", "node": a, "on": True}]
        if rng.random() < 0.4:
            ops.append({"op": "hold_sign", "node": b, "on": True})
        ops.append(_splice(rng, a, b))
        if rng.random() < 0.3:
            ops.append(_splice(rng, b, a, "in"))
        ops.append({"op": "deliver_n", "n": rng.randrange(0, 40), "first": rng.randrange(2)})
        r = rng.random()
        if r < 0.35:
            ops.append({"op": "cancel", "node": a, "peer": b})
        elif r < 0.7:
            ops += [{"op": "disconnect", "a": 0, "b": 1}, {"op": "reconnect", "a": 0, "b": 1}]
        ops.append({"op": "deliver_n", "n": rng.randrange(0, 6), "first": rng.randrange(2)})
        ops.append({"op": "sign", "node": a})
        ops.append({"op": "deliver_n", "n": rng.randrange(0, 4), "first": rng.randrange(2)})
        if rng.random() < 0.3:
            ops.append({"op": "cancel", "node": rng.randrange(2), "peer": 0})
            ops[-1]["peer"] = 1 - ops[-1]["node"]
        if rng.random() < 0.4:
            ops += [{"op": "disconnect", "a": 0, "b": 1}, {"op": "reconnect", "a": 0, "b": 1}]
        ops.append({"op": "sign", "node": b})
        ops += [{"op": "deliver_all"}, {"op": "mine", "n": rng.randrange(1, 8)}, {"op": "deliver_all"}, {"op": "settle"}]
        out.append({"cfg": _cfg(rng), "ops": ops})
    return out


FAMILIES = {
    "cut": lambda rng, n: fam_cut(rng, n),
    "cutrestart": lambda rng, n: fam_cut(rng, n, restart=True),
    "cutasync": lambda rng, n: fam_cut(rng, n, asyncp=True),
    "lock": fam_lock, "tie": fam_tie, "fwd3": fam_fwd3, "hold": fam_hold,
}


def finding_key(fl):
    """Canonical key of a recognised defect of the unchanged tree (for KNOWN_FINDINGS.jsonl); None otherwise."""
    evs = fl["run_events"]
    if sum(1 for e in evs if e.get("ev") == "msg" and e.get("kind") == "warning" and e.get("data", "").startswith("Got add HTLC message while quiescent")) >= 1 \
            and any(e.get("ev") == "msg" and e.get("kind") == "tx_abort" and e.get("data", "").startswith("Signing was not completed") for e in evs) \
            and fl["rec"].get("ev") == "msg" and fl["rec"].get("kind") in ("update_add_htlc", "update_fulfill_htlc", "update_fail_htlc", "commitment_signed"):
        return "splice_tx_abort_sent_after_update_retransmission_livelock"
    for e in fl["run_events"]:
        if e.get("ev") == "msg" and e.get("kind") == "error":
            d = e.get("data", "")
            if d.startswith("Got a single commitment_signed message when expecting a batch") and \
                    any(x.get("ev") == "msg" and x.get("kind") == "tx_init_rbf" for x in fl["run_events"]):
                return "splice_rbf_tx_abort_crossing_initial_commitment_signed_closes_channel"
            if d.startswith("Unexpected next_funding txid") and \
                    any(x.get("ev") == "msg" and x.get("kind") == "tx_init_rbf" for x in fl["run_events"]):
                return "splice_rbf_unknown_next_funding_closes_channel"
            break
    return None


# ------------------------------------------------------------------------------- attribution, self-test

def attribute(pid, wd, fail, tag):
    p = os.path.join(wd, "attr-%s.ndjson" % tag)
    with open(p, "w") as f:
        for r in fail["run_events"]:
            f.write(json.dumps(r) + "\n")
    groups = set()
    for g, cfg in GROUPS.items():
        _, fl = vlib.validate_trace(pid, "SpliceTrace", cfg, p, max_failures=1, tag="attr" + g)
        if not fl:
            groups.add(g)
    return groups


def selftest(pid, wd, tpaths):
    """Corrupt accepted runs (fields changed / events dropped); every kind must be rejected."""
    recs = []
    for tp in tpaths:
        with open(tp) as f:
            rs = [json.loads(x) for x in f.read().splitlines() if x.strip()]
        for r in rs:
            r["run"] = (tp, r["run"])
        recs += rs
    by_run = {}
    for r in recs:
        by_run.setdefault(r["run"], []).append(r)

    def clone(rs):
        return [json.loads(json.dumps(r)) for r in rs]

    def first(rs, pred, start=0):
        for k in range(start, len(rs)):
            if pred(rs[k]):
                return k
        return None

    kinds = {}

    def add(name, rs):
        kinds.setdefault(name, [])
        if len(kinds[name]) < 2:
            kinds[name].append(rs)

    for run, rs in by_run.items():
        if any(r["ev"] in ("panic",) for r in rs):
            continue
        k = first(rs, lambda r: r["ev"] == "persist" and any(s["k"] == "renegotiated_funding" for s in r["steps"]))
        if k is not None:
            m = clone(rs)
            st = [s for s in m[k]["steps"] if s["k"] == "renegotiated_funding"][0]
            st["cp"]["to_b"] += 1
            add("new-scope-balance-off-by-one", m)
            m = clone(rs)
            for r in m:
                if r.get("kind") == "tx_add_output" and r.get("funding"):
                    r["sats"] -= 10
            add("funding-output-not-old-value-plus-contributions", m)
        k = first(rs, lambda r: r["ev"] == "msg" and r.get("kind") == "splice_locked")
        if k is not None:
            kb = [j for j in range(k) if rs[j]["ev"] == "block" and rs[j]["node"] == rs[k]["from"]]
            if kb:
                m = clone(rs)
                del m[kb[-1]]
                add("splice-locked-one-block-early", m)
        k = first(rs, lambda r: r["ev"] == "msg" and r.get("kind") == "stfu")
        if k is not None:
            m = clone(rs)
            m.insert(k + 1, {"ev": "msg", "kind": "update_add_htlc", "chan": rs[k]["chan"], "from": rs[k]["from"], "to": rs[k]["to"],
                             "id": 77, "amt": 1000000, "hash": 99, "cltv": 500, "run": run, "seq": 0})
            add("update-after-stfu", m)
        k = first(rs, lambda r: r["ev"] == "msg" and r.get("kind") == "tx_complete")
        if k is not None and first(rs, lambda r: r["ev"] == "msg" and r.get("kind") == "tx_signatures") is not None:
            m = clone(rs)
            del m[k]
            add("turn-taking-broken", m)
        k = first(rs, lambda r: r["ev"] == "msg" and r.get("kind") == "tx_signatures")
        if k is not None:
            kp = [j for j in range(k) if rs[j]["ev"] == "persist" and rs[j]["node"] == rs[k]["from"] and
                  any(s["k"] == "renegotiated_funding" for s in rs[j]["steps"])]
            if kp and rs[kp[-1]]["status"] == "completed":
                m = clone(rs)
                m[kp[-1]]["status"] = "inprogress"
                add("tx-signatures-before-scope-durable", m)
        k = first(rs, lambda r: r["ev"] == "msg" and r.get("kind") == "commitment_signed" and len(r["batch"]) == 2 and all(b["known"] for b in r["batch"]))
        if k is not None:
            m = clone(rs)
            m[k]["batch"] = m[k]["batch"][:1]
            m[k]["n"] = 1
            add("commitment-signed-skips-a-pending-scope", m)
            m = clone(rs)
            b = m[k]["batch"][1]["c"]
            if b["to_b"] > 1000 and b["to_c"] > 1000:
                b["to_b"] -= 1000
                b["to_c"] += 1000
                add("contribution-credited-to-the-wrong-side", m)
        k = first(rs, lambda r: r["ev"] == "proj" and not r["final"] and r["ftx"] != rs[0]["chans"][0]["ftx"] and r["chan"] == rs[0]["chans"][0]["chan"]) if rs and rs[0]["ev"] == "open" else None
        if k is not None:
            m = clone(rs)
            m[k]["value"] = rs[0]["chans"][0]["value_sat"]
            add("channel-value-not-switched-after-lock", m)
        k = first(rs, lambda r: r["ev"] == "msg" and r.get("kind") == "stfu" and r["initiator"])
        if k is not None:
            # the peer's reply claims to be an initiator too although it answers
            k2 = first(rs, lambda r: r["ev"] == "msg" and r.get("kind") == "stfu" and not r["initiator"], k)
            if k2 is not None:
                m = clone(rs)
                h = m[k2]
                for r in m:
                    if r.get("kind") == "stfu" and r["ev"] in ("msg", "deliver") and r.get("from") == h["from"] and not r["initiator"]:
                        r["initiator"] = True
                add("stfu-reply-with-initiator-flag", m)
    rejected, names = 0, []
    for kind, variants in kinds.items():
        ok = False
        for m in variants:
            p = os.path.join(wd, "selftest-%s.ndjson" % kind)
            with open(p, "w") as f:
                for r in m:
                    r = dict(r)
                    r["run"] = 1
                    f.write(json.dumps(r) + "\n")
            _, fails = vlib.validate_trace(pid, "SpliceTrace", "SpliceTrace.cfg", p, max_failures=1, tag="st")
            if fails:
                ok = True
                break
        names.append(kind if ok else kind + " (NOT REJECTED)")
        rejected += 1 if ok else 0
    if len(kinds) < 8 or rejected != len(kinds):
        raise vlib.ToolError("binding self-test: %d of %d kinds of corruption rejected (%s)" % (rejected, len(kinds), names))
    return {"mutations": len(kinds), "rejected": rejected, "kinds": names}


# ------------------------------------------------------------------------------- the part

def run_part(pid, tier, seed, wd):
    t0 = time.time()
    thorough = tier == "thorough"
    rng = random.Random(seed)
    bins = vlib.build(["splicenet"])

    # ---- design check + behaviours
    only = [x for x in os.environ.get("SPLICE_ONLY", "").split(",") if x]       # (development: a subset of the batches)
    mc_cfgs = ["SpliceMC.cfg", "SpliceMC_tie0.cfg", "SpliceMC_disc0.cfg"] + (["SpliceMC_tie.cfg", "SpliceMC_disc.cfg"] if thorough else [])
    if only and "tlc" not in only:
        mc_cfgs = []
    mcs, conv = [], []
    for cfg in mc_cfgs:
        # (TLC's -coverage costs close to a minute whatever the size of the model: the small instances are checked
        # for vacuity through the scripts they emit instead)
        with_cov = thorough and cfg == "SpliceMC.cfg"
        r = vlib.tlc_mc(pid, "SpliceMC", cfg, workers=12, timeout=1800 if thorough else 600, coverage=with_cov)
        if r["violated"]:
            raise vlib.ToolError("design model violates %s in %s (spec needs correction)" % (r["violated"], cfg))
        if "Deadlock reached" in r["out"]:
            raise vlib.ToolError("design model deadlocks in %s: an observable-level guard is unmet (spec needs correction)" % cfg)
        got = vlib.tlc_printed(r["out"], "SCRIPT")
        if with_cov:
            vlib.require_coverage(r, MC_ACTIONS_BY_CFG[cfg], cfg)
        else:
            ops_seen = {o["op"] for g in got for o in g["ops"]}
            want_ops = {"SpliceMC.cfg": {"send", "claim", "splice", "deliver", "mine", "sync"},
                        "SpliceMC_tie0.cfg": {"splice", "deliver", "mine", "sync"},
                        "SpliceMC_tie.cfg": {"send", "claim", "splice", "deliver", "mine", "sync"},
                        "SpliceMC_disc.cfg": {"send", "splice", "deliver", "disconnect", "reconnect", "complete"},
                        "SpliceMC_disc0.cfg": {"splice", "deliver", "disconnect", "reconnect"}}[cfg]
            if not got or not want_ops <= ops_seen or (cfg in ("SpliceMC_tie0.cfg", "SpliceMC_tie.cfg") and not any(sum(1 for o in g["ops"] if o["op"] == "splice") == 2 for g in got)):
                raise vlib.ToolError("vacuity: %s emitted %d scripts with ops %s" % (cfg, len(got), sorted(ops_seen)))
        vlib.log("[mc] %s: %d distinct states, %d generated, depth %d, %d scripts, %.0fs" %
                 (cfg, r["distinct"], r["states"], r["depth"], len(got), r["wall_s"]))
        cap = (400 if thorough else 60)
        if len(got) > cap:
            got = rng.sample(got, cap)
        conv += [convert_script(s, MC_ASYNC.get(cfg, 0), k, rng) for k, s in enumerate(got)]
        r.pop("out")
        mcs.append((cfg, r))
    for cfg in ([] if only else ["SpliceMC_mutStfu.cfg", "SpliceMC_mutDepth.cfg"]):
        r = vlib.tlc_mc(pid, "SpliceMC", cfg, workers=4, timeout=600, coverage=False)
        if not r["violated"]:
            raise vlib.ToolError("spec mutant %s is not rejected by TLC: invariants are vacuous" % cfg)
        vlib.log("[mc] spec mutant %s violates %s as expected" % (cfg, r["violated"]))
    spath = os.path.join(wd, "splice-scripts-tlc.ndjson")
    with open(spath, "w") as f:
        for s in conv:
            f.write(json.dumps(s) + "\n")

    # ---- real code
    batches = [("tlc", ["--scripts", spath])] if conv else []
    fam_counts = {"cut": 44, "cutrestart": 44, "cutasync": 44, "lock": 30, "tie": 30, "fwd3": 24, "hold": 30} if not thorough else \
                 {"cut": 176, "cutrestart": 176, "cutasync": 176, "lock": 120, "tie": 120, "fwd3": 96, "hold": 120}
    nfam = 0
    for fam, count in fam_counts.items():
        made = FAMILIES[fam](rng, count)
        nfam += len(made)
        fpath = os.path.join(wd, "splice-scripts-%s.ndjson" % fam)
        with open(fpath, "w") as f:
            for s_ in made:
                f.write(json.dumps(s_) + "\n")
        batches.append((fam, ["--scripts", fpath]))
    # the schedules of the registered findings of this part are replayed every time (each is reported as a
    # KNOWN-FINDING as long as the library behaves that way, and as nothing once it is repaired)
    kpath = os.path.join(wd, "splice-scripts-known.ndjson")
    import glob
    kfiles = sorted(glob.glob(os.path.join(vlib.ROOT if hasattr(vlib, "ROOT") else os.path.join(os.path.dirname(os.path.abspath(__file__)), ".."), "findings", "splice-*.script.ndjson")))
    if kfiles:
        with open(kpath, "w") as f:
            for kf in kfiles:
                f.write(open(kf).read().strip() + "\n")
        batches.append(("known", ["--scripts", kpath]))
    for name, nodes, runs in ([("default", 2, 30), ("restart", 2, 25), ("async", 2, 25), ("default", 3, 16), ("restart", 3, 12)] if not thorough else
                              [("default", 2, 150), ("restart", 2, 120), ("async", 2, 120), ("default", 3, 80), ("restart", 3, 60), ("async", 3, 60)]):
        batches.append(("%s%d" % (name, nodes), ["--random", runs, "--nodes", nodes, "--profile", name]))
    if only:
        batches = [b for b in batches if b[0] in only]
    nviol, total_events, total_runs, executed, skipped, panics = 0, 0, 0, 0, 0, 0
    accepted_traces = []
    kinds_seen = {}
    for bi, (bname, args) in enumerate(batches):
        tpath = os.path.join(wd, "splice-trace-%s.ndjson" % bname)
        style = CONNECT_STYLES[(seed + bi) % len(CONNECT_STYLES)]
        eargs = args + ["--seed", seed * 100 + bi]
        vlib.run_bin(bins["splicenet"], eargs + ["--out", tpath], discard_stdout=True, timeout=3000, env={"LDK_TEST_CONNECT_STYLE": style})
        summ = json.load(open(tpath + ".summary"))
        vlib.log("[splicenet] %s %s" % (bname, summ))
        if summ["setup_failures"]:
            if vlib.report_violation(pid, "splice-%s-setup" % bname, {"property": pid, "kind": "panic while opening channels",
                                     "message": summ.get("setup_panic", ""), "batch": bname, "engine": "splicenet", "engine_args": eargs}):
                nviol += 1
        total_runs += summ["runs"]
        executed += summ["executed"]
        skipped += summ["skipped"]
        panics += summ["panics"]
        with open(tpath) as f:
            for ln in f:
                if '"ev":"msg"' in ln:
                    kd = json.loads(ln).get("kind")
                    kinds_seen[kd] = kinds_seen.get(kd, 0) + 1
        total, fails = vlib.validate_trace(pid, "SpliceTrace", "SpliceTrace.cfg", tpath, timeout=2400, tag="sp-" + bname)
        total_events += total
        if not fails:
            accepted_traces.append(tpath)
        for k, fl in enumerate(fails):
            ev = fl["rec"]
            groups = set() if ev.get("ev") == "panic" else attribute(pid, wd, fl, "%s-%d" % (bname, k))
            vlib.log("[reject] splice batch %s run %s at event %d (%s %s): guard groups %s" %
                     (bname, fl["run"], fl["pos_in_run"], ev.get("ev"), ev.get("kind", ""), sorted(groups) or "unattributed"))
            if os.environ.get("SPLICE_ASSUME_KNOWN") and finding_key(fl):
                # (development only: go on as if the coordinator had registered the finding in KNOWN_FINDINGS.jsonl)
                vlib.log("ASSUMED-KNOWN: %s" % finding_key(fl))
                continue
            script = None
            if args[0] == "--scripts":
                with open(args[1]) as f:
                    lines = f.read().splitlines()
                if isinstance(fl["run"], int) and 0 < fl["run"] <= len(lines):
                    script = json.loads(lines[fl["run"] - 1])
            if vlib.report_violation(pid, "splice-%s-run%s" % (bname, fl["run"]), {
                    "property": pid, "part": "quiescence + splicing (Splice.tla)", "kind": fl["kind"], "invariant": fl["inv"],
                    "guard_groups": sorted(groups), "first_unmatched_event": ev, "position_in_run": fl["pos_in_run"],
                    "batch": bname, "engine": "splicenet", "engine_args": eargs, "env": {"LDK_TEST_CONNECT_STYLE": style},
                    "script": script, "trace_of_run": fl["run_events"], "last_state": fl["last_state"],
                    "how_to_replay": "harness/target/debug/splicenet <engine_args> --out t.ndjson ; tools/tv.sh SpliceTrace t.ndjson   (run id = `run` field; "
                                     "or put `script` alone into a file and pass it with --scripts)"}, key=finding_key(fl)):
                nviol += 1
    if total_runs and executed < skipped:
        raise vlib.ToolError("splicenet: drivers mostly skip (%d executed, %d skipped)" % (executed, skipped))
    # vacuity: the runs really exercised splicing
    need = ["stfu", "splice_init", "splice_ack", "tx_add_input", "tx_add_output", "tx_complete", "tx_signatures", "splice_locked",
            "commitment_signed", "channel_reestablish", "tx_abort"]
    missing = [k for k in need if kinds_seen.get(k, 0) == 0]
    if missing and not nviol and not only:
        raise vlib.ToolError("splicenet: message kinds never seen on the wire: %s" % missing)

    st = None
    if nviol == 0 and not only:
        pick = [t for t in accepted_traces if any(x in t for x in ("-tie", "-cutasync", "-lock", "-tlc"))] or accepted_traces
        st = selftest(pid, wd, pick[:4])
        vlib.log("[selftest] %s" % st)

    cov = {
        "states": sum(r["distinct"] for _, r in mcs), "transitions": sum(r["states"] for _, r in mcs),
        "mc_runs": [{"cfg": c, "distinct": r["distinct"], "generated": r["states"], "depth": r["depth"],
                     "action_coverage": r["coverage"], "wall_s": round(r["wall_s"], 1)} for c, r in mcs],
        "spec_mutants_refuted": ["SpliceMC_mutStfu.cfg", "SpliceMC_mutDepth.cfg"],
        "scripts_from_tlc": len(conv), "scripts_structured": nfam, "traces_validated_against_impl": total_runs,
        "events_validated": total_events, "script_steps_executed": executed, "script_steps_skipped": skipped,
        "impl_panics": panics, "wire_messages_by_kind": kinds_seen, "batches": [b[0] for b in batches],
        "binding_selftest": st, "samples": conv[:1], "wall_s": round(time.time() - t0, 1),
    }
    return nviol, cov


ASSUMPTIONS = [
    "both peers are the implementation under test (honest runs), feerates constant (no update_fee during these runs)",
    "a user does not replace a pending splice (no tx_init_rbf started by the scripts) and offers a wallet coin to one splice only",
    "a node restarts from the ChannelManager it wrote last and its latest monitors, and only while none of its monitor writes is in flight",
    "channel value <= 2,000,000 sat so that msat amounts fit TLC's 32-bit integers",
]


def main():
    def fn(tier, seed):
        wd = vlib.workdir("splice")
        nviol, cov = run_part("C01", tier, seed, wd)
        with open(os.path.join(wd, "coverage.json"), "w") as f:
            json.dump({"tier": tier, "seed": seed, "violations": nviol, "coverage": cov, "assumptions": ASSUMPTIONS}, f, indent=1, default=str)
        vlib.log("[splice] %s: %d violation(s); %d MC states, %d TLC scripts, %d structured, %d runs, %d events, %.0fs" %
                 (tier, nviol, cov["states"], cov["scripts_from_tlc"], cov["scripts_structured"], cov["traces_validated_against_impl"],
                  cov["events_validated"], cov["wall_s"]))
        return nviol
    # (argv: tier seed)
    if len(sys.argv) > 1 and sys.argv[1] in ("quick", "thorough"):
        os.environ["VERIF_TIER"] = sys.argv[1]
    if len(sys.argv) > 2 and sys.argv[2].isdigit():
        os.environ["VERIF_SEED"] = sys.argv[2]
        sys.argv[2] = "x"
    vlib.main_wrapper("splice", fn)


if __name__ == "__main__":
    main()
