"""Structured channet schedules around a forwarding node B (C02).

Random schedules almost never hit the narrow windows in which a forwarding node can lose money, so these
families fix the skeleton of such a window and randomise everything else (amounts, channel type,
interleaving of deliveries, completion order, restart point and kind).  The engine executes them like
any other script; the oracle is the same ChanTrace specification.

  failwin  A - B - C.  C removes a forwarded HTLC while B has a commitment update of its own in flight
           on B-C; B is restarted (clean reload or crash) at every point of the exchange.
  fanin    A1 - B - C, A2 - B.  Two HTLCs from two upstream channels leave over the same downstream
           channel; B persists asynchronously; the upstream preimage writes complete in any order;
           B may crash with a stale manager and any admissible combination of landed monitor writes.
"""

TYPES = ["static", "anchors", "zerofee"]


def _cfg(rng, nodes, edges=None):
    value = rng.choice([100000, 1000000])
    c = {"nodes": nodes, "chan_type": rng.choice(TYPES), "value": value, "push": value * 500, "feerate": 253}
    if edges:
        c["edges"] = edges
    return c


def _deliveries(rng, pairs, k):
    out = []
    for _ in range(k):
        a, b = rng.choice(pairs)
        out.append({"op": "deliver", "from": a, "to": b})
    return out


def _wind_down(npay, rng, pairs, settle=True, signers=False):
    ops = [{"op": "hold_events", "node": n, "on": False} for n in sorted({x for p in pairs for x in p})]
    if signers:
        for a, b in pairs:
            for (i, j) in ((a, b), (b, a)):
                ops += [{"op": "signer_on", "node": i, "peer": j, "what": w} for w in ("point", "secret", "sign")]
    ops += [{"op": "reconnect", "a": a, "b": b} for a, b in pairs]
    ops.append({"op": "deliver_all"})
    for n in {x for p in pairs for x in p}:
        ops.append({"op": "persist_mode", "node": n, "mode": "completed"})
        ops.append({"op": "complete", "node": n, "which": "all"})
    ops.append({"op": "deliver_all"})
    if settle:
        for k in range(npay):
            ops.append({"op": "claim" if rng.random() < 0.5 else "fail", "pay": k})
            ops.append({"op": "deliver_all"})
    for n in {x for p in pairs for x in p}:
        ops.append({"op": "complete", "node": n, "which": "all"})
    ops += [{"op": "deliver_all"}, {"op": "proj", "final": True}]
    return ops


def failwin(rng):
    ops = []
    npay = 0
    for _ in range(rng.choice([1, 1, 2])):
        ops.append({"op": "send", "from": 0, "to": 2, "amt": rng.choice(["big", "justabove", "dust"])})
        npay += 1
    ops.append({"op": "deliver_all"})
    fwd = npay
    # B's own update in flight on B-C
    r = rng.random()
    if r < 0.6:
        ops.append({"op": "send", "from": 1, "to": 2, "amt": rng.choice(["big", "justabove"])})
        npay += 1
    elif r < 0.8:
        ops.append({"op": "send", "from": 0, "to": 2, "amt": "big"})
        npay += 1
        ops += [{"op": "deliver", "from": 0, "to": 1}] * 2 + [{"op": "deliver", "from": 1, "to": 0}] * 2 + \
               [{"op": "deliver", "from": 0, "to": 1}, {"op": "forward", "node": 1}]
    elif r < 0.9:
        ops.append({"op": "fee", "node": 1, "feerate": rng.choice([500, 1000, 2000])})
    # C resolves the forwarded HTLC(s)
    order = list(range(fwd))
    rng.shuffle(order)
    for k in order[:rng.choice([1, fwd])]:
        ops.append({"op": "fail" if rng.random() < 0.7 else "claim", "pay": k})
    pairs_bc = [(1, 2), (2, 1)]
    ops += _deliveries(rng, pairs_bc + ([(0, 1), (1, 0)] if rng.random() < 0.3 else []), rng.randrange(0, 7))
    # restart B
    if rng.random() < 0.7:
        ops.append({"op": "reload", "node": 1})
    else:
        ops.append({"op": "crash", "node": 1, "mgr": 0, "mon": "durable"})
    links = [(0, 1), (1, 2)]
    rng.shuffle(links)
    ops.append({"op": "reconnect", "a": links[0][0], "b": links[0][1]})
    ops += _deliveries(rng, [(links[0][0], links[0][1]), (links[0][1], links[0][0])], rng.randrange(0, 3))
    ops.append({"op": "reconnect", "a": links[1][0], "b": links[1][1]})
    ops += _deliveries(rng, pairs_bc + [(0, 1), (1, 0)], rng.randrange(0, 10))
    if rng.random() < 0.25:
        ops.append({"op": "reload", "node": 1})
    ops += _wind_down(npay, rng, [(0, 1), (1, 2)])
    return {"cfg": _cfg(rng, 3), "ops": ops}


def fanin(rng):
    edges = [[0, 1], [1, 2], [1, 3]]
    ops = []
    srcs = [0, 3] + [rng.choice([0, 3]) for _ in range(rng.choice([0, 0, 1]))]
    rng.shuffle(srcs)
    for s in srcs:
        ops.append({"op": "send", "from": s, "to": 2, "amt": rng.choice(["big", "justabove", "big"])})
        ops.append({"op": "deliver_all"})
    npay = len(srcs)
    ops.append({"op": "save", "node": 1})
    ops.append({"op": "persist_mode", "node": 1, "mode": "inprogress"})
    order = list(range(npay))
    rng.shuffle(order)
    pairs = [(2, 1), (1, 2)]
    for k in order:
        ops.append({"op": "claim" if rng.random() < 0.85 else "fail", "pay": k})
        for _ in range(rng.randrange(0, 6)):
            r = rng.random()
            if r < 0.5:
                ops += _deliveries(rng, pairs, 1)
            elif r < 0.8:
                ops.append({"op": "complete", "node": 1, "which": rng.choice(["oldest", "all"]), "peer": 2})
            else:
                ops.append({"op": "complete", "node": 1, "which": rng.choice(["oldest", "newest", "random"]),
                            "peer": rng.choice([0, 3])})
    for _ in range(rng.randrange(0, 8)):
        r = rng.random()
        if r < 0.45:
            ops += _deliveries(rng, pairs, 1)
        elif r < 0.7:
            ops.append({"op": "complete", "node": 1, "which": rng.choice(["oldest", "all"]), "peer": 2})
        else:
            ops.append({"op": "complete", "node": 1, "which": rng.choice(["oldest", "newest", "random"]),
                        "peer": rng.choice([0, 3])})
    if rng.random() < 0.6:
        ops.append({"op": "crash", "node": 1, "mgr": rng.choice(["saved", 0, 1]),
                    "mon": rng.choice(["durable", "random", "latest"]),
                    "mon_by_peer": {"2": rng.choice(["latest", "random", "durable"])}})
    ops += _wind_down(npay, rng, [(0, 1), (1, 2), (1, 3)])
    return {"cfg": _cfg(rng, 4, edges), "ops": ops}


def inflight(rng):
    """X dies while monitor writes of its last steps are in flight and its manager was written in
    between (C10: the restarted node replays the in-flight updates it recorded, or finds them landed)."""
    n = rng.choice([2, 2, 3])
    x = rng.randrange(n)
    pairs = [(i, i + 1) for i in range(n - 1)]
    ops = []
    npay = 0
    if rng.random() < 0.4:
        return _inflight_burst(rng, n, x, pairs)
    for _ in range(rng.randrange(1, 4)):
        a = rng.randrange(n)
        b = rng.choice([j for j in range(n) if j != a])
        ops.append({"op": "send", "from": a, "to": b, "amt": rng.choice(["big", "justabove", "dust"])})
        npay += 1
    ops.append({"op": "deliver_all"})
    ops.append({"op": "persist_mode", "node": x, "mode": "inprogress"})
    for round_ in range(rng.choice([1, 1, 2])):
        r = rng.random()
        if r < 0.35:
            a = rng.randrange(n)
            b = rng.choice([j for j in range(n) if j != a])
            ops.append({"op": "send", "from": a, "to": b, "amt": rng.choice(["big", "justabove"])})
            npay += 1
        elif r < 0.8:
            ops.append({"op": "claim" if rng.random() < 0.7 else "fail", "pay": rng.randrange(npay)})
        else:
            ops.append({"op": "fee", "node": 0, "feerate": rng.choice([500, 1000, 2000])})
        dirs = [(a, b) for (a, b) in pairs] + [(b, a) for (a, b) in pairs]
        for _ in range(rng.randrange(1, 7)):
            r = rng.random()
            if r < 0.75:
                ops += _deliveries(rng, dirs, 1)
            elif r < 0.9:
                ops.append({"op": "forward", "node": rng.randrange(n)})
            else:
                ops.append({"op": "complete", "node": x, "which": rng.choice(["oldest", "newest"])})
        ops.append({"op": "crash", "node": x, "mgr": rng.choice([0, 0, 0, 1]), "mon": rng.choice(["durable", "latest", "random"])})
        for (a, b) in pairs:
            ops.append({"op": "reconnect", "a": a, "b": b})
        ops += _deliveries(rng, dirs, rng.randrange(0, 8))
        if round_ == 0 and rng.random() < 0.5:
            ops.append({"op": "persist_mode", "node": x, "mode": "inprogress"})
    ops += _wind_down(npay, rng, pairs)
    return {"cfg": _cfg(rng, n), "ops": ops}


def _inflight_burst(rng, n, x, pairs):
    """SEVERAL writes of one channel are in flight when X's manager is written (a channel stalls after one in-flight
    update, but preimages keep being handed over: X is the recipient of 2-4 payments over one channel and claims them
    back to back, or claims while the update of a revocation is in flight); X dies after a PREFIX of them has landed."""
    dirs = [(a, b) for (a, b) in pairs] + [(b, a) for (a, b) in pairs]
    ops = []
    npay = 0
    srcs = [j for j in range(n) if j != x]
    mine = []
    for _ in range(rng.choice([2, 2, 3, 4])):
        ops.append({"op": "send", "from": rng.choice(srcs) if rng.random() < 0.3 else srcs[0] if x > srcs[0] else srcs[-1], "to": x, "amt": rng.choice(["big", "justabove", "justabove"])})
        mine.append(npay); npay += 1
    if rng.random() < 0.4:
        ops.append({"op": "send", "from": x, "to": rng.choice(srcs), "amt": "big"}); npay += 1
    ops.append({"op": "deliver_all"})
    ops.append({"op": "persist_mode", "node": x, "mode": "inprogress"})
    if rng.random() < 0.4:
        # something of the peer's is in flight first (its update / revocation), the claims pile up behind it
        ops.append({"op": "send", "from": rng.choice(srcs), "to": x, "amt": "justabove"}); npay += 1
        ops += _deliveries(rng, dirs, rng.randrange(1, 5))
    for k in mine:
        if rng.random() < 0.9:
            ops.append({"op": "claim" if rng.random() < 0.85 else "fail", "pay": k})
        if rng.random() < 0.25:
            ops += _deliveries(rng, dirs, rng.randrange(1, 3))
    if rng.random() < 0.3:
        ops.append({"op": "complete", "node": x, "which": "oldest"})
    ops.append({"op": "crash", "node": x, "mgr": 0, "mon": rng.choice(["random", "random", "random", "durable", "latest"])})
    for (a, b) in pairs:
        ops.append({"op": "reconnect", "a": a, "b": b})
    ops += _deliveries(rng, dirs, rng.randrange(0, 8))
    if rng.random() < 0.3:
        # ... and once more during the recovery
        ops.append({"op": "persist_mode", "node": x, "mode": "inprogress"})
        ops += _deliveries(rng, dirs, rng.randrange(1, 6))
        ops.append({"op": "crash", "node": x, "mgr": 0, "mon": "random"})
        for (a, b) in pairs:
            ops.append({"op": "reconnect", "a": a, "b": b})
    ops += _wind_down(npay, rng, pairs)
    return {"cfg": _cfg(rng, n), "ops": ops}


def holdcell(rng):
    """One side is left waiting for a revoke_and_ack while fee updates, HTLCs at the reported limit,
    removals and crossing HTLCs from the other side pile up (holding cell / concurrent updates); then
    everything is released (C01: limits exact, no protocol error on honest traffic, both sides agree)."""
    a = rng.choice([0, 1])
    b = 1 - a
    value = rng.choice([100000, 1000000])
    cfg = {"nodes": 2, "chan_type": rng.choice(TYPES), "value": value,
           "push": rng.choice([0, value * 100, value * 500, value * 900]), "feerate": rng.choice([253, 253, 1000])}
    ops = []
    npay = 0
    inbound_to = {0: [], 1: []}
    for _ in range(rng.randrange(0, 3)):
        s_, d_ = rng.choice([(0, 1), (1, 0)])
        ops.append({"op": "send", "from": s_, "to": d_, "amt": rng.choice(["big", "justabove", "half"])})
        inbound_to[d_].append(npay)
        npay += 1
    ops.append({"op": "deliver_all"})
    if npay and rng.random() < 0.5:
        k = rng.randrange(npay)
        ops += [{"op": "claim", "pay": k}, {"op": "deliver_all"}]
    # a starts a commitment dance and is left waiting for the revocation
    ops.append({"op": "send", "from": a, "to": b, "amt": rng.choice(["big", "justabove", "dust", "half"])})
    inbound_to[b].append(npay)
    npay += 1
    ops += [{"op": "deliver", "from": a, "to": b}] * rng.randrange(0, 3)
    for _ in range(rng.randrange(1, 5)):
        r = rng.random()
        if r < 0.3:
            ops.append({"op": "fee", "node": 0, "feerate": rng.choice([253, 500, 1000, 2000, 2500, 5000, 10000])})
        elif r < 0.6:
            ops.append({"op": "send", "from": a, "to": b, "amt": rng.choice(["limit", "limit", "half", "big", "justabove", "dust-edge"])})
            inbound_to[b].append(npay)
            npay += 1
        elif r < 0.85:
            for _ in range(rng.choice([1, 2, 2, 3])):
                ops.append({"op": "send", "from": b, "to": a, "amt": rng.choice(["justabove", "justabove", "big", "limit", "dust"])})
                inbound_to[a].append(npay)
                npay += 1
        elif inbound_to[a]:
            ops.append({"op": rng.choice(["claim", "fail"]), "pay": rng.choice(inbound_to[a])})
    ops += _deliveries(rng, [(0, 1), (1, 0)], rng.randrange(0, 7))
    if rng.random() < 0.3:
        ops.append({"op": "send", "from": rng.choice([0, 1]), "to": 0, "amt": "limit"})
        ops[-1]["to"] = 1 - ops[-1]["from"]
        npay += 1
    # (timer ticks may have made a node drop a peer that owes it a response)
    ops += [{"op": "reconnect", "a": 0, "b": 1}, {"op": "deliver_all"}]
    for k in range(npay):
        ops.append({"op": "claim" if rng.random() < 0.6 else "fail", "pay": k})
        if rng.random() < 0.5:
            ops.append({"op": "deliver_all"})
    ops += [{"op": "reconnect", "a": 0, "b": 1}, {"op": "deliver_all"}, {"op": "proj", "final": True}]
    return {"cfg": cfg, "ops": ops}


def crosslimit(rng):
    """Crossing traffic plus a boundary amount: y has k HTLCs on the wire / in its holding cell that x has
    not seen when x sends exactly its reported limit (C01: limits exact -- an HTLC inside them is accepted
    by the sender AND by the peer; the two sides agree on what the next commitments contain)."""
    x = rng.choice([0, 0, 1])
    y = 1 - x
    value = rng.choice([100000, 100000, 1000000])
    cfg = {"nodes": 2, "chan_type": rng.choice(TYPES), "value": value,
           "push": rng.choice([0, value * 300, value * 500, value * 700, value * 900]), "feerate": rng.choice([253, 253, 1000, 5000])}
    if cfg["feerate"] == 5000 and cfg["push"] >= value * 900 and value == 100000:
        cfg["feerate"] = 1000      # (the funder could not afford to open such a channel)
    ops = []
    npay = 0
    if rng.random() < 0.3:
        ops += [{"op": "send", "from": rng.choice([0, 1]), "to": 0, "amt": "half"}]
        ops[-1]["to"] = 1 - ops[-1]["from"]
        npay += 1
        ops += [{"op": "deliver_all"}, {"op": "claim", "pay": 0}, {"op": "deliver_all"}]
    k = rng.choice([0, 1, 2, 2, 3, 4, 8, 9, 10])
    for _ in range(k):
        ops.append({"op": "send", "from": y, "to": x, "amt": rng.choice(["justabove", "justabove", "dust-edge", "dust"])})
        npay += 1
    ops += [{"op": "deliver", "from": y, "to": x}] * rng.choice([0, 0, 1, 2])
    ops.append({"op": "send", "from": x, "to": y, "amt": rng.choice(["limit", "limit", "limit", "limit+1", "half"])})
    npay += 1
    ops += [{"op": "deliver", "from": x, "to": y}] * rng.choice([1, 2, 2])
    ops += _deliveries(rng, [(0, 1), (1, 0)], rng.randrange(0, 5))
    ops += [{"op": "reconnect", "a": 0, "b": 1}, {"op": "deliver_all"}]
    for j in range(npay):
        ops.append({"op": "claim" if rng.random() < 0.6 else "fail", "pay": j})
    ops += [{"op": "reconnect", "a": 0, "b": 1}, {"op": "deliver_all"}, {"op": "proj", "final": True}]
    return {"cfg": cfg, "ops": ops}


def chainsettle(rng):
    """Channels of a 2-3 node line are closed unilaterally while HTLCs are pending -- by the user or because a
    node restarted from a manager older than its monitors -- and the chain resolves them: every broadcast
    transaction is mined at once, block after block, until every timelock has expired.  Judged end to end
    (C02 / C10): a payment the recipient claimed is reported sent to its (never restarted) payer and never
    failed; every payment reaches a terminal event; nothing stays pending on the channels left open."""
    n = rng.choice([2, 3, 3, 3])
    pairs = [(i, i + 1) for i in range(n - 1)]
    dirs = pairs + [(b, a) for (a, b) in pairs]
    cfg = _cfg(rng, n)
    ops = []
    npay = 0
    def send():
        nonlocal npay
        a = rng.randrange(n)
        b = rng.choice([j for j in range(n) if j != a])
        if n == 3 and rng.random() < 0.6:
            a, b = rng.choice([(0, 2), (2, 0)])
        ops.append({"op": "send", "from": a, "to": b, "amt": rng.choice(["big", "big", "big", "justabove", "dust"])})
        npay += 1
    for _ in range(rng.choice([1, 2, 3])):
        send()
        if rng.random() < 0.8:
            ops.append({"op": "deliver_all"})
    x = rng.randrange(n)
    stale = rng.random() < 0.5
    if stale:
        ops.append({"op": "save", "node": x})
    for _ in range(rng.randrange(1, 6)):
        r = rng.random()
        if r < 0.3:
            send()
        elif r < 0.6 and npay:
            ops.append({"op": "claim" if rng.random() < 0.75 else "fail", "pay": rng.randrange(npay)})
        elif r < 0.9:
            ops += _deliveries(rng, dirs, rng.randrange(1, 5))
        else:
            ops.append({"op": "deliver_all"})
    if stale:
        ops.append({"op": "crash", "node": x, "mgr": "saved", "mon": rng.choice(["latest", "latest", "random"])})
        for (a, b) in pairs:
            if rng.random() < 0.8:
                ops.append({"op": "reconnect", "a": a, "b": b})
        ops += _deliveries(rng, dirs, rng.randrange(0, 6))
    else:
        a, b = rng.choice(dirs)
        ops.append({"op": "force_close", "a": a, "b": b})
        ops += _deliveries(rng, dirs, rng.randrange(0, 4))
    # recipients make up their minds before the chain moves on (a user who has failed a payment does not claim it
    # later: after a restart from an older manager the library would show it as claimable again)
    failed = {o["pay"] for o in ops if o["op"] == "fail"}
    for k in range(npay):
        if rng.random() < 0.7:
            ops.append({"op": "claim" if rng.random() < 0.7 and k not in failed else "fail", "pay": k})
    ops += _deliveries(rng, dirs, rng.randrange(0, 6))
    if rng.random() < 0.35:
        # a user who keeps refusing payment events while the chain resolves the HTLCs, then a restart from the
        # manager written before that: the terminal events must come (again) afterwards
        z = rng.randrange(n)
        # (only for a few blocks: a refused event keeps every later event of that node waiting, and with them the
        # completion actions its channels depend on)
        ops += [{"op": "hold_events", "node": i, "on": i == z, "kinds": "failed"} for i in range(n)]
        ops.append({"op": "settle_chain", "keep_holds": True, "blocks": rng.randrange(7, 13)})
        ops.append({"op": "crash", "node": z, "mgr": rng.choice([0, 0, 1]), "mon": "latest"})
        ops += [{"op": "reconnect", "a": a, "b": b} for (a, b) in pairs]
        ops.append({"op": "hold_events", "node": z, "on": False})
        ops.append({"op": "settle_chain"})
    else:
        ops += [{"op": "hold_events", "node": i, "on": False} for i in range(n)]
        ops.append({"op": "settle_chain"})
    ops += [{"op": "proj", "final": True}]
    return {"cfg": cfg, "ops": ops}


def blockedjump(rng):
    """Monitor updates of a channel pile up behind an event the user has not handled yet (a PaymentSent whose
    handler answered ReplayEvent blocks the update of the peer's next revocation, and what follows it); then a
    preimage is learned for the same channel and its update jumps the queue (C09: updates reach Persist in
    strictly increasing, gap-free id order; nothing is released before its update is durable)."""
    x = rng.choice([0, 1])
    y = 1 - x
    ops = []
    npay = 0
    out_pays, in_pays = [], []
    for _ in range(rng.choice([1, 1, 2])):
        ops.append({"op": "send", "from": x, "to": y, "amt": rng.choice(["big", "justabove"])}); out_pays.append(npay); npay += 1
    for _ in range(rng.choice([1, 2, 2])):
        ops.append({"op": "send", "from": y, "to": x, "amt": rng.choice(["big", "justabove"])}); in_pays.append(npay); npay += 1
    ops.append({"op": "deliver_all"})
    ops.append({"op": "hold_events", "node": x, "on": True})
    if rng.random() < 0.3:
        ops.append({"op": "persist_mode", "node": x, "mode": "inprogress"})
    ops.append({"op": "claim", "pay": out_pays[0]})
    ops.append({"op": "deliver_all"})            # x: PaymentSent refused, the peer's revocation update is blocked
    for _ in range(rng.choice([1, 1, 2, 3])):
        r = rng.random()
        if r < 0.5:
            ops.append({"op": "send", "from": y, "to": x, "amt": rng.choice(["big", "justabove", "dust"])}); in_pays.append(npay); npay += 1
        elif r < 0.75 and len(out_pays) > 1:
            ops.append({"op": "claim", "pay": out_pays[1]})
        else:
            ops.append({"op": "fee", "node": 0, "feerate": rng.choice([500, 1000, 2000])})
        ops += _deliveries(rng, [(y, x), (y, x), (x, y)], rng.randrange(1, 5))
    # a preimage for the same channel arrives while updates are blocked
    for k in rng.sample(in_pays, min(len(in_pays), rng.choice([1, 2]))):
        ops.append({"op": "claim", "pay": k})
        ops += _deliveries(rng, [(y, x), (x, y)], rng.randrange(0, 3))
    if rng.random() < 0.3:
        ops.append({"op": "complete", "node": x, "which": "all"})
    ops.append({"op": "hold_events", "node": x, "on": False})
    ops += _wind_down(npay, rng, [(0, 1)])
    return {"cfg": _cfg(rng, 2), "ops": ops}


def opendisc(rng):
    """A channel is opened while the acceptor's (or the funder's) first monitor write is still in flight; the
    peers are disconnected when the funding transaction reaches its depth (C09: neither channel_ready nor the
    funding broadcast before that write is durable; afterwards exactly the held messages come out)."""
    n = 2
    ops = []
    npay = 0
    if rng.random() < 0.5:
        ops += [{"op": "send", "from": 0, "to": 1, "amt": "big"}, {"op": "deliver_all"}]
        npay += 1
    a, b = rng.choice([(0, 1), (1, 0)])
    slow = [i for i in (a, b) if rng.random() < 0.7] or [b]
    for i in slow:
        ops.append({"op": "persist_mode", "node": i, "mode": "inprogress"})
    ops.append({"op": "open_extra", "a": a, "b": b})
    # open_channel, accept_channel, funding_created, funding_signed (the handshake may also be cut short)
    hs_ = [{"op": "deliver", "from": a, "to": b}, {"op": "deliver", "from": b, "to": a}] * 2
    ops += hs_[:rng.choice([4, 4, 4, 4, 3, 2])]
    ops += _deliveries(rng, [(a, b), (b, a)], rng.randrange(0, 3))
    order = rng.random()
    if order < 0.6:
        ops.append({"op": "disconnect", "a": 0, "b": 1})
        ops.append({"op": "confirm_extra"})
        if rng.random() < 0.5:
            ops.append({"op": "complete", "node": rng.choice(slow), "which": "all"})
        ops.append({"op": "reconnect", "a": 0, "b": 1})
    else:
        ops.append({"op": "confirm_extra"})
        ops.append({"op": "disconnect", "a": 0, "b": 1})
        ops.append({"op": "reconnect", "a": 0, "b": 1})
    ops += _deliveries(rng, [(a, b), (b, a)], rng.randrange(0, 8))
    for i in slow:
        if rng.random() < 0.8:
            ops.append({"op": "complete", "node": i, "which": rng.choice(["oldest", "all"])})
        ops += _deliveries(rng, [(a, b), (b, a)], rng.randrange(0, 4))
    ops.append({"op": "confirm_extra"})
    ops += _wind_down(npay, rng, [(0, 1)])
    ops[len(ops) - 1:len(ops) - 1] = [{"op": "confirm_extra"}, {"op": "deliver_all"}]
    return {"cfg": _cfg(rng, n), "ops": ops}


def asynccross(rng):
    """x has signed and waits for the peer's revoke_and_ack; an unrelated monitor write of x is in flight; the
    peer's crossing commitment_signed (with news of its own) arrives (C05: never a second signature while the
    first is unrevoked; C09: what is held is released, in order, on completion)."""
    x = rng.choice([0, 1])
    y = 1 - x
    ops = []
    npay = 0
    in_pays = []
    for _ in range(rng.choice([1, 2])):
        ops.append({"op": "send", "from": y, "to": x, "amt": rng.choice(["big", "justabove"])}); in_pays.append(npay); npay += 1
    ops.append({"op": "deliver_all"})
    # x signs (own add or fee) and waits
    if rng.random() < 0.8 or x != 0:
        ops.append({"op": "send", "from": x, "to": y, "amt": rng.choice(["big", "justabove", "dust"])}); npay += 1
    else:
        ops.append({"op": "fee", "node": 0, "feerate": rng.choice([500, 1000, 2000])})
    # the peer's crossing update is put on the wire before it sees x's
    ops.append({"op": "send", "from": y, "to": x, "amt": rng.choice(["big", "justabove", "dust"])}); in_pays.append(npay); npay += 1
    if rng.random() < 0.4:
        ops += [{"op": "deliver", "from": x, "to": y}] * rng.choice([1, 2])
    ops.append({"op": "persist_mode", "node": x, "mode": "inprogress"})
    # an unrelated write of x goes in flight
    r = rng.random()
    if r < 0.7:
        ops.append({"op": "claim", "pay": in_pays[0]})
    elif r < 0.85:
        ops.append({"op": "fail", "pay": in_pays[0]})
    # the crossing messages arrive
    ops += [{"op": "deliver", "from": y, "to": x}] * rng.choice([1, 2, 2, 3])
    ops += _deliveries(rng, [(x, y), (y, x)], rng.randrange(0, 5))
    for _ in range(rng.randrange(1, 4)):
        ops.append({"op": "complete", "node": x, "which": rng.choice(["oldest", "oldest", "newest", "all"])})
        ops += _deliveries(rng, [(x, y), (y, x)], rng.randrange(0, 4))
    ops += _wind_down(npay, rng, [(0, 1)])
    return {"cfg": _cfg(rng, 2), "ops": ops}


def feecross(rng):
    """The funder's update_fee + commitment_signed cross the other side's own update; the node is written and
    re-read (clean reload) at every point of the exchange (C12: the copy reacts to everything that follows like
    the original: a fee update already committed to must survive)."""
    ops = []
    npay = 0
    if rng.random() < 0.5:
        ops += [{"op": "send", "from": rng.choice([0, 1]), "to": 0, "amt": "big"}]
        ops[-1]["to"] = 1 - ops[-1]["from"]
        npay += 1
        ops.append({"op": "deliver_all"})
    ops.append({"op": "fee", "node": 0, "feerate": rng.choice([500, 1000, 2000, 5000])})
    for _ in range(rng.choice([1, 1, 2])):
        ops.append({"op": "send", "from": 1, "to": 0, "amt": rng.choice(["big", "justabove", "dust"])}); npay += 1
    if rng.random() < 0.3:
        ops.append({"op": "send", "from": 0, "to": 1, "amt": "big"}); npay += 1
    k = rng.randrange(0, 9)
    seq = _deliveries(rng, [(0, 1), (1, 0), (0, 1)], 8)
    ops += seq[:k]
    ops.append({"op": "reload", "node": rng.choice([0, 1, 1])})
    ops.append({"op": "reconnect", "a": 0, "b": 1})
    ops += _deliveries(rng, [(0, 1), (1, 0)], rng.randrange(0, 6))
    if rng.random() < 0.3:
        ops.append({"op": "fee", "node": 0, "feerate": rng.choice([253, 1000, 2500])})
    if rng.random() < 0.3:
        ops.append({"op": "reload", "node": rng.choice([0, 1])})
    ops += _wind_down(npay, rng, [(0, 1)])
    return {"cfg": _cfg(rng, 2), "ops": ops}


def slots(rng):
    """One side fills the other's HTLC slots (max_accepted_htlcs, 50 in the test configuration) up to and past
    the limit, in one commitment dance or several, then both sides keep sending (C01: limits exact also when
    the binding limit is the number of HTLCs; no protocol error on honest traffic)."""
    x = rng.choice([0, 1])
    y = 1 - x
    value = 1000000
    cfg = {"nodes": 2, "chan_type": rng.choice(TYPES), "value": value, "push": value * 500, "feerate": 253}
    ops = []
    npay = 0
    total = rng.choice([47, 48, 49, 50, 51, 52])
    while npay < total:
        burst = min(total - npay, rng.choice([1, 5, 12, 25, 50]))
        for _ in range(burst):
            ops.append({"op": "send", "from": x, "to": y, "amt": rng.choice(["justabove", "justabove", "dust", "min"])})
            npay += 1
        r = rng.random()
        if r < 0.5:
            ops.append({"op": "deliver_all"})
        elif r < 0.8:
            ops += _deliveries(rng, [(x, y), (y, x)], rng.randrange(1, 6))
    for _ in range(rng.randrange(1, 4)):
        a, b = rng.choice([(x, y), (x, y), (y, x)])
        ops.append({"op": "send", "from": a, "to": b, "amt": rng.choice(["limit", "justabove", "min", "big"])})
        npay += 1
    ops.append({"op": "deliver_all"})
    order = list(range(npay))
    rng.shuffle(order)
    for k in order[:rng.randrange(1, 8)]:
        ops.append({"op": "claim" if rng.random() < 0.6 else "fail", "pay": k})
    ops.append({"op": "deliver_all"})
    ops.append({"op": "send", "from": x, "to": y, "amt": rng.choice(["limit", "justabove"])})
    npay += 1
    ops.append({"op": "deliver_all"})
    for k in range(npay):
        ops.append({"op": "claim" if rng.random() < 0.6 else "fail", "pay": k})
        if k % 10 == 9:
            ops.append({"op": "deliver_all"})
    ops += [{"op": "reconnect", "a": 0, "b": 1}, {"op": "deliver_all"}, {"op": "proj", "final": True}]
    return {"cfg": cfg, "ops": ops}


def bigclaim(rng):
    """A large inbound HTLC is claimed (or failed) while the other side's update_add_htlc / update_fee crosses
    the removal on the wire (C01: both sides agree on balances and affordability while a removal is
    acknowledged on one side only)."""
    value = rng.choice([100000, 1000000])
    cfg = {"nodes": 2, "chan_type": rng.choice(TYPES), "value": value,
           "push": rng.choice([0, 0, value * 100, value * 300]), "feerate": rng.choice([253, 1000])}
    payer = rng.choice([0, 0, 1])
    payee = 1 - payer
    ops = []
    npay = 0
    for _ in range(rng.choice([1, 1, 2])):
        ops.append({"op": "send", "from": payer, "to": payee, "amt": rng.choice(["limit", "half", "half", "big"])})
        npay += 1
        ops.append({"op": "deliver_all"})
    if payer == 1 and cfg["push"] == 0:
        ops = [{"op": "send", "from": 0, "to": 1, "amt": "half"}, {"op": "deliver_all"}, {"op": "claim", "pay": 0}, {"op": "deliver_all"}] + \
              [dict(o) for o in ops]
        npay += 1
    first = npay - 1
    ops.append({"op": "claim" if rng.random() < 0.8 else "fail", "pay": first})
    ops += [{"op": "deliver", "from": payee, "to": payer}] * rng.choice([0, 0, 1])
    for _ in range(rng.choice([1, 1, 2])):
        r = rng.random()
        if r < 0.5:
            ops.append({"op": "send", "from": payer, "to": payee, "amt": rng.choice(["limit", "big", "justabove", "half"])}); npay += 1
        elif r < 0.8:
            ops.append({"op": "fee", "node": 0, "feerate": rng.choice([500, 1000, 2500, 5000, 10000])})
        else:
            ops.append({"op": "send", "from": payee, "to": payer, "amt": rng.choice(["limit", "big", "justabove"])}); npay += 1
    ops += _deliveries(rng, [(0, 1), (1, 0)], rng.randrange(0, 6))
    ops += [{"op": "reconnect", "a": 0, "b": 1}, {"op": "deliver_all"}]
    for k in range(npay):
        ops.append({"op": "claim" if rng.random() < 0.6 else "fail", "pay": k})
    ops += [{"op": "reconnect", "a": 0, "b": 1}, {"op": "deliver_all"}, {"op": "proj", "final": True}]
    return {"cfg": cfg, "ops": ops}


def dustclose(rng):
    """Cooperative close with a final balance at, just below or just above the dust limit on either side (C01:
    both sides build the same closing transaction; the outputs are each side's irrevocable balance)."""
    value = rng.choice([100000, 1000000])
    edge = rng.choice([353, 354, 354, 354, 355, 330, 546, 1000])
    cfg = {"nodes": 2, "chan_type": rng.choice(TYPES), "value": value, "push": 0, "feerate": 253}
    ops = []
    npay = 0
    how = rng.random()
    if how < 0.4:
        cfg["push"] = edge * 1000                     # the fundee's balance from the start
    elif how < 0.8:
        ops += [{"op": "send", "from": 0, "to": 1, "amt": edge * 1000}, {"op": "deliver_all"}, {"op": "claim", "pay": 0}, {"op": "deliver_all"}]
        npay += 1
    else:
        cfg["push"] = value * 500
        ops += [{"op": "send", "from": 0, "to": 1, "amt": rng.choice([edge * 1000, 1000, 5000])}, {"op": "deliver_all"},
                {"op": "claim", "pay": 0}, {"op": "deliver_all"}]
        npay += 1
    if rng.random() < 0.3:
        ops += [{"op": "send", "from": rng.choice([0, 1]), "to": 0, "amt": rng.choice([1000, 2000, 1])}]
        ops[-1]["to"] = 1 - ops[-1]["from"]
        npay += 1
        ops += [{"op": "deliver_all"}, {"op": "claim" if rng.random() < 0.5 else "fail", "pay": npay - 1}, {"op": "deliver_all"}]
    ops.append({"op": "proj", "final": True})
    a = rng.choice([0, 1])
    ops += [{"op": "close", "a": a, "b": 1 - a}, {"op": "deliver_all"}]
    return {"cfg": cfg, "ops": ops}


def stalehold(rng):
    """A - B - C.  A forward (or B's own payment) waits in the holding cell of B-C (B is waiting for C's
    revoke_and_ack) when B's manager is written; B-C's monitor then moves on without freeing the holding
    cell; B dies and restarts from that manager: B-C is closed from the monitor and whatever sat in the
    holding cell must be failed back / reported failed, everything else must still resolve (C10)."""
    ops = []
    npay = 0
    # something C pays B (or through B) so that B can learn a preimage later
    src_in = rng.choice([(2, 1), (2, 0)])
    ops += [{"op": "send", "from": src_in[0], "to": src_in[1], "amt": rng.choice(["big", "justabove"])}, {"op": "deliver_all"}]
    pay_in = npay
    npay += 1
    # B starts a dance on B-C and is left waiting for C's revocation
    if rng.random() < 0.7:
        ops.append({"op": "send", "from": 1, "to": 2, "amt": rng.choice(["big", "justabove", "dust"])})
        npay += 1
    else:
        ops.append({"op": "send", "from": 0, "to": 2, "amt": "big"})
        npay += 1
        ops += [{"op": "deliver", "from": 0, "to": 1}] * 2 + [{"op": "deliver", "from": 1, "to": 0}] * 2 + \
               [{"op": "deliver", "from": 0, "to": 1}, {"op": "forward", "node": 1}]
    ops += [{"op": "deliver", "from": 1, "to": 2}] * rng.choice([0, 1, 2, 2])
    # what ends up in the holding cell
    for _ in range(rng.choice([1, 1, 2])):
        if rng.random() < 0.7:
            ops.append({"op": "send", "from": 0, "to": 2, "amt": rng.choice(["big", "justabove", "dust"])})
            npay += 1
            ops += [{"op": "deliver", "from": 0, "to": 1}] * 2 + [{"op": "deliver", "from": 1, "to": 0}] * 2 + \
                   [{"op": "deliver", "from": 0, "to": 1}, {"op": "forward", "node": 1}]
        else:
            ops.append({"op": "send", "from": 1, "to": 2, "amt": rng.choice(["big", "justabove"])})
            npay += 1
    ops.append({"op": "save", "node": 1})
    # B-C's monitor moves on
    r = rng.random()
    if r < 0.6:
        ops.append({"op": "claim", "pay": pay_in})
        if src_in[1] == 0:
            ops += [{"op": "deliver", "from": 0, "to": 1}] * rng.choice([1, 2])
    elif r < 0.8:
        ops += [{"op": "deliver", "from": 2, "to": 1}]
    else:
        ops.append({"op": "fail", "pay": pay_in})
    ops += _deliveries(rng, [(0, 1), (1, 0)], rng.randrange(0, 3))
    ops.append({"op": "crash", "node": 1, "mgr": rng.choice(["saved", "saved", 1]), "mon": rng.choice(["latest", "latest", "random"])})
    ops += _wind_down(npay, rng, [(0, 1), (1, 2)])
    return {"cfg": _cfg(rng, 3), "ops": ops}


def evhold(rng):
    """The user of node X answers ReplayEvent to payment events for a while (C10: persistent events are
    handed over again until handled, also across a restart; completion actions wait for the handling)."""
    n = rng.choice([2, 2, 3])
    pairs = [(i, i + 1) for i in range(n - 1)]
    dirs = pairs + [(b, a) for (a, b) in pairs]
    ops = []
    npay = 0
    for _ in range(rng.choice([1, 2, 2, 3])):
        a, b = (0, n - 1) if rng.random() < 0.7 else (n - 1, 0)
        ops.append({"op": "send", "from": a, "to": b, "amt": rng.choice(["big", "justabove", "dust"])})
        npay += 1
        if rng.random() < 0.7:
            ops.append({"op": "deliver_all"})
    x = rng.randrange(n)
    # (a manager written while the payments are still pending: restarting from it after the user has refused a
    #  terminal event leaves only the monitors to hand that event over again)
    early = rng.random() < 0.45
    if early:
        x = rng.choice([0, 0, n - 1, x])
        ops += [{"op": "deliver_all"}, {"op": "save", "node": x}]
    ops.append({"op": "hold_events", "node": x, "on": True})
    if rng.random() < 0.3:
        ops.append({"op": "hold_events", "node": rng.randrange(n), "on": True})
    ops.append({"op": "deliver_all"})
    if rng.random() < 0.2:
        ops.append({"op": "persist_mode", "node": x, "mode": "inprogress"})
    for k in range(npay):
        if rng.random() < 0.8:
            ops.append({"op": "claim" if rng.random() < 0.75 else "fail", "pay": k})
        ops += _deliveries(rng, dirs, rng.randrange(0, 8))
        if rng.random() < 0.3:
            ops.append({"op": "forward", "node": rng.randrange(n)})
    if early:
        if rng.random() < 0.7:
            ops.append({"op": "deliver_all"})
    elif rng.random() < 0.5:
        ops.append({"op": "save", "node": x})
        ops += _deliveries(rng, dirs, rng.randrange(0, 5))
    r = rng.random()
    if early:
        r *= 0.55
    if r < 0.55:
        ops.append({"op": "crash", "node": x, "mgr": "saved" if early else rng.choice([0, 0, 1, "saved"]), "mon": rng.choice(["latest", "latest", "durable", "random"])})
        if early and rng.random() < 0.4:
            # the user is still unable to take the event, and the node dies once more
            ops += [{"op": "deliver_all"}, {"op": "crash", "node": x, "mgr": "saved", "mon": "latest"}]
    elif r < 0.75:
        ops.append({"op": "reload", "node": x})
    for (a, b) in pairs:
        ops.append({"op": "reconnect", "a": a, "b": b})
    ops += _deliveries(rng, dirs, rng.randrange(0, 8))
    if rng.random() < 0.3:
        ops.append({"op": "hold_events", "node": x, "on": False})
        ops += _deliveries(rng, dirs, rng.randrange(0, 6))
    ops += _wind_down(npay, rng, pairs)
    return {"cfg": _cfg(rng, n), "ops": ops}


def staletwo(rng):
    """A - B - C.  Several HTLCs are outstanding on B-C (forwards from A and B's own payments) when B's
    manager is written; C then resolves some of them -- in particular later ones while earlier ones stay --
    and the dances complete, so B-C's monitor no longer knows them; B dies and restarts from the old
    manager: B-C is closed from the monitor, and every HTLC the monitor has forgotten must be failed back /
    reported by the restarted manager itself, since nobody else will (C10)."""
    ops = []
    kinds = []
    for _ in range(rng.choice([2, 2, 3, 4])):
        if rng.random() < 0.65:
            ops.append({"op": "send", "from": 0, "to": 2, "amt": rng.choice(["big", "justabove", "justabove", "dust"])})
            kinds.append("fwd")
            ops += [{"op": "deliver_all"}, {"op": "forward", "node": 1}, {"op": "deliver_all"}]
        else:
            ops.append({"op": "send", "from": 1, "to": 2, "amt": rng.choice(["big", "justabove"])})
            kinds.append("own")
            ops.append({"op": "deliver_all"})
    npay = len(kinds)
    ops.append({"op": "save", "node": 1})
    # C resolves a subset, biased towards the later ones
    idx = list(range(npay))
    chosen = [k for k in idx if rng.random() < (0.25 + 0.5 * k / max(1, npay - 1))] or [npay - 1]
    if len(chosen) == npay and rng.random() < 0.8:
        chosen.remove(rng.choice(chosen[:-1] or chosen))
    rng.shuffle(chosen)
    # mostly the dances on B-C run to completion link by link, WITHOUT B getting to process what it then owes
    # upstream (deliver_all would let it): the restarted manager is the only one left to do that
    dance = ([{"op": "deliver", "from": 2, "to": 1}] * 3 + [{"op": "deliver", "from": 1, "to": 2}] * 3) * 3
    linkwise = rng.random() < 0.75
    for k in chosen:
        ops.append({"op": "fail" if rng.random() < 0.7 else "claim", "pay": k})
        if rng.random() < 0.7:
            ops += dance if linkwise else [{"op": "deliver_all"}]
    r = rng.random()
    if r < 0.7:
        ops += dance if linkwise else [{"op": "deliver_all"}]
    else:
        ops += _deliveries(rng, [(2, 1), (1, 2), (1, 0), (0, 1)], rng.randrange(2, 9))
    if rng.random() < 0.3:
        ops.append({"op": "disconnect", "a": 0, "b": 1})
    ops.append({"op": "crash", "node": 1, "mgr": "saved", "mon": rng.choice(["latest", "latest", "latest", "random"])})
    ops += _wind_down(npay, rng, [(0, 1), (1, 2)])
    return {"cfg": _cfg(rng, 3), "ops": ops}


def monbcast(rng):
    """The user asks a node's ChannelMonitor (not its manager) to broadcast the latest holder commitment of a
    live channel while updates are in flight; the peer's next messages reach the manager before it has looked
    at the monitor's events.  From the broadcast on, no revocation secret may leave that node (C05)."""
    n = rng.choice([2, 2, 3])
    pairs = [(i, i + 1) for i in range(n - 1)]
    dirs = pairs + [(b, a) for (a, b) in pairs]
    ops = []
    npay = 0
    for _ in range(rng.choice([0, 1, 2])):
        a, b = rng.choice([(0, n - 1), (n - 1, 0), rng.choice(dirs)])
        ops += [{"op": "send", "from": a, "to": b, "amt": rng.choice(["big", "justabove", "dust"])}, {"op": "deliver_all"}]
        npay += 1
    a, b = rng.choice(dirs)            # a's monitor broadcasts, b is the peer
    kind = rng.random()
    if kind < 0.45:
        # b has just offered an HTLC: update_add_htlc + commitment_signed are on their way to a
        ops.append({"op": "send", "from": b, "to": a, "amt": rng.choice(["big", "justabove", "dust"])})
        npay += 1
    elif kind < 0.75:
        # a has offered one and b's revoke_and_ack + commitment_signed are on their way back
        ops.append({"op": "send", "from": a, "to": b, "amt": rng.choice(["big", "justabove"])})
        npay += 1
        ops += [{"op": "deliver", "from": a, "to": b}] * 2
    elif npay:
        # b resolves something: update_fulfill / update_fail + commitment_signed on their way to a
        ops.append({"op": rng.choice(["claim", "fail"]), "pay": rng.randrange(npay)})
        ops += _deliveries(rng, dirs, rng.randrange(0, 6))
    else:
        ops.append({"op": "fee", "node": b, "feerate": rng.choice([500, 1000])})
    ops.append({"op": "mon_broadcast", "a": a, "b": b, "then": rng.choice([1, 2, 2, 3, 4])})
    ops += _deliveries(rng, dirs, rng.randrange(0, 6))
    ops += _wind_down(npay, rng, pairs)
    return {"cfg": _cfg(rng, n), "ops": ops}


def discomplete(rng):
    """A - B - C.  The monitor write that makes B's next step possible (A's revocation committing an HTLC B is to
    forward; C's revocation removing an HTLC B is to fail back) is in flight when that peer disconnects, and is
    reported complete DURING the disconnection: what was held for it -- the forward, the failure, the claim
    bookkeeping -- is released then, not at some later unrelated completion (C09)."""
    ops = []
    npay = 0
    for _ in range(rng.choice([0, 0, 1])):
        a, b = rng.choice([(0, 2), (2, 0)])
        ops += [{"op": "send", "from": a, "to": b, "amt": rng.choice(["big", "justabove"])}, {"op": "deliver_all"}]
        npay += 1
    back = rng.random() < 0.45
    src, dst = rng.choice([(0, 2), (2, 0)])
    up = (src, 1)            # link on which B received the HTLC
    down = (1, dst)
    ops.append({"op": "send", "from": src, "to": dst, "amt": rng.choice(["big", "justabove", "dust"])})
    pay = npay
    npay += 1
    early = rng.random() < 0.3      # the write mode changes before the dance instead of just before the revocation
    if not back:
        if early:
            ops.append({"op": "persist_mode", "node": 1, "mode": "inprogress"})
        ops += [{"op": "deliver", "from": src, "to": 1}] * 2 + [{"op": "deliver", "from": 1, "to": src}] * 2
        if not early:
            ops.append({"op": "persist_mode", "node": 1, "mode": "inprogress"})
        ops += [{"op": "deliver", "from": src, "to": 1}] * rng.choice([1, 1, 2])
        peer = src
    else:
        ops.append({"op": "deliver_all"})
        ops.append({"op": rng.choice(["fail", "fail", "claim"]), "pay": pay})
        if early:
            ops.append({"op": "persist_mode", "node": 1, "mode": "inprogress"})
        ops += [{"op": "deliver", "from": dst, "to": 1}] * 2 + [{"op": "deliver", "from": 1, "to": dst}] * 2
        if not early:
            ops.append({"op": "persist_mode", "node": 1, "mode": "inprogress"})
        ops += [{"op": "deliver", "from": dst, "to": 1}] * rng.choice([1, 1, 2])
        peer = dst
    ops.append({"op": "disconnect", "a": min(1, peer), "b": max(1, peer)})
    if rng.random() < 0.25:
        ops.append({"op": "persist_mode", "node": 1, "mode": "completed"})
    ops.append({"op": "complete", "node": 1, "which": rng.choice(["all", "all", "oldest"])})
    if rng.random() < 0.5:
        ops.append({"op": "complete", "node": 1, "which": "all"})
    ops.append({"op": "forward", "node": 1})
    other = dst if peer == src else src
    ops += _deliveries(rng, [(1, other), (other, 1)], rng.randrange(0, 6))
    if rng.random() < 0.3:
        ops.append({"op": "tick", "node": 1})
    ops += _wind_down(npay, rng, [(0, 1), (1, 2)])
    return {"cfg": _cfg(rng, 3), "ops": ops}


def batchopen(rng):
    """One funding transaction for several new channels of a node (batch funding) whose initial monitor writes
    are in flight: the shared transaction is broadcast -- and channel_ready sent -- only when EVERY channel of
    the batch has its first monitor durable, whatever the order of the completions (C09)."""
    n = rng.choice([2, 3, 3])
    pairs = [(i, i + 1) for i in range(n - 1)]
    ops = []
    npay = 0
    if rng.random() < 0.4:
        ops += [{"op": "send", "from": 0, "to": n - 1, "amt": "big"}, {"op": "deliver_all"}]
        npay += 1
    a = rng.randrange(n)
    others = [i for i in range(n) if i != a]
    k = rng.choice([2, 2, 3])
    peers = [rng.choice(others) for _ in range(k)]
    if n == 3 and a == 1 and rng.random() < 0.6:
        peers = rng.sample([0, 2], 2) + peers[2:]
    ops.append({"op": "persist_mode", "node": a, "mode": "inprogress"})
    for p in set(peers):
        if rng.random() < 0.3:
            ops.append({"op": "persist_mode", "node": p, "mode": "inprogress"})
    ops.append({"op": "open_batch", "a": a, "peers": peers})
    links = [(a, p) for p in set(peers)] + [(p, a) for p in set(peers)]
    if rng.random() < 0.7:
        ops.append({"op": "deliver_all"})
    else:
        ops += _deliveries(rng, links, rng.randrange(4, 14))
    # the funder's first monitor writes complete one by one, in any order
    for _ in range(k + 1):
        ops.append({"op": "complete", "node": a, "which": rng.choice(["newest", "newest", "oldest", "random"])})
        if rng.random() < 0.5:
            ops += _deliveries(rng, links, rng.randrange(0, 4))
        if rng.random() < 0.15:
            ops.append({"op": "confirm_extra"})
    ops.append({"op": "deliver_all"})
    ops += _wind_down(npay, rng, pairs)
    ops[len(ops) - 1:len(ops) - 1] = [{"op": "confirm_extra"}, {"op": "deliver_all"}]
    return {"cfg": _cfg(rng, n), "ops": ops}


def skim(rng):
    """A - B - C, LSP style: the payment names B's intercept SCID, B's user decides where the HTLC goes and may
    keep an extra fee; C accepts the under-paying HTLC.  Nodes are re-read from what they wrote while B holds the
    intercepted HTLC and while C holds the claimable payment: B still places it, C still claims it (C12); B never
    pays out more than it took in (C02)."""
    ops = []
    npay = 0
    if rng.random() < 0.3:
        ops += [{"op": "send", "from": 2, "to": 0, "amt": "big"}, {"op": "deliver_all"}]
        npay += 1
    for _ in range(rng.choice([1, 1, 2])):
        ops.append({"op": "send", "from": 0, "to": 2, "amt": rng.choice(["big", "justabove", "justabove"]), "intercept": True})
        npay += 1
        ops.append({"op": "deliver_all"})
    r = rng.random()
    if r < 0.35:
        ops.append({"op": "reload", "node": 1})
        ops += [{"op": "reconnect", "a": 0, "b": 1}, {"op": "reconnect", "a": 1, "b": 2}, {"op": "deliver_all"}]
    elif r < 0.45:
        ops += [{"op": "save", "node": 1}, {"op": "crash", "node": 1, "mgr": "saved", "mon": "latest"}]
        ops += [{"op": "reconnect", "a": 0, "b": 1}, {"op": "reconnect", "a": 1, "b": 2}, {"op": "deliver_all"}]
    if rng.random() < 0.15:
        ops.append({"op": "intercept_fail", "node": 1})
    else:
        ops.append({"op": "intercept_fwd", "node": 1, "skim": rng.choice([0, 1, 20, 999, 5000])})
    ops.append({"op": "deliver_all"})
    r = rng.random()
    if r < 0.5:
        ops.append({"op": "reload", "node": 2})
        ops += [{"op": "reconnect", "a": 1, "b": 2}, {"op": "deliver_all"}]
    elif r < 0.6:
        ops.append({"op": "reload", "node": 1})
        ops += [{"op": "reconnect", "a": 0, "b": 1}, {"op": "reconnect", "a": 1, "b": 2}, {"op": "deliver_all"}]
    ops += _wind_down(npay, rng, [(0, 1), (1, 2)])
    ops.insert(len(ops) - 1, {"op": "intercept_fwd", "node": 1, "skim": 0})
    ops.insert(len(ops) - 1, {"op": "deliver_all"})
    c = _cfg(rng, 3)
    c["intercept"] = True
    return {"cfg": c, "ops": ops}


def asyncsign(rng):
    """The channel signer of a node is remote and slow: fetching the next per-commitment point, releasing a
    revocation secret or signing the counterparty's commitment is unavailable for a while, in any combination,
    across updates, disconnections and monitor writes.  What needs the signer is held and must come out, in
    protocol order and with the right content, once it is back (C01 / C05 / C09 judged by the same spec)."""
    n = rng.choice([2, 2, 3])
    pairs = [(i, i + 1) for i in range(n - 1)]
    dirs = pairs + [(b, a) for (a, b) in pairs]
    ops = []
    npay = 0
    off = set()
    for _ in range(rng.randrange(6, 16)):
        r = rng.random()
        if r < 0.25:
            a, b = rng.choice([(0, n - 1), (n - 1, 0)])
            ops.append({"op": "send", "from": a, "to": b, "amt": rng.choice(["big", "justabove", "dust"])})
            npay += 1
        elif r < 0.55:
            ops += _deliveries(rng, dirs, rng.randrange(1, 5))
        elif r < 0.62 and npay:
            ops.append({"op": rng.choice(["claim", "fail"]), "pay": rng.randrange(npay)})
        elif r < 0.80:
            i, j = rng.choice(dirs)
            w = rng.choice(["point", "secret", "sign", "sign"])
            ops.append({"op": "signer_off", "node": i, "peer": j, "what": w})
            off.add((i, j, w))
        elif r < 0.90 and off:
            i, j, w = rng.choice(sorted(off))
            off.discard((i, j, w))
            ops.append({"op": "signer_on", "node": i, "peer": j, "what": w})
        elif r < 0.94:
            a, b = rng.choice(pairs)
            ops += [{"op": "disconnect", "a": a, "b": b}, {"op": "reconnect", "a": a, "b": b}]
        elif r < 0.97:
            i = rng.randrange(n)
            ops.append({"op": "persist_mode", "node": i, "mode": rng.choice(["inprogress", "completed"])})
        else:
            ops.append({"op": "complete", "node": rng.randrange(n), "which": rng.choice(["oldest", "all"])})
        if rng.random() < 0.2:
            ops.append({"op": "deliver_all"})
    ops += _wind_down(npay, rng, pairs, signers=True)
    return {"cfg": _cfg(rng, n), "ops": ops}


def fwdlate(rng):
    """A - B - C.  The channel B-C is closed while a forwarded HTLC is pending and C claims it on the chain; B's
    monitor learns the preimage from the chain and B claims upstream -- but the monitor write recording that
    upstream claim is still in flight (or B's manager was written long before) when B dies.  Restarted, B has
    only its monitors to learn the preimage from again, however long ago the closed channel was resolved
    (C02: claimed upstream whenever the preimage is learned downstream, by message or from the chain; C10)."""
    ops = []
    npay = 0
    if rng.random() < 0.3:
        ops += [{"op": "send", "from": 2, "to": 0, "amt": "big"}, {"op": "deliver_all"}]
        npay += 1
    for _ in range(rng.choice([1, 1, 2])):
        ops += [{"op": "send", "from": 0, "to": 2, "amt": rng.choice(["big", "big", "justabove"])}, {"op": "deliver_all"}]
        npay += 1
    early_save = rng.random() < 0.4
    if early_save:
        ops.append({"op": "save", "node": 1})
    a, b = rng.choice([(2, 1), (1, 2)])
    ops.append({"op": "force_close", "a": a, "b": b})
    ops += _deliveries(rng, [(1, 2), (2, 1)], rng.randrange(0, 4))
    if not early_save and rng.random() < 0.5:
        ops.append({"op": "save", "node": 1})
    slow = rng.random() < 0.7
    if slow:
        ops.append({"op": "persist_mode", "node": 1, "mode": "inprogress"})
    for k in range(npay):
        if rng.random() < 0.85:
            ops.append({"op": "claim", "pay": k})
    ops.append({"op": "settle_chain", "keep_holds": True, "blocks": rng.choice([2, 4, 7, 8, 10, 14, 20]), "async": [1] if slow else []})
    crash = {"op": "crash", "node": 1, "mgr": rng.choice(["saved", "saved", 0, 0, 1]), "mon": rng.choice(["durable", "durable", "latest", "random"])}
    if rng.random() < 0.6:
        # the writes of the closed channel's monitor landed, those of the upstream channel's did not
        crash["mon_by_peer"] = {"0": "durable", "2": "latest"}
    ops.append(crash)
    ops += [{"op": "reconnect", "a": 0, "b": 1}, {"op": "reconnect", "a": 1, "b": 2}]
    ops += _deliveries(rng, [(0, 1), (1, 0)], rng.randrange(0, 6))
    ops.append({"op": "settle_chain"})
    ops += [{"op": "proj", "final": True}]
    return {"cfg": _cfg(rng, 3), "ops": ops}


def tampercs(rng):
    """A forged commitment_signed (C05: a revocation is released only for a FULLY signed newer commitment): the
    commitment it signs carries k >= 1 HTLC outputs -- some committed earlier, some new, both directions --; the
    forgery hits the commitment signature, exactly one of the HTLC signatures (every position), all of them, or
    drops one.  The receiver must refuse it: close the channel, store nothing, revoke nothing."""
    a = rng.choice([0, 1])
    b = 1 - a
    value = rng.choice([100000, 1000000])
    cfg = {"nodes": 2, "chan_type": rng.choice(TYPES), "value": value, "push": value * 500, "feerate": rng.choice([253, 253, 1000])}
    ops, npay = [], 0
    # HTLCs committed before the forged signature (they stay outputs of the forged commitment)
    for _ in range(rng.choice([0, 1, 1, 2])):
        s_, d_ = rng.choice([(a, b), (b, a)])
        ops.append({"op": "send", "from": s_, "to": d_, "amt": rng.choice(["big", "justabove", "big"])})
        npay += 1
    ops.append({"op": "deliver_all"})
    if rng.random() < 0.25:
        # a forged update_fulfill_htlc instead: a preimage that does not hash to the HTLC's payment hash (C03: a payment
        # is reported sent only for the real preimage; C05 / C01: the forgery is refused, nothing is stored)
        s_, d_ = rng.choice([(a, b), (b, a)])
        ops += [{"op": "send", "from": s_, "to": d_, "amt": rng.choice(["big", "justabove", "dust"])}, {"op": "deliver_all"},
                {"op": "claim", "pay": npay}, {"op": "tamper_fulfill", "from": d_, "to": s_}]
        npay += 1
        ops += _deliveries(rng, [(0, 1), (1, 0)], rng.randrange(0, 5))
        ops.append({"op": "deliver_all"})
        for k in range(npay - 1):
            ops += [{"op": "claim" if rng.random() < 0.5 else "fail", "pay": k}, {"op": "deliver_all"}]
        ops += [{"op": "deliver_all"}, {"op": "proj", "final": True}]
        return {"cfg": cfg, "ops": ops}
    # new ones, signed for the first time by the forged commitment_signed (sent by a)
    for _ in range(rng.choice([1, 1, 2, 3])):
        ops.append({"op": "send", "from": a, "to": b, "amt": rng.choice(["big", "justabove", "big", "dust"])})
        npay += 1
    if rng.random() < 0.3 and npay:
        ops.append({"op": rng.choice(["claim", "fail"]), "pay": 0})
    ops.append({"op": "tamper_cs", "from": a, "to": b, "mode": rng.choice([0, 1, 1, 1, 1, 2, 3]), "idx": rng.randrange(0, 6)})
    ops += _deliveries(rng, [(0, 1), (1, 0)], rng.randrange(0, 5))
    ops.append({"op": "deliver_all"})
    for k in range(npay):
        ops += [{"op": "claim" if rng.random() < 0.5 else "fail", "pay": k}, {"op": "deliver_all"}]
    ops += [{"op": "deliver_all"}, {"op": "proj", "final": True}]
    return {"cfg": cfg, "ops": ops}


def windowlimit(rng):
    """HTLCs whose amounts sit at and between the two trimming thresholds of a commitment (an output on one side's
    commitment, dust on the other's) are pending, irrevocably, when a node sends exactly its reported limit on a
    quiet channel (C01: the limits are exact -- accepted by the sender AND by the peer; every pending HTLC is
    represented exactly once, as an output or as dust)."""
    value = rng.choice([100000, 1000000])
    cfg = {"nodes": 2, "chan_type": rng.choice(["static", "static", "anchors", "zerofee"]), "value": value,
           "push": rng.choice([0, value * 100, value * 500, value * 900]), "feerate": rng.choice([253, 253, 1000, 2500])}
    ops, npay = [], 0
    x = rng.choice([0, 0, 1])
    for _ in range(rng.choice([1, 1, 2, 3, 5, 9])):
        s_ = x if rng.random() < 0.8 else 1 - x
        ops.append({"op": "send", "from": s_, "to": 1 - s_, "amt": rng.choice(["window", "window", "window", "thr-offered", "thr-received", "dust-edge"])})
        npay += 1
        if rng.random() < 0.3:
            ops.append({"op": "deliver_all"})
    ops.append({"op": "deliver_all"})
    first = npay
    for s_ in rng.choice([[x], [x], [1 - x], [x, 1 - x], [1 - x, x]]):
        ops += [{"op": "send", "from": s_, "to": 1 - s_, "amt": rng.choice(["limit", "limit", "limit", "half"])}, {"op": "deliver_all"}]
        npay += 1
    for k in list(range(first, npay)) + list(range(first)):
        ops += [{"op": "claim" if rng.random() < 0.7 else "fail", "pay": k}, {"op": "deliver_all"}]
    ops += [{"op": "deliver_all"}, {"op": "proj", "final": True}]
    return {"cfg": cfg, "ops": ops}


def openshut(rng):
    """A channel is opened while one side's first monitor write is in flight; before that write completes the peer asks
    to close the new channel (no upfront shutdown script: the `shutdown` produces a second monitor update, in flight as
    well); the writes complete in any order (C09: nothing that depends on an update -- the funding broadcast,
    channel_ready -- is released until that update AND ALL EARLIER ONES are complete)."""
    ops, npay = [], 0
    if rng.random() < 0.4:
        ops += [{"op": "send", "from": 0, "to": 1, "amt": "big"}, {"op": "deliver_all"}]
        npay += 1
    a, b = rng.choice([(0, 1), (1, 0)])
    x = rng.choice([a, b])                  # the slow side
    y = a + b - x
    ops.append({"op": "persist_mode", "node": x, "mode": "inprogress"})
    ops.append({"op": "open_extra", "a": a, "b": b})
    ops += [{"op": "deliver", "from": a, "to": b}, {"op": "deliver", "from": b, "to": a}] * 2
    if x == b and rng.random() < 0.8:
        ops += [{"op": "confirm_extra"}]
    ops += _deliveries(rng, [(a, b), (b, a)], rng.randrange(0, 3))
    ops.append({"op": "close_extra", "a": y, "b": x})
    ops += [{"op": "deliver", "from": y, "to": x}] * rng.choice([1, 2, 3])
    for _ in range(rng.choice([1, 2, 2, 3])):
        ops.append({"op": "complete", "node": x, "which": rng.choice(["newest", "newest", "random", "oldest"])})
        ops += _deliveries(rng, [(a, b), (b, a)], rng.randrange(0, 3))
        if rng.random() < 0.3:
            ops.append({"op": "confirm_extra"})
    ops.append({"op": "confirm_extra"})
    ops += _wind_down(npay, rng, [(0, 1)])
    ops[len(ops) - 1:len(ops) - 1] = [{"op": "confirm_extra"}, {"op": "deliver_all"}]
    c = _cfg(rng, 2)
    c["upfront_shutdown"] = False
    return {"cfg": c, "ops": ops}


def inflightadd(rng):
    """The revocation that makes inbound HTLCs irrevocable at X arrives while X's monitor writes are in flight: the HTLCs
    wait in X for that write (neither shown to the user nor forwarded yet); X's manager is written right there and X
    dies (C10: after the restart -- in-flight write landed or replayed -- every HTLC that was pending still resolves)."""
    n = rng.choice([2, 3, 3])
    x = 1 if n == 3 else rng.choice([0, 1])
    pairs = [(i, i + 1) for i in range(n - 1)]
    src = rng.choice([j for j in range(n) if j != x and abs(j - x) == 1])
    dst = x if (n == 2 or rng.random() < 0.35) else (2 - src if n == 3 else x)
    ops, npay = [], 0
    # optionally something X already holds for its user / its next forward (an earlier, fully processed or not yet
    # processed HTLC), and traffic the other way
    if rng.random() < 0.4:
        ops += [{"op": "send", "from": src, "to": dst, "amt": rng.choice(["big", "justabove"])}]
        npay += 1
        ops += [{"op": "deliver", "from": src, "to": x}] * 2 + [{"op": "deliver", "from": x, "to": src}] * 2 + [{"op": "deliver", "from": src, "to": x}]
        if rng.random() < 0.5:
            ops.append({"op": "forward", "node": x})
    if rng.random() < 0.3:
        ops += [{"op": "send", "from": x, "to": src, "amt": "big"}, {"op": "deliver_all"}]
        npay += 1
    k = rng.choice([1, 1, 2, 3])
    for _ in range(k):
        ops.append({"op": "send", "from": src, "to": dst, "amt": rng.choice(["big", "justabove", "dust"])})
        npay += 1
    # add(s) + commitment_signed to X, X's revocation + commitment_signed back, then src's revocation is on its way
    ops += [{"op": "deliver", "from": src, "to": x}] * (k + 1) + [{"op": "deliver", "from": x, "to": src}] * 2
    ops.append({"op": "persist_mode", "node": x, "mode": "inprogress"})
    ops += [{"op": "deliver", "from": src, "to": x}] * rng.choice([1, 1, 2])
    if rng.random() < 0.3:
        ops.append({"op": "forward", "node": x})
    if rng.random() < 0.25:
        ops.append({"op": "complete", "node": x, "which": rng.choice(["oldest", "newest"])})
    ops.append({"op": "crash", "node": x, "mgr": 0, "mon": rng.choice(["durable", "latest", "random"])})
    for (a, b) in pairs:
        ops.append({"op": "reconnect", "a": a, "b": b})
    dirs = [(a, b) for (a, b) in pairs] + [(b, a) for (a, b) in pairs]
    ops += _deliveries(rng, dirs, rng.randrange(0, 8))
    ops += _wind_down(npay, rng, pairs)
    return {"cfg": _cfg(rng, n), "ops": ops}


def badonion(rng):
    """An HTLC arrives with an onion its receiver cannot process (wrong HMAC, corrupted payload, unknown version, bogus
    ephemeral key) at the first or at a later hop: the receiver answers update_fail_malformed_htlc (relayed upstream as
    an ordinary failure); nothing else changes: commitments stay agreed, the channel stays open, the payer gets its
    failure (C01 / C02: a malformed failure is a removal like any other)."""
    n = rng.choice([2, 3, 3])
    pairs = [(i, i + 1) for i in range(n - 1)]
    ops, npay = [], 0
    if rng.random() < 0.4:
        a = rng.randrange(n)
        b = rng.choice([j for j in range(n) if j != a])
        ops += [{"op": "send", "from": a, "to": b, "amt": rng.choice(["big", "justabove", "dust"])}]
        npay += 1
        if rng.random() < 0.5:
            ops.append({"op": "deliver_all"})
    src, dst = rng.choice([(0, n - 1), (n - 1, 0)])
    ops.append({"op": "send", "from": src, "to": dst, "amt": rng.choice(["big", "justabove", "dust", "window"])})
    npay += 1
    step = 1 if dst > src else -1
    hop = rng.randrange(abs(dst - src))            # the hop in front of which the onion goes bad
    cur = src
    for _ in range(hop):
        # let the HTLC travel one hop: add + commitment dance + forward
        ops += [{"op": "deliver", "from": cur, "to": cur + step}] * 2 + [{"op": "deliver", "from": cur + step, "to": cur}] * 2
        ops += [{"op": "deliver", "from": cur, "to": cur + step}, {"op": "forward", "node": cur + step}]
        cur += step
    ops.append({"op": "corrupt_onion", "from": cur, "to": cur + step, "mode": rng.randrange(4)})
    dirs = [(a, b) for (a, b) in pairs] + [(b, a) for (a, b) in pairs]
    ops += _deliveries(rng, dirs, rng.randrange(0, 6))
    if rng.random() < 0.3:
        ops += [{"op": "disconnect", "a": min(cur, cur + step), "b": max(cur, cur + step)}, {"op": "reconnect", "a": min(cur, cur + step), "b": max(cur, cur + step)}]
    ops += _wind_down(npay, rng, pairs)
    return {"cfg": _cfg(rng, n), "ops": ops}


def cfgreload(rng):
    """The user changes the configuration of a channel (forwarding fee, CLTV delta, dust-exposure limit, close-fee
    allowance); the node is written and re-read right away, a few timer ticks later (while the previous terms are
    still honoured) and after they have expired; payments are forwarded in between (C12: the re-read node shows the same
    channel to its user and forwards on the same terms; C02: what it forwards respects its terms)."""
    n = 3
    pairs = [(0, 1), (1, 2)]
    ops, npay = [], 0
    for _ in range(rng.choice([1, 2, 3])):
        o = {"op": "config", "node": 1, "peer": rng.choice([0, 2])}
        k = rng.randrange(5)
        if k == 0:
            o["fee_base"] = rng.choice([0, 500, 2000, 5000])
        elif k == 1:
            o["fee_ppm"] = rng.choice([0, 100, 1000, 10000])
        elif k == 2:
            o["cltv_delta"] = rng.choice([48, 50, 72, 144])
        elif k == 3:
            o["max_dust_msat"] = rng.choice([5000000, 50000000, 500000000])
        else:
            o["avoid_fee"] = rng.choice([0, 1000, 5000])
        ops.append(o)
        ops.append({"op": "deliver_all"})
        if rng.random() < 0.5:
            ops += [{"op": "tick", "node": 1}] * rng.choice([1, 3, 6])
        if rng.random() < 0.7:
            ops += [{"op": "reload", "node": 1}, {"op": "reconnect", "a": 0, "b": 1}, {"op": "reconnect", "a": 1, "b": 2}, {"op": "deliver_all"}]
        if rng.random() < 0.7:
            s_, d_ = rng.choice([(0, 2), (2, 0), (0, 1), (1, 2)])
            ops += [{"op": "send", "from": s_, "to": d_, "amt": rng.choice(["big", "justabove", "dust"])}, {"op": "deliver_all"}]
            npay += 1
        if rng.random() < 0.4:
            ops += [{"op": "tick", "node": 1}] * rng.choice([2, 6])
            ops += [{"op": "reload", "node": 1}, {"op": "reconnect", "a": 0, "b": 1}, {"op": "reconnect", "a": 1, "b": 2}, {"op": "deliver_all"}]
    ops += _wind_down(npay, rng, pairs)
    return {"cfg": _cfg(rng, n), "ops": ops}


def evreload(rng):
    """A line of 2-3 nodes; the user of one (or every) node answers ReplayEvent to payment events, payments are
    sent, claimed and failed so that PaymentClaimable / PaymentClaimed / PaymentSent / PaymentFailed / PaymentForwarded
    pile up unhandled, and nodes are written and re-read (clean reloads) at every stage (C12: the manager's payments
    and events survive the round trip: the event at the head of the queue comes back as it was shown, the recent
    payments and every pending HTLC read the same, and the run goes on as a behaviour of the specification)."""
    n = rng.choice([2, 2, 3])
    pairs = [(i, i + 1) for i in range(n - 1)]
    dirs = pairs + [(b, a) for (a, b) in pairs]
    ops = []
    npay = 0
    holders = [rng.randrange(n)] if rng.random() < 0.6 else list(range(n))
    if rng.random() < 0.5:
        # some are refused from the start (PaymentClaimable of the recipient, too)
        ops += [{"op": "hold_events", "node": x, "on": True} for x in holders]
    def maybe_reload():
        if rng.random() < 0.45:
            x = rng.choice(holders + [rng.randrange(n)])
            ops.append({"op": "reload", "node": x})
            for (a, b) in pairs:
                if x in (a, b):
                    ops.append({"op": "reconnect", "a": a, "b": b})
            ops.extend(_deliveries(rng, dirs, rng.randrange(0, 6)))
    for _ in range(rng.choice([1, 2, 2, 3])):
        a, b = (0, n - 1) if rng.random() < 0.6 else (n - 1, 0)
        ops.append({"op": "send", "from": a, "to": b, "amt": rng.choice(["big", "big", "justabove", "dust"])})
        npay += 1
        ops.append({"op": "deliver_all"}) if rng.random() < 0.7 else ops.extend(_deliveries(rng, dirs, rng.randrange(2, 9)))
        maybe_reload()
    ops += [{"op": "hold_events", "node": x, "on": True} for x in holders]
    ops.append({"op": "deliver_all"})
    for k in range(npay):
        if rng.random() < 0.85:
            ops.append({"op": "claim" if rng.random() < 0.7 else "fail", "pay": k})
        ops.append({"op": "deliver_all"}) if rng.random() < 0.6 else ops.extend(_deliveries(rng, dirs, rng.randrange(0, 8)))
        if rng.random() < 0.3:
            ops.append({"op": "forward", "node": rng.randrange(n)})
        maybe_reload()
    ops.append({"op": "deliver_all"})
    maybe_reload()
    ops += [{"op": "hold_events", "node": x, "on": False} for x in range(n)]
    ops += _wind_down(npay, rng, pairs)
    return {"cfg": _cfg(rng, n), "ops": ops}


def dustflood(rng):
    """Many HTLCs below the dust limit at once, in both directions, the node's own and forwarded ones, against a small
    configured dust-exposure limit (room for 2-8 of them), across limit changes by the user, asynchronous
    persistence, disconnections and reloads (C02: the total of HTLCs without an output stays within the configured
    limit: a node does not offer one more that takes it over; C01: refusing them harms nothing)."""
    n = rng.choice([2, 3, 3])
    pairs = [(i, i + 1) for i in range(n - 1)]
    dirs = pairs + [(b, a) for (a, b) in pairs]
    ops = []
    npay = 0
    # a small limit on every node's channels (300 sat HTLCs: 2-8 of them fit)
    caps = [rng.choice([700000, 1000000, 1500000, 2500000]) for _ in range(n)]
    for i in range(n):
        for (a, b) in pairs:
            if i in (a, b):
                ops.append({"op": "config", "node": i, "peer": b if i == a else a, "max_dust_msat": caps[i]})
    if rng.random() < 0.3:
        ops.append({"op": "persist_mode", "node": rng.randrange(n), "mode": "inprogress"})
    for rnd in range(rng.choice([1, 2, 2, 3])):
        for _ in range(rng.randrange(3, 14)):
            a, b = rng.choice([(0, n - 1), (0, n - 1), (n - 1, 0), (0, 1), (1, 0), (n - 1, n - 2)])
            if a == b:
                continue
            ops.append({"op": "send", "from": a, "to": b, "amt": rng.choice(["dust", "dust", "dust", "dust-edge", "justabove"])})
            npay += 1
            r = rng.random()
            if r < 0.35:
                ops += _deliveries(rng, dirs, rng.randrange(1, 6))
            elif r < 0.5:
                ops.append({"op": "deliver_all"})
            if rng.random() < 0.15:
                ops.append({"op": "forward", "node": rng.randrange(n)})
        r = rng.random()
        if r < 0.2:
            i = rng.randrange(n)
            a, b = rng.choice([p for p in pairs if i in p])
            ops.append({"op": "config", "node": i, "peer": b if i == a else a, "max_dust_msat": rng.choice([400000, 700000, 3000000])})
        # (no fee rises here: a fundee with a small FIXED limit closes the channel when the funder's update_fee turns pending
        #  HTLCs into dust beyond that limit -- "may over-expose us to dust-in-flight" --, which is the library's documented
        #  self-protection against a limit the funder cannot know, not a disagreement)
        elif r < 0.5:
            a, b = rng.choice(pairs)
            ops += [{"op": "disconnect", "a": a, "b": b}, {"op": "reconnect", "a": a, "b": b}]
        elif r < 0.6:
            x = rng.randrange(n)
            ops.append({"op": "reload", "node": x})
            ops += [{"op": "reconnect", "a": a, "b": b} for (a, b) in pairs if x in (a, b)]
        ops += _deliveries(rng, dirs, rng.randrange(0, 10))
        if rng.random() < 0.5:
            ops.append({"op": "deliver_all"})
            for k in rng.sample(range(npay), min(npay, rng.randrange(0, 5))):
                ops.append({"op": "claim" if rng.random() < 0.6 else "fail", "pay": k})
                ops += _deliveries(rng, dirs, rng.randrange(0, 4))
    ops += _wind_down(npay, rng, pairs)
    return {"cfg": _cfg(rng, n), "ops": ops}


def closecross(rng):
    """A cooperative close is asked for (by either side, possibly by both) while the channel is busy: adds, removals and
    fee updates on the wire, parked in a holding cell behind an awaited revocation, or held behind an in-flight monitor
    write; the peer's shutdown crosses them in every order (C01: honest operation never ends in an error, a panic or a
    force-closure; the close completes once the HTLCs are gone and pays each side its final balance less the fee)."""
    cfg = _cfg(rng, 2)
    dirs = [(0, 1), (1, 0)]
    ops = []
    npay = 0
    # some settled history, some pending HTLCs
    for _ in range(rng.choice([0, 1, 1, 2])):
        a = rng.choice([0, 1])
        ops += [{"op": "send", "from": a, "to": 1 - a, "amt": rng.choice(["big", "justabove", "dust"])}, {"op": "deliver_all"}]
        npay += 1
    settled = 0
    for k in range(npay):
        if rng.random() < 0.5:
            ops += [{"op": "claim" if rng.random() < 0.7 else "fail", "pay": k}, {"op": "deliver_all"}]
    if rng.random() < 0.25:
        ops.append({"op": "persist_mode", "node": rng.choice([0, 1]), "mode": "inprogress"})
    closed = set()
    steps = rng.randrange(3, 9)
    close_at = sorted(rng.sample(range(steps), rng.choice([1, 1, 2])))
    for i in range(steps):
        if i in close_at:
            a = rng.choice([x for x in (0, 1) if x not in closed] or [0])
            ops.append({"op": "close", "a": a, "b": 1 - a})
            closed.add(a)
        else:
            r = rng.random()
            if r < 0.4:
                a = rng.choice([0, 1])
                ops.append({"op": "send", "from": a, "to": 1 - a, "amt": rng.choice(["big", "justabove", "dust", "half"])})
                npay += 1
            elif r < 0.7 and not closed:
                # (a fee change makes the node's timer tick: none once a close is under way, see below)
                ops.append({"op": "fee", "node": 0, "feerate": rng.choice([300, 500, 1000, 2000, 253])})
            elif npay:
                # (no timer ticks here: with messages deliberately left undelivered, two ticks make the library give up on the
                #  peer -- "closing_signed negotiation failed to finish within two timer ticks" --, its documented timeout)
                ops.append({"op": "claim" if rng.random() < 0.7 else "fail", "pay": rng.randrange(npay)})
        ops += _deliveries(rng, dirs, rng.choice([0, 0, 1, 1, 2, 3]))
        if rng.random() < 0.1:
            ops.append({"op": "complete", "node": rng.choice([0, 1]), "which": rng.choice(["oldest", "all"])})
    if rng.random() < 0.2:
        ops += [{"op": "disconnect", "a": 0, "b": 1}, {"op": "reconnect", "a": 0, "b": 1}]
    ops += _wind_down(npay, rng, [(0, 1)])
    return {"cfg": cfg, "ops": ops}


def pausetwice(rng):
    """A - B - C.  What B holds for an in-flight monitor write of a channel (a fail-back / a forward / a finalized claim
    made possible by the peer's revocation) must survive the channel being paused AGAIN before that write completes: a
    second and third update of the same channel (claim_funds of another payment over it -- a preimage update --, a peer's
    further messages already on the wire, a fee update) is handed over meanwhile, and the completions arrive in any order
    (C09: once completions arrive exactly the held messages / actions are released -- none is lost)."""
    ops = []
    npay = 0
    x = 1
    side = rng.choice([0, 2])                  # the channel of B that is paused twice: B - side
    other = 2 - side
    # payments whose resolution at `side` B will hold: forwards from the other end through B (failed or claimed by `side`),
    # and B's own payments to `side`
    held = []
    for _ in range(rng.choice([1, 1, 2])):
        src = other if rng.random() < 0.7 else 1
        ops.append({"op": "send", "from": src, "to": side, "amt": rng.choice(["big", "justabove", "dust"])})
        held.append(npay); npay += 1
    # payments B can claim over the same channel (B is the recipient), and payments from `side` through B
    mine = []
    for _ in range(rng.choice([1, 2, 2])):
        ops.append({"op": "send", "from": side, "to": 1 if rng.random() < 0.75 else other, "amt": rng.choice(["big", "justabove"])})
        mine.append(npay); npay += 1
    ops.append({"op": "deliver_all"})
    ops.append({"op": "forward", "node": 1})
    ops.append({"op": "deliver_all"})
    # `side` resolves the held ones; the dance runs up to (not including) the revocation that makes the removal irrevocable
    for k in held:
        ops.append({"op": rng.choice(["fail", "fail", "claim"]), "pay": k})
    ops += [{"op": "deliver", "from": side, "to": 1}] * rng.choice([2, 3, 4])
    ops += [{"op": "deliver", "from": 1, "to": side}] * 2
    ops.append({"op": "persist_mode", "node": 1, "mode": "inprogress"})
    ops += [{"op": "deliver", "from": side, "to": 1}] * rng.choice([1, 1, 2])      # the revocation: its write is in flight
    # ... and the channel is paused again
    for _ in range(rng.choice([1, 1, 2])):
        r = rng.random()
        if r < 0.6 and mine:
            ops.append({"op": "claim" if rng.random() < 0.85 else "fail", "pay": mine.pop(0)})
        elif r < 0.8:
            ops.append({"op": "send", "from": side, "to": 1, "amt": "justabove"}); npay += 1
            ops += [{"op": "deliver", "from": side, "to": 1}] * 2
        else:
            ops += [{"op": "deliver", "from": side, "to": 1}] * rng.choice([1, 2])
    order = rng.random()
    if order < 0.4:
        ops.append({"op": "complete", "node": 1, "which": "newest"})
        ops.append({"op": "complete", "node": 1, "which": "all"})
    elif order < 0.8:
        ops.append({"op": "complete", "node": 1, "which": "oldest"})
        ops += _deliveries(rng, [(1, side), (side, 1), (1, other), (other, 1)], rng.randrange(0, 4))
        ops.append({"op": "complete", "node": 1, "which": "all"})
    else:
        ops.append({"op": "complete", "node": 1, "which": "all"})
    ops.append({"op": "forward", "node": 1})
    ops += _deliveries(rng, [(1, side), (side, 1), (1, other), (other, 1)], rng.randrange(0, 8))
    ops += _wind_down(npay, rng, [(0, 1), (1, 2)])
    return {"cfg": _cfg(rng, 3), "ops": ops}


def downclose(rng):
    """A node's process is DOWN (`kill` ... `crash`) while the world moves on: its peers close channels with it
    unilaterally, blocks are mined, recipients claim on chain.  The node dies with an exchange on one of its links
    half done (every cut of add / commitment_signed / revoke_and_ack / commitment_signed / revoke_and_ack) and,
    usually, with a further update of that link handed to a monitor write that never landed; its manager recorded
    the write as in flight.  After the restart the application first brings monitors and manager up to the chain
    tip -- they learn of the close there -- and only then does the manager replay what it had recorded (C02 / C10:
    an HTLC that is an output of the commitment that confirmed is failed backwards only when it can no longer be
    claimed; a payment the recipient claimed -- by message or on chain -- is reported sent, never failed)."""
    n = rng.choice([2, 3, 3, 3, 3])
    x = 1 if n == 3 and rng.random() < 0.75 else rng.randrange(n)
    pairs = [(i, i + 1) for i in range(n - 1)]
    dirs = pairs + [(b, a) for (a, b) in pairs]
    ops = []
    npay = 0
    ends = [(0, n - 1), (n - 1, 0)] if n == 3 else [(0, 1), (1, 0)]

    def walk(a, b, cut=None):
        """one payment a -> b, its exchanges done link by link; the LAST link's exchange is cut after `cut` messages"""
        nonlocal npay
        ops.append({"op": "send", "from": a, "to": b, "amt": rng.choice(["big", "big", "justabove"])})
        npay += 1
        step = 1 if b > a else -1
        hops = list(range(a, b, step))
        for h in hops:
            u, v = h, h + step
            natural = [(u, v), (u, v), (v, u), (v, u), (u, v)]
            k = len(natural) if (h != hops[-1] or cut is None) else cut
            for (f, t) in natural[:k]:
                ops.append({"op": "deliver", "from": f, "to": t})
            if k < len(natural):
                return
            if v != b:
                ops.append({"op": "forward", "node": v})

    for _ in range(rng.choice([0, 0, 1])):
        a, b = rng.choice(ends)
        walk(a, b)
        ops.append({"op": "deliver_all"})
    # the exchange that is half done when X dies (X is on its last link, as sender or as receiver)
    a, b = rng.choice(ends)
    if n == 3 and x == 1:
        a, b = rng.choice([(0, 2), (2, 0)])
    walk(a, b, cut=rng.randrange(0, 6))
    if rng.random() < 0.8:
        ops.append({"op": "persist_mode", "node": x, "mode": "inprogress"})
        r = rng.random()
        if r < 0.6:
            a2, b2 = (a, b) if rng.random() < 0.7 else rng.choice(ends)
            walk(a2, b2, cut=rng.randrange(0, 4))
        elif r < 0.8 and npay > 1:
            ops.append({"op": "claim" if rng.random() < 0.7 else "fail", "pay": 0})
            ops += _deliveries(rng, dirs, rng.randrange(0, 4))
        else:
            ops.append({"op": "fee", "node": 0, "feerate": rng.choice([500, 1000])})
            ops += _deliveries(rng, dirs, rng.randrange(0, 4))
        if rng.random() < 0.2:
            ops.append({"op": "complete", "node": x, "which": "oldest"})
    ops.append({"op": "kill", "node": x})
    peers = [j for j in range(n) if abs(j - x) == 1]
    closers = [j for j in peers if rng.random() < 0.8]
    rng.shuffle(closers)
    decided = set()
    for j in closers:
        ops.append({"op": "force_close", "a": j, "b": x})
    def decide(k):
        # a recipient that claims does so through its manager and, where its channel is being resolved on chain, by
        # handing the preimage to its monitor (an HTLC its manager does not hold yet may be an output of the
        # commitment that confirmed)
        decided.add(k)
        if rng.random() < 0.8:
            ops.append({"op": "claim", "pay": k})
            ops.append({"op": "claim_onchain", "pay": k})
        else:
            ops.append({"op": "fail", "pay": k})
    for _ in range(rng.choice([0, 1, 1, 2, 3, 6, 7, 8])):
        ops.append({"op": "mine"})
        if rng.random() < 0.25:
            k = rng.randrange(npay)
            if k not in decided:
                decide(k)
    ops.append({"op": "crash", "node": x, "mgr": rng.choice([0, 0, 0, 1]), "mon": rng.choice(["durable", "durable", "random", "latest"])})
    for (u, v) in pairs:
        if rng.random() < 0.85:
            ops.append({"op": "reconnect", "a": u, "b": v})
    ops += _deliveries(rng, dirs, rng.randrange(0, 6))
    ops += [{"op": "mine"}] * rng.choice([0, 0, 1, 6, 7])
    if rng.random() < 0.5:
        ops.append({"op": "deliver_all"})
    for k in range(npay):
        if k not in decided and rng.random() < 0.85:
            decide(k)
    ops += _deliveries(rng, dirs, rng.randrange(0, 6))
    ops += [{"op": "hold_events", "node": i, "on": False} for i in range(n)]
    ops.append({"op": "settle_chain"})
    ops += [{"op": "proj", "final": True}]
    cfg = _cfg(rng, n)
    return {"cfg": cfg, "ops": ops}


FAMILIES = {"downclose": downclose, "pausetwice": pausetwice, "closecross": closecross, "dustflood": dustflood, "evreload": evreload, "cfgreload": cfgreload, "badonion": badonion, "inflightadd": inflightadd, "openshut": openshut, "windowlimit": windowlimit, "tampercs": tampercs, "fwdlate": fwdlate, "asyncsign": asyncsign, "skim": skim, "batchopen": batchopen, "discomplete": discomplete, "monbcast": monbcast, "staletwo": staletwo, "bigclaim": bigclaim, "dustclose": dustclose, "slots": slots, "asynccross": asynccross, "blockedjump": blockedjump, "feecross": feecross, "opendisc": opendisc, "chainsettle": chainsettle, "crosslimit": crosslimit, "evhold": evhold, "failwin": failwin, "fanin": fanin, "inflight": inflight, "holdcell": holdcell, "stalehold": stalehold}


def make(rng, family, count):
    return [FAMILIES[family](rng) for _ in range(count)]
