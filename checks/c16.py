"""C16 -- returned routes are valid for the graph and for the caller's constraints.

The router is one pure function; the TLA+ model is a *validity predicate* and an *existence
oracle* (spec/Router.tla) that TLC evaluates on recorded results of the real
`lightning::routing::router::find_route` (level: exploration, TLA+ predicate as oracle).

1. TLC enumerates the structured cases of spec/RouterGen.tla (9 small topologies x parameter
   classes around the boundaries x amounts; among them single paths of 4-6 hops with an
   htlc_minimum raise at every hop position against proportional fees / limits at every other
   position, and retries whose previously_failed_channels name announced channels, route-hint
   hops and unannounced first hops) and prints them as driver scripts.
2. The Rust engine `router` builds a real NetworkGraph / first hops / route hints / scorer state for
   every TLC case and for seeded random cases (random graphs; every fifth a long single path with
   shaped htlc_minimum / htlc_maximum values), calls find_route and records graph (as read back
   from the NetworkGraph), request and result.
3. TLC validates every record (spec/RouterTrace.tla):  Ok(r) => ValidRoute(g, req, r),
   Err => ~MustNotFail(g, req).  A falsified record (or a panic of find_route) is a violation.
4. Binding self-test: recorded accepted results are corrupted (one conjunct each) and must be
   rejected by TLC with exactly that conjunct.
"""
import json, os, random, re, time, copy, collections
from concurrent.futures import ThreadPoolExecutor
import vlib

PID = "C16"
CHUNK = 25000
KNOWN_FEE = "FeesPaid_LastHopRaiseNotCharged"
KNOWN_PANIC = "panic_used_liquidity_after_last_hop_raise"
KNOWN_PANIC_ROUNDING = "panic_max_final_value_msat_rounding"

_RE_BAD = re.compile(r'^<<"BAD", (\d+), \{(.*)\}>>\s*$', re.M)
_RE_CLS = re.compile(r'^<<"(OKCLASS|ERRCLASS)", (\d+), "(\w+)">>\s*$', re.M)


def tlc_collect(path, tag, classify=True, timeout=1500):
    """One TLC pass over an NDJSON trace in collect mode. Returns (bad {run: set(names)}, classes
    {run: class})."""
    out = vlib._tlc_trace_once(PID, "RouterTrace", "RouterTrace.cfg", path, timeout,
                               {"C16_COLLECT": "1", "C16_CLASSIFY": "1" if classify else "0"}, tag)
    if "Model checking completed. No error has been found" not in out:
        vlib.log(out[-3000:])
        raise vlib.ToolError("TLC trace validation error (RouterTrace, %s)" % tag)
    bad = {}
    for m in _RE_BAD.finditer(out):
        names = set(x.strip().strip('"') for x in m.group(2).split(",") if x.strip())
        bad[int(m.group(1))] = names
    cls = {int(m.group(2)): m.group(3) for m in _RE_CLS.finditer(out)}
    return bad, cls


def tlc_strict(rec, wd, tag):
    """Strict-mode confirmation on a single record: INVARIANT NoViolation / trace rejection."""
    p = os.path.join(wd, "strict-%s.ndjson" % tag)
    with open(p, "w") as f:
        f.write(json.dumps(rec) + "\n")
    _, fails = vlib.validate_trace(PID, "RouterTrace", "RouterTrace.cfg", p, max_failures=1, tag="s" + tag,
                                   env={"C16_COLLECT": "0", "C16_CLASSIFY": "0"})
    return fails[0] if fails else None


def validate(trace_path, wd, tag, parallel=3):
    with open(trace_path) as f:
        lines = [ln for ln in f if ln.strip()]
    # evenly sized chunks of at most CHUNK records, at least one per parallel TLC
    nchunks = max(parallel, -(-len(lines) // CHUNK))
    size = max(1, -(-len(lines) // nchunks))
    chunks = []
    for i in range(0, len(lines), size):
        p = "%s.part%d" % (trace_path, i // size)
        with open(p, "w") as f:
            f.writelines(lines[i:i + size])
        chunks.append(p)
    bad, cls = {}, {}
    with ThreadPoolExecutor(max_workers=parallel) as ex:
        for b, c in ex.map(lambda a: tlc_collect(a[1], "%s%d" % (tag, a[0])), list(enumerate(chunks))):
            bad.update(b)
            cls.update(c)
    for p in chunks:
        os.remove(p)
    return len(lines), bad, cls


def known_key(rec, names):
    """Canonical key of the recorded findings (KNOWN_FINDINGS.jsonl); None for anything else.
    A panic is recognised by its message AND the function it came from (frames[0], taken from the
    backtrace by the engine) AND, for the used-liquidity assertion, the precondition of a last-hop
    raise: a usable channel into the payee whose htlc_minimum a part of the payment can fall below."""
    # both names are manifestations of one root cause and share one record / key
    if names and names <= {KNOWN_FEE, "HtlcMaxAndCapacity_LastHopRaiseNotCharged"}:
        return KNOWN_FEE
    if names != {"Panic"}:
        return None
    msg, frames = rec.get("msg", ""), rec.get("frames") or [""]
    g, req = rec["g"], rec["req"]
    if "used_liquidity_msat <= hop_max_msat" in msg and frames[0].endswith("router::get_route"):
        mpp = req["mpp"] and req["max_paths"] > 1
        floor = 1 if mpp else max(1, req["amt"] - g["n"] * (2 + req["amt"] // 100000))
        if any(e["dst"] == g["payee"] and e["en"] and e["min"] >= floor for e in g["edges"]):
            return KNOWN_PANIC
    if msg == "assertion failed: false" and frames[0].endswith("PaymentPath::max_final_value_msat"):
        return KNOWN_PANIC_ROUNDING
    return None


def carried(path, i):
    return sum(h["fee"] for h in path[i:])


def edge_index(g, u, v, scid):
    """Index of the edge a hop refers to (mirror of Router!EdgeIdx, used only to BUILD corruptions)."""
    kinds = ["first", "hint"] if (u == g["payer"] and g["fh"]) else ["pub", "hint"]
    for kind in kinds:
        for k, e in enumerate(g["edges"]):
            if e["scid"] == scid and e["src"] == u and e["dst"] == v and e["kind"] == kind:
                return k
    return None


def path_edges(r, p):
    g = r["g"]
    return [edge_index(g, (g["payer"] if i == 0 else p[i - 1]["node"]), h["node"], h["scid"]) for i, h in enumerate(p)]


def plain(r):
    """Ok record without any raise: exact delivery, every used channel known with htlc_minimum <= 1."""
    if sum(p[-1]["fee"] for p in r["res"]["paths"]) != r["req"]["amt"]:
        return False
    for p in r["res"]["paths"]:
        ks = path_edges(r, p)
        if any(k is None or r["g"]["edges"][k]["min"] > 1 for k in ks):
            return False
    return True


def selftest(wd, recs, cls):
    """Corrupt accepted records, one conjunct each; TLC must flag each with that conjunct."""
    muts = []   # (name, expected conjunct, record)

    def add(name, expect, rec):
        r = copy.deepcopy(rec)
        r["run"] = len(muts) + 1
        r["id"] = "selftest-" + name
        muts.append((name, expect, r))
        return r

    def first(pred):
        for r in recs:
            if r["ev"] == "case" and r["res"]["ok"] and pred(r):
                return r
        return None

    def total_fees(r):
        return sum(sum(h["fee"] for h in p[:-1]) for p in r["res"]["paths"])

    multi = first(lambda r: len(r["res"]["paths"]) == 1 and len(r["res"]["paths"][0]) >= 3
                  and r["req"]["amt"] > 1 and plain(r)
                  and all(r["g"]["edges"][k]["base"] > 0 for k in path_edges(r, r["res"]["paths"][0])[1:]))
    if multi is None:
        raise vlib.ToolError("binding self-test: no suitable accepted multi-hop record")
    p0 = multi["res"]["paths"][0]
    g0 = multi["g"]
    k_last = edge_index(g0, p0[-2]["node"], p0[-1]["node"], p0[-1]["scid"])
    k_mid = edge_index(g0, p0[0]["node"], p0[1]["node"], p0[1]["scid"])
    add("original", None, multi)
    add("fee-zeroed", "FeesPaid", multi)["res"]["paths"][0][0]["fee"] = 0
    add("fee-minus-one", "FeesPaid", multi)["res"]["paths"][0][0]["fee"] = p0[0]["fee"] - 1
    add("unknown-channel", "Connected", multi)["res"]["paths"][0][1]["scid"] = 9999
    add("wrong-node", "Connected", multi)["res"]["paths"][0][-1]["node"] = g0["payer"]
    add("under-delivery", "DeliversEnough", multi)["res"]["paths"][0][-1]["fee"] = multi["req"]["amt"] - 1
    add("final-cltv-short", "CltvDeltas", multi)["res"]["paths"][0][-1]["cltv"] = multi["req"]["final_cltv"] - 1
    add("hop-cltv-short", "CltvDeltas", multi)["g"]["edges"][k_last]["cltv"] = p0[-2]["cltv"] + 1
    r = add("duplicate-path", "NoSuperfluousPart", multi)
    r["res"]["paths"].append(copy.deepcopy(r["res"]["paths"][0]))
    r["req"]["max_paths"] = 10
    add("over-htlc-max", "HtlcMaxAndCapacity", multi)["g"]["edges"][k_mid]["hmax"] = carried(p0, 1) - 1
    r = add("over-capacity", "HtlcMaxAndCapacity", multi)
    r["g"]["edges"][k_mid]["cap"] = carried(p0, 1) - 1
    add("under-htlc-min", "HtlcMin", multi)["g"]["edges"][k_mid]["min"] = carried(p0, 1) + 1
    add("disabled-channel", "Enabled", multi)["g"]["edges"][k_mid]["en"] = False
    add("excluded-channel", "NotExcluded", multi)["req"]["failed"] = [p0[1]["scid"]]
    add("too-many-paths", "MaxPaths", multi)["req"]["max_paths"] = 0
    add("fee-limit", "FeeLimit", multi)["req"]["max_fee"] = total_fees(multi) - 1
    add("cltv-limit", "CltvLimit", multi)["req"]["max_cltv"] = sum(h["cltv"] for h in p0) - 1
    add("length-limit", "LengthLimit", multi)["req"]["max_len"] = len(p0) - 1
    # excluded channels that only the caller knows: a route-hint hop / an unannounced first hop the route
    # uses is put on the request's previously_failed_channels
    def kinds_used(r):
        out = []
        for p in r["res"]["paths"]:
            for k, h in zip(path_edges(r, p), p):
                if k is not None:
                    e = r["g"]["edges"][k]
                    announced = any(x["kind"] == "pub" and x["scid"] == e["scid"] for x in r["g"]["edges"])
                    out.append((e["kind"], announced, h["scid"]))
        return out
    via_hint = first(lambda r: any(k == "hint" and not a for k, a, _ in kinds_used(r)))
    via_priv = first(lambda r: any(k == "first" and not a for k, a, _ in kinds_used(r)))
    if via_hint is None or via_priv is None:
        raise vlib.ToolError("binding self-test: no accepted route over a route-hint hop / an unannounced first hop")
    add("hint-original", None, via_hint)
    add("excluded-hint-hop", "NotExcluded", via_hint)["req"]["failed"] = \
        [7, [s for k, a, s in kinds_used(via_hint) if k == "hint" and not a][0]]
    add("priv-original", None, via_priv)
    add("excluded-unannounced-first-hop", "NotExcluded", via_priv)["req"]["failed"] = \
        [[s for k, a, s in kinds_used(via_priv) if k == "first" and not a][0]]
    # a raise in the MIDDLE of a long path (hop j carries exactly its htlc_minimum and node_j keeps more than
    # its policy asks): an upstream forwarder with a proportional fee is paid as if the raise did not pass
    # through it
    def mid_raise(r):
        if len(r["res"]["paths"]) != 1 or len(r["res"]["paths"][0]) < 4:
            return None
        p = r["res"]["paths"][0]
        ks = path_edges(r, p)
        if None in ks or p[-1]["fee"] != r["req"]["amt"]:      # (no raise at the last hop on top)
            return None
        E = r["g"]["edges"]
        fee = lambda k, a: E[k]["base"] + a * E[k]["prop"] // 1000000
        for j in range(2, len(p) - 1):
            raised = p[j]["fee"] - fee(ks[j + 1], carried(p, j + 1))
            if raised <= 0 or carried(p, j) != E[ks[j]]["min"]:
                continue
            for i in range(0, j - 1):         # node_i is paid p[i].fee for channel i+1 (upstream of channel j)
                low = fee(ks[i + 1], carried(p, i + 1) - raised)
                if E[ks[i + 1]]["prop"] > 0 and low < fee(ks[i + 1], carried(p, i + 1)) <= p[i]["fee"]:
                    return (i, low)
        return None
    raised = first(lambda r: mid_raise(r) is not None)
    if raised is None:
        raise vlib.ToolError("binding self-test: no accepted long route with a mid-path htlc_minimum raise")
    i, low = mid_raise(raised)
    add("mid-raise-original", None, raised)
    add("mid-raise-not-charged-upstream", "FeesPaid", raised)["res"]["paths"][0][i]["fee"] = low
    # two parts that share a channel: shrink the shared channel below the joint amount
    shared = None
    for r in recs:
        if r["ev"] == "case" and r["res"]["ok"] and len(r["res"]["paths"]) >= 2 and plain(r):
            use = collections.defaultdict(list)
            for p in r["res"]["paths"]:
                for i, k in enumerate(path_edges(r, p)):
                    use[k].append(carried(p, i))
            ks = [k for k, v in use.items() if len(v) >= 2 and min(v) >= 2]
            if ks:
                shared = (r, ks[0], use[ks[0]])
                break
    if shared is None:
        raise vlib.ToolError("binding self-test: no accepted multi-part route with a shared channel")
    add("shared-original", None, shared[0])
    r = add("shared-channel-overused", "HtlcMaxAndCapacity", shared[0])
    r["g"]["edges"][shared[1]]["hmax"] = sum(shared[2]) - 1          # each part alone still fits
    r["g"]["edges"][shared[1]]["cap"] = -1
    # Err arm: an accepted Ok record for which the premise of the last sentence holds, flipped to Err
    armed = first(lambda r: cls.get(r["run"]) == "premise_holds")
    if armed is None:
        raise vlib.ToolError("binding self-test: no record with the existence premise")
    r = add("ok-flipped-to-err", "FailsThoughSinglePathSuffices", armed)
    r["res"] = {"ok": False, "err": "Failed to find a path to the given destination", "blinded": False, "paths": []}
    r = add("panic", "Panic", armed)
    r["ev"] = "panic"
    r["msg"] = "selftest"
    p = os.path.join(wd, "selftest.ndjson")
    with open(p, "w") as f:
        for _, _, r in muts:
            f.write(json.dumps(r) + "\n")
    bad, _ = tlc_collect(p, "st", classify=False)
    wrong = []
    for name, expect, r in muts:
        got = bad.get(r["run"], set())
        if expect is None:
            if got:
                wrong.append((name, "accepted original flagged", sorted(got)))
        elif expect not in got:
            wrong.append((name, expect, sorted(got)))
    if wrong:
        raise vlib.ToolError("binding self-test failed: %s" % wrong)
    # strict mode must stop on a corrupted record as well (invariant) and on a panic (rejection)
    f1 = tlc_strict(muts[1][2], wd, "fee")
    f2 = tlc_strict(muts[-1][2], wd, "panic")
    if not f1 or f1["kind"] != "invariant" or not f2 or f2["kind"] != "rejected":
        raise vlib.ToolError("binding self-test: strict mode did not stop (%s, %s)" % (f1 and f1["kind"], f2 and f2["kind"]))
    return {"mutations": len([m for m in muts if m[1]]), "rejected": len([m for m in muts if m[1]]),
            "conjuncts": sorted({m[1] for m in muts if m[1]})}


def run(tier, seed):
    t0 = time.time()
    wd = vlib.workdir(PID)
    bins = vlib.build(["router"])
    thorough = tier == "thorough"
    rng = random.Random(seed)

    # ---- 1. case generation by TLC
    r = vlib.tlc_mc(PID, "RouterGen", "RouterGen.cfg", workers=12, timeout=900)
    if r["violated"]:
        raise vlib.ToolError("RouterGen: unexpected %s" % r["violated"])
    vlib.require_coverage(r, ["Expand"], "RouterGen.cfg")
    cases = vlib.tlc_printed(r["out"], "SCRIPT")
    cases.sort(key=lambda c: json.dumps(c, sort_keys=True))
    fams = collections.Counter(c["tag"]["fam"] for c in cases)
    vlib.log("[gen] %d cases from TLC in %.0fs %s" % (len(cases), r["wall_s"], dict(fams)))
    if set(fams) != {"A", "B", "C", "D", "E", "F", "G"} or len(cases) < 60000:
        raise vlib.ToolError("vacuity: case generator produced %s" % dict(fams))
    gen_stats = {"cases": len(cases), "families": dict(fams), "wall_s": round(r["wall_s"], 1)}
    if thorough:
        # the same structured cases once more with seeded scorer states / in-flight HTLCs
        more = []
        for c in cases:
            c2 = dict(c)
            c2["scorer"] = {"params": rng.randrange(3), "seed": rng.randrange(1, 2 ** 31)}
            more.append(c2)
        cases = cases + more
    cpath = os.path.join(wd, "cases.ndjson")
    with open(cpath, "w") as f:
        for c in cases:
            f.write(json.dumps(c) + "\n")

    # ---- 2. the real code
    nrand = 250000 if thorough else 20000
    tpath = os.path.join(wd, "trace.ndjson")
    ipath = os.path.join(wd, "inputs.ndjson")
    p = vlib.run_bin(bins["router"], ["--cases", cpath, "--random", nrand, "--seed", seed, "--out", tpath,
                                      "--cases-out", ipath])
    summ = json.loads(p.stdout.strip().splitlines()[-1])
    vlib.log("[router] %s" % summ)

    # ---- 3. TLC judges every record
    t1 = time.time()
    total, bad, cls = validate(tpath, wd, "v", parallel=4)
    tlc_wall = time.time() - t1
    vlib.log("[tlc] %d records judged in %.0fs, %d falsified" % (total, tlc_wall, len(bad)))
    # one streaming pass over the trace: falsified records, the head (for the self-test), evidence
    bad_recs, head, samples = {}, [], [None, None, None]

    def nontrivial(x):
        if x["ev"] != "case":
            return True
        if x["res"]["ok"]:
            ps = x["res"]["paths"]
            return len(ps) >= 2 or any(len(q) >= 2 for q in ps)
        return cls.get(x["run"]) in ("no_single_path", "limits_binding", "violation")
    wants = (lambda x: x["ev"] == "case" and x["res"]["ok"] and len(x["res"]["paths"]) >= 2,
             lambda x: x["ev"] == "case" and x["res"]["ok"] and len(x["res"]["paths"][0]) >= 3,
             lambda x: x["ev"] == "case" and not x["res"]["ok"] and cls.get(x["run"]) == "limits_binding")
    with open(tpath) as f:
        for k, ln in enumerate(f):
            x = json.loads(ln)
            assert x["run"] == k + 1
            if x["run"] in bad:
                bad_recs[x["run"]] = x
            elif len(head) < 80000:
                head.append(x)
            for i, w in enumerate(wants):
                if samples[i] is None and w(x):
                    samples[i] = {kk: x[kk] for kk in ("id", "g", "req", "res")}
    samples = [x for x in samples if x]

    def nontrivial_items():
        with open(tpath) as f:
            for ln in f:
                x = json.loads(ln)
                if nontrivial(x):
                    yield {"g": x["g"], "req": x["req"], "res": x.get("res")}
    if total != summ["cases"] or len(cls) + summ["panics"] != total:
        raise vlib.ToolError("trace/verdict count mismatch: %d records, %d classified" % (total, len(cls)))
    clsc = collections.Counter(cls.values())
    vlib.log("[tlc] oracle classes %s" % dict(clsc))
    inputs = None
    nviol, known_hits, reported = 0, collections.Counter(), 0
    for run_id in sorted(bad):
        rec = bad_recs[run_id]
        key = known_key(rec, bad[run_id])
        if key is not None:
            known_hits[key] += 1
            if known_hits[key] > 1:
                continue
        elif reported >= 10:
            nviol += 1
            continue
        if inputs is None:
            with open(ipath) as f:
                inputs = [ln for ln in f]
        strict = tlc_strict(rec, wd, "r%d" % run_id) if key is None and reported < 3 else None
        if vlib.report_violation(PID, "run%d" % run_id, {
                "property": PID, "kind": "panic" if rec["ev"] == "panic" else "predicate",
                "falsified_conjuncts": sorted(bad[run_id]), "case_id": rec.get("id"),
                "engine_input_case": json.loads(inputs[run_id - 1]), "record": rec,
                "strict_mode": ({"kind": strict["kind"], "invariant": strict["inv"], "last_state": strict["last_state"]}
                                if strict else None),
                "how_to_replay": "echo '<engine_input_case>' > c.ndjson; harness/target/debug/router --cases c.ndjson "
                                 "--out t.ndjson; cd spec && TRACE=t.ndjson C16_COLLECT=0 C16_CLASSIFY=0 tlc "
                                 "-config RouterTrace.cfg RouterTrace.tla   (ROUTER_LOG=1 prints the router's log)"},
                key=key):
            nviol += 1
            reported += 1
    if known_hits:
        vlib.log("[known] %s" % dict(known_hits))

    # vacuity guards (a violation is reported first: a broken router may well return few routes)
    if nviol == 0:
        if summ["ok"] * 4 < total or summ["multi_hop"] * 10 < total or summ["multi_path"] < 200:
            raise vlib.ToolError("vacuity: too few non-trivial routes %s" % summ)
        if clsc["premise_holds"] < 1000 or clsc["no_single_path"] < 100 or clsc["limits_binding"] < 10:
            raise vlib.ToolError("vacuity: existence oracle classes %s" % dict(clsc))
    
    # ---- 4. binding self-test
    st = None
    if nviol == 0:
        st = selftest(wd, head, cls)
        vlib.log("[selftest] %s" % st)

    # ---- evidence
    cov = {
        "evaluations": total,
        "distinct_nontrivial": vlib.distinct_count(nontrivial_items()),
        "rule": "TLC evaluates, per recorded find_route call, Ok(r) => ValidRoute(g,req,r) (15 named conjuncts of "
                "spec/Router.tla) and Err => ~MustNotFail(g,req) (brute-force enumeration of all simple paths with "
                "backward fee propagation); a falsified record or a panic is a violation",
        "samples": samples,
        "cases_from_tlc": gen_stats, "cases_run_from_tlc": len(cases), "random_cases": nrand,
        "routes_returned": summ["ok"], "errors_returned": summ["err"], "panics": summ["panics"],
        "routes_with_2plus_hops": summ["multi_hop"], "routes_with_2plus_paths": summ["multi_path"],
        "oracle_classes": dict(clsc),
        "ok_results_with_existence_premise_armed": clsc["premise_holds"],
        "falsified_records": len(bad), "known_finding_hits": dict(known_hits),
        "binding_selftest": st, "tlc_validation_wall_s": round(tlc_wall, 1),
        "exhaustive": False,
    }
    vlib.write_evidence(PID, tier, seed, "exploration", cov, [
        "graphs have at most 7 public nodes (+ private hint nodes) and 10 channels, paths up to 6 hops; "
        "amounts <= 2_000_000 msat, "
        "proportional fees <= 300_000 ppm (32-bit TLC integers: every carried amount stays below 10^8 msat)",
        "blinded tails / trampoline hops are not generated",
        "the last sentence of the property is judged only under MustNotFail (sufficient conditions for 'some single "
        "path has sufficient limits and the limits are not binding', see spec/Router.tla); other failures are "
        "classified limits_binding and not judged",
        "per-hop cltv_expiry_delta >= the forwarding policy's delta is checked (title: valid for the graph) although "
        "the statement only names the total",
        "scorer: ProbabilisticScorer without banned nodes / manual penalties (a u64::MAX penalty makes a channel "
        "unusable by design)",
    ], time.time() - t0, nviol)
    return nviol
