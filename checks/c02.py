"""C02 -- a forwarding node never loses money on an HTLC it forwards."""
import chan_common as cc

def run(tier, seed):
    return cc.run_check("C02", tier, seed,
        mc_cfgs=(["Forward.cfg", "ForwardN:ForwardN.cfg", "DownReplay:DownReplay2.cfg"], ["Forward.cfg", "ForwardN:ForwardN.cfg", "DownReplay:DownReplay.cfg"]), mc_module="Forward",
        mc_actions_by_module={"DownReplay": ("Build", "Complete", "Advance", "Kill", "CClose", "Restart")},
        mutant_cfgs=("ForwardMutant.cfg", "ForwardN:ForwardNReplace.cfg", "ForwardN:ForwardNNone.cfg", "DownReplay:DownReplayMutant.cfg"),
        mc_actions=("DownFulfil", "DownFail", "UpPreimageComplete", "DownRaaSubmit", "DownRaaComplete", "UpClaim", "UpFail", "Crash"),
        profiles=[("default", 3, 120), ("async", 3, 150), ("crash", 3, 100)],
        thorough_profiles=[("default", 3, 1000), ("async", 3, 1500), ("crash", 3, 1000)],
        families=[("failwin", 250), ("fanin", 250), ("skim", 100), ("fwdlate", 100), ("chainsettle", 80), ("badonion", 100), ("dustflood", 120), ("downclose", 60)], thorough_families=[("failwin", 2000), ("fanin", 2000), ("skim", 800), ("fwdlate", 600), ("chainsettle", 400), ("badonion", 800), ("dustflood", 1000), ("downclose", 500)],
        assumptions=cc.COMMON_ASSUMPTIONS + [
            "both links stay off-chain except in the chainsettle / downclose families and the DownReplay behaviours, where "
            "a miner confirms every broadcast and the end-to-end money rules are judged once the chain has settled (the "
            "transactions themselves are judged by the on-chain checks C06-C08); when a channel of the forwarding node was closed after a stale-manager restart the "
            "fail-back / balance clauses are not judged for that node",
            "the forwarding node's policy (fee base/ppm, cltv delta) is read from its configuration at start",
            "dust exposure: only HTLCs below both sides' plain dust limits that are not yet being removed are summed (an "
            "under-approximation of what the library counts), against the weakest limit the node had so far in the run; "
            "the rule is about HTLCs the node OFFERS (its own or forwarded), not about what its peer adds"])
