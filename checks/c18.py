"""C18 -- payment requests round-trip and cannot be forged or altered (level: exploration).

1. TLC model-checks spec/PayReq.tla (PayReqMC): the stateless BOLT-12 derivation / verification
   protocol with symbolic metadata -- all derivation chains offer/refund -> [altered copy] ->
   invoice request -> invoice (incl. responders echoing an altered request) built by two parties,
   every verification call by every party / API / nonce; invariant VerifySound (accept <=> the
   object derives unaltered from what the verifier created under its key material).  The same run
   enumerates the builder field-presence subsets, the mutation-class verdict table and the
   boundary values of every numeric builder input (timestamp, expiry, cltv delta, amount,
   description length; BOLT-12 amount, quantity, absolute expiry, created_at, relative expiry).
2. Every maximal derivation state is a driver script, every presence subset a case; the Rust
   engine `payreq` executes them on the real lightning-invoice / lightning::offers code with seeded
   values and records builds, round trips, mutations + parse observations and verify answers.
3. TLC validates the recorded trace against PayReq.tla (PayReqTrace.tla) -- the only oracle.
"""
import json, os, random, time
import vlib

PID = "C18"
ACTIONS = ["MCreateOffer", "MCreateRefund", "MAlter", "MRequest", "MRespond", "MRespondRefund",
           "MVerifyReqAccept", "MVerifyReqRefuseAltered", "MVerifyReqRefuseOther",
           "MVerifyInvAccept", "MVerifyInvRefuseAltered", "MVerifyInvRefuseOther",
           "MCase11", "MCase12", "MRoundTrip",
           "MCaseNum11Built", "MCaseNum11Refused", "MCaseNum12Built", "MCaseNum12Refused", "MCaseInv12"]
CHUNK = 250000


def split_trace(path):
    """Split an NDJSON trace at run boundaries into chunks TLC can hold in memory."""
    chunks, cur, n = [], [], 0
    with open(path) as f:
        for ln in f:
            if not ln.strip():
                continue
            if n >= CHUNK and '"ev":"reset"' in ln:
                chunks.append(cur)
                cur, n = [], 0
            cur.append(ln)
            n += 1
    if cur:
        chunks.append(cur)
    paths = []
    for i, c in enumerate(chunks):
        p = "%s.part%d" % (path, i)
        with open(p, "w") as f:
            f.writelines(c)
        paths.append(p)
    return paths


def selftest(wd, recs):
    """Binding self-test: corruptions of an accepted trace must each be rejected."""
    muts = []

    def first(pred):
        for k, r in enumerate(recs):
            if pred(r):
                return k
        return None

    def flipped(k, **kw):
        m = [dict(x) for x in recs]
        m[k].update(kw)
        return m

    k = first(lambda r: r["ev"] == "verify_invreq" and r["accept"])
    if k is not None:
        muts.append(("invreq-accept-reported-refused", flipped(k, accept=False)))
    k = first(lambda r: r["ev"] == "verify_invreq" and not r["accept"] and r["via"] == "metadata")
    if k is not None:
        muts.append(("invreq-refusal-reported-accepted", flipped(k, accept=True)))
    k = first(lambda r: r["ev"] == "verify_invoice" and not r["accept"])
    if k is not None:
        muts.append(("invoice-refusal-reported-accepted", flipped(k, accept=True)))
    ks = None
    for k, r in enumerate(recs):   # a refused request / invoice built from a single-bit-altered copy
        if r["ev"] == "reset":
            in_sweep = r["part"] == "sweep"
        elif in_sweep and r["ev"] in ("verify_invreq", "verify_invoice") and not r["accept"]:
            ks = k
            break
    if ks is not None:
        muts.append(("single-bit-altered-copy-accepted", flipped(ks, accept=True)))
    k = first(lambda r: r["ev"] == "request")
    if k is not None:
        muts.append(("build-event-dropped", recs[:k] + recs[k + 1:]))
    k = first(lambda r: r["ev"] == "mut11" and r["cls"] == "char")
    if k is not None:
        muts.append(("char-mutation-parsed", flipped(k, parsed=True, payee_eq=False, signed_eq=False)))
    k = first(lambda r: r["ev"] == "mut11" and r["cls"] != "char" and r["parsed"] and not r["signed_eq"]
              and not r["payee_eq"])
    if k is not None:
        muts.append(("altered-content-keeps-payee", flipped(k, payee_eq=True)))
        muts.append(("altered-content-explicit-payee", flipped(k, has_n=True)))
    k = first(lambda r: r["ev"] == "roundtrip" and r["kind"] == "b11")
    if k is not None:
        muts.append(("b11-roundtrip-unequal", flipped(k, equal=False)))
    k = first(lambda r: r["ev"] == "roundtrip" and r["kind"] == "invoice")
    if k is not None:
        muts.append(("b12-accessors-differ", flipped(k, acc=False)))
    k = first(lambda r: r["ev"] == "mut12")
    if k is not None:
        muts.append(("bitflip-parsed", flipped(k, parsed=True)))
        muts.append(("panic-inserted", recs[:k] + [{"run": recs[k]["run"], "ev": "panic"}] + recs[k:]))
    # part (iii): admissible inputs, exposed numbers, assembled strings
    def run_of(k):
        return [j for j, r in enumerate(recs) if r["run"] == recs[k]["run"]]

    def without_followers(k, evs, **kw):
        """record k changed, the later records of its run with an event in `evs` dropped"""
        drop = {j for j in run_of(k) if j > k and recs[j]["ev"] in evs}
        m = [dict(x) for j, x in enumerate(recs) if j not in drop]
        m[k - sum(1 for j in drop if j < k)].update(kw)
        return m

    k = first(lambda r: r["ev"] == "case" and r["fmt"] == "n11" and r["built"])
    if k is not None:
        muts.append(("admissible-b11-input-refused", without_followers(k, ("roundtrip", "exposed"), built=False)))
    k = first(lambda r: r["ev"] == "case" and r["fmt"] == "n11" and not r["built"]
              and r["err"] in ("TimestampOutOfBounds", "DescriptionTooLong"))
    if k is not None:
        muts.append(("unrepresentable-b11-input-accepted", flipped(k, built=True)))
    k = first(lambda r: r["ev"] == "case" and r["fmt"] == "b11" and r["built"])
    if k is not None:
        muts.append(("presence-subset-refused",
                     without_followers(k, ("roundtrip", "exposed", "mut11"), built=False)))
    k = first(lambda r: r["ev"] == "case" and r["fmt"] == "n12" and r["built"])
    if k is not None:
        muts.append(("admissible-b12-input-refused", without_followers(k, ("roundtrip", "exposed"), built=False)))
    k = first(lambda r: r["ev"] == "case" and r["fmt"] == "i12" and r["built"])
    if k is not None:
        muts.append(("admissible-invoice-input-refused",
                     without_followers(k, ("roundtrip", "exposed", "mut12"), built=False)))
    k = first(lambda r: r["ev"] == "exposed" and "ts" in r["vals"])
    if k is not None:
        v = dict(recs[k]["vals"])
        v["ts"] = [0, 0, 77]
        muts.append(("accessor-exposes-other-timestamp", flipped(k, vals=v)))
    k = first(lambda r: r["ev"] == "assembled" and r["canon"] and r["parsed"] and r["kind"] == "b11")
    if k is not None:
        muts.append(("assembled-string-reserialises-differently", flipped(k, reser=False)))
        v = dict(recs[k]["got"])
        v["cltv"] = [0, 0, 99]
        muts.append(("assembled-string-exposes-other-number", flipped(k, got=v)))
        muts.append(("assembled-string-names-other-signer", flipped(k, signer_eq=False)))
        muts.append(("assembled-string-panics",
                     recs[:k] + [{"run": recs[k]["run"], "ev": "panic", "where": "assembled b11"}] + recs[k + 1:]))
    rejected = 0
    for name, m in muts:
        p = os.path.join(wd, "selftest-%s.ndjson" % name)
        with open(p, "w") as f:
            for r in m:
                f.write(json.dumps(r) + "\n")
        _, fails = vlib.validate_trace(PID, "PayReqTrace", "PayReqTrace.cfg", p, max_failures=1, tag="st")
        if fails:
            rejected += 1
        else:
            vlib.log("[selftest] corruption %s was NOT rejected" % name)
    if rejected != len(muts) or len(muts) < 20:
        raise vlib.ToolError("binding self-test: %d of %d corrupted traces rejected" % (rejected, len(muts)))
    return {"mutations": len(muts), "rejected": rejected, "corruptions": [n for n, _ in muts]}


def run(tier, seed):
    t0 = time.time()
    wd = vlib.workdir(PID)
    bins = vlib.build(["payreq"])
    thorough = tier == "thorough"
    rng = random.Random(seed)

    # ---- 1. model checking + script / case generation
    cfg = "PayReqMC5.cfg" if thorough else "PayReqMC.cfg"
    r = vlib.tlc_mc(PID, "PayReqMC", cfg, workers=12, timeout=2400 if thorough else 420)
    if r["violated"]:
        raise vlib.ToolError("protocol model violates %s in %s (spec needs correction)" % (r["violated"], cfg))
    vlib.require_coverage(r, ACTIONS, cfg)
    scripts = vlib.tlc_printed(r["out"], "SCRIPT")
    cases = vlib.tlc_printed(r["out"], "CASE")
    vlib.log("[mc] %s: %d distinct states, %d generated, depth %d, %d scripts, %d cases, %.0fs" %
             (cfg, r["distinct"], r["states"], r["depth"], len(scripts), len(cases), r["wall_s"]))
    mc = {k: r[k] for k in ("states", "distinct", "depth", "coverage", "wall_s")}
    if not scripts or not cases:
        raise vlib.ToolError("TLC produced no scripts / cases")
    nscripts_mc, ncases_mc = len(scripts), len(cases)
    # TLC's workers print in a nondeterministic order; the run number seeds the values, so fix the order
    scripts.sort(key=lambda x: json.dumps(x, sort_keys=True))
    cases.sort(key=lambda x: json.dumps(x, sort_keys=True))
    cap = 40000 if thorough else 10000
    if len(scripts) > cap:
        scripts = rng.sample(scripts, cap)
    uniq, seen = [], set()
    for c in cases:       # (a "may" input is enumerated with both answers)
        k = json.dumps(c, sort_keys=True)
        if k not in seen:
            seen.add(k)
            uniq.append(c)
    cases = uniq
    b11 = [c for c in cases if c["fmt"] == "b11"]
    b12 = [c for c in cases if c["fmt"] == "b12"]
    rng.shuffle(b11)
    rng.shuffle(b12)
    if not thorough:
        b11, b12 = b11[:260], b12[:400]
    # numeric boundary cases: every case with at most two fields off their ordinary value, a seeded
    # sample of the other combinations (thorough: all of them)
    nums = []
    for fmt, extra in (("n11", 700), ("n12", 150), ("i12", 48)):
        cs = sorted((c for c in cases if c["fmt"] == fmt), key=lambda c: (c["off"], json.dumps(c, sort_keys=True)))
        near = [c for c in cs if c["off"] <= 2]
        far = [c for c in cs if c["off"] > 2]
        if not thorough and len(far) > extra:
            far = rng.sample(far, extra)
        nums += near + far
    ncases_num = len(nums)
    if not [c for c in nums if c["fmt"] == "n11"] or not [c for c in nums if c["fmt"] == "n12"]:
        raise vlib.ToolError("TLC produced no numeric boundary cases")
    all_cases = b11 + b12 + nums
    spath = os.path.join(wd, "scripts.ndjson")
    with open(spath, "w") as f:
        for s in scripts:
            f.write(json.dumps(s) + "\n")
    cpath = os.path.join(wd, "cases.ndjson")
    with open(cpath, "w") as f:
        for c in all_cases:
            f.write(json.dumps(c) + "\n")

    # single-bit sweeps of offers / refunds / echoed requests: every key mode, several objects each
    sweeps = [{"fmt": "sweep", "kind": k, "mode": m}
              for _ in range(10 if thorough else 3)
              for k, ms in (("offer", ["explicit", "meta", "path"]), ("refund", ["explicit", "meta", "path"]),
                            ("echo", ["explicit", "meta"]))
              for m in ms]
    wpath = os.path.join(wd, "sweeps.ndjson")
    with open(wpath, "w") as f:
        for c in sweeps:
            f.write(json.dumps(c) + "\n")

    # ---- 2. run the real code
    tpath = os.path.join(wd, "trace.ndjson")
    args = ["--scripts", spath, "--cases", cpath, "--out", tpath, "--seed", seed,
            "--muts", 4 if thorough else 2, "--full", 12 if thorough else 1,
            "--fuzz", 20000 if thorough else 1500, "--sweeps", wpath, "--sweep-bits", 0]
    te = time.time()
    p = vlib.run_bin(bins["payreq"], args, timeout=3000)
    summ = json.loads(p.stdout.strip().splitlines()[-1])
    vlib.log("[payreq] %.0fs %s" % (time.time() - te, {k: v for k, v in summ.items() if not isinstance(v, dict)}))
    vlib.log("[payreq] b11 mutations %s" % summ["b11_mut"])
    vlib.log("[payreq] b12 mutations %s" % summ["b12_mut"])
    # ---- 3. trace validation (the oracle)
    parts = split_trace(tpath)
    total, fails = 0, []
    tv = time.time()
    for i, part in enumerate(parts):
        n, fl = vlib.validate_trace(PID, "PayReqTrace", "PayReqTrace.cfg", part, timeout=1500, tag="t%d_" % i)
        total += n
        fails += fl
        if len(fails) >= 5:
            break
    vlib.log("[trace] %d events in %d chunk(s) validated in %.0fs, %d rejected run(s)" %
             (total, len(parts), time.time() - tv, len(fails)))
    nscr = len(scripts)
    ncase = len(all_cases)
    nfull = args[args.index("--full") + 1]
    nviol = 0
    for fl in fails:
        runid = fl["run"]
        if runid <= nscr:
            inp = {"script": scripts[runid - 1]}
        elif runid <= nscr + ncase:
            inp = {"case": all_cases[runid - nscr - 1]}
        elif fl["run_events"] and fl["run_events"][0].get("part") == "sweep":
            r0 = fl["run_events"][0]
            inp = {"sweep": r0["directive"], "first_run": r0["first_run"], "batch": r0["batch"],
                   "replay": "write input.sweep as one line to F; payreq --sweeps F --seed %d --first-run %d "
                             "--out t.ndjson (reproduces all batches of this object)" % (seed, r0["first_run"])}
        else:
            inp = {"fuzz_batch": runid - nscr - ncase}
        key = "panic" if fl["rec"].get("ev") == "panic" else None
        if fl["rec"].get("ev") == "panic" and "input" in fl["rec"]:
            inp["panicking_input"] = fl["rec"]["input"]
        evs = fl["run_events"]
        if len(evs) > 400:
            evs = evs[:20] + [{"elided": len(evs) - 60}] + evs[max(20, fl["pos_in_run"] - 20):fl["pos_in_run"] + 20]
        if vlib.report_violation(PID, "run%d" % runid, {
                "property": PID, "kind": fl["kind"], "invariant": fl["inv"],
                "first_unmatched_event": fl["rec"], "position_in_run": fl["pos_in_run"],
                "input": inp, "seed": seed, "trace_of_run": evs, "last_state": fl["last_state"],
                "how_to_replay": "write input.script / input.case as one line to a file F; "
                                 "harness/target/debug/payreq --scripts F | --cases F --seed %d --first-run %d "
                                 "--muts %d --full %d --out t.ndjson; "
                                 "TRACE=t.ndjson tlc -config PayReqTrace.cfg PayReqTrace.tla (in spec/)"
                                 % (seed, runid, args[args.index("--muts") + 1],
                                    1 if (nscr < runid <= nscr + nfull or
                                          nscr + len(b11) < runid <= nscr + len(b11) + nfull) else 0)},
                key=key):
            nviol += 1

    # ---- vacuity guards on the driver: "nothing was exercised" is a tool error -- but a refusal or a
    # parse failure is an observation the spec has judged above, and a run with violations is a
    # verdict, never a tool error
    if nviol == 0 and not fails:
        if summ["b11_built"] == 0 or summ["b12_built"] == 0 or summ["n11_built"] == 0 or summ["n12_built"] == 0:
            raise vlib.ToolError("a builder family never built anything: %s" %
                                 {k: summ[k] for k in summ if k.endswith("_built") or k.endswith("_cases")})
        if summ["assembled_parsed"] * 2 < summ["assembled"] or summ["assembled"] < summ["n11_cases"]:
            raise vlib.ToolError("hand-assembled strings / streams are not exercising the parsers: %d of %d parsed" %
                                 (summ["assembled_parsed"], summ["assembled"]))
        if summ["accepts"] == 0 or summ["accepts"] * 2 > summ["verifies"]:
            raise vlib.ToolError("verification answers look vacuous: %d accepts of %d" % (summ["accepts"], summ["verifies"]))
        if summ["sweep_judged"] * 3 < summ["sweep_bits"] or summ["sweep_judged"] < 1000:
            raise vlib.ToolError("single-bit sweep is vacuous: %d of %d altered copies were usable" %
                                 (summ["sweep_judged"], summ["sweep_bits"]))
        if summ["proto_build_failed"] * 20 > summ["proto_runs"]:
            raise vlib.ToolError("%d of %d protocol scripts stopped at a failed derivation step: driver is not "
                                 "exercising the derivation chains" % (summ["proto_build_failed"], summ["proto_runs"]))

    # ---- 4. binding self-test: head of the protocol runs + one table case of each format
    st = None
    if not fails:
        head, want = [], {"proto": 120, "b11": 6, "b12": 6, "sweep": 12, "n11": 60, "n12": 12, "i12": 4}
        with open(tpath) as f:
            part, keep, full_b11 = None, False, nfull
            for ln in f:
                rec = json.loads(ln)
                if rec["ev"] == "reset":
                    part = rec["part"]
                    keep = want.get(part, 0) > 0
                    if keep and part == "b11" and full_b11 > 0:
                        keep, full_b11 = False, full_b11 - 1   # skip the exhaustive cases (large)
                    elif keep:
                        want[part] -= 1
                if keep:
                    head.append(rec)
        st = selftest(wd, head)
        vlib.log("[selftest] %s" % st)

    # ---- evidence (streamed: thorough traces have millions of events)
    import hashlib
    n_judged, distinct, samples_ev = 0, set(), []
    with open(tpath) as f:
        for ln in f:
            rec = json.loads(ln)
            if rec["ev"] in ("verify_invreq", "verify_invoice", "mut11", "mut12", "roundtrip", "case", "exposed",
                             "assembled"):
                rec.pop("run", None)
                n_judged += 1
                if not (rec["ev"] == "mut11" and rec["cls"] == "char"):   # same digest as vlib.distinct_count
                    distinct.add(hashlib.sha1(json.dumps(rec, sort_keys=True, default=str).encode()).digest())
                if len(samples_ev) < 10 and rec["ev"] in ("verify_invreq", "mut11", "roundtrip"):
                    samples_ev.append(rec)
    cov = {
        "evaluations": n_judged,
        "distinct_nontrivial": len(distinct),
        "rule": "TLC-enumerated derivation chains (<=%s objects, 2 parties, 3 key modes, alterations, key swaps) and "
                "builder presence subsets x mutation classes; boundary values (0, 1, max-1, max, max+1) of "
                "every numeric builder input through the builders and through hand-assembled strings / TLV "
                "streams; other values, positions and bits seeded (seed %d)" %
                ("5" if thorough else "4", seed),
        "samples": [scripts[0], b11[0], b12[0]] + samples_ev,
        "mc_protocol_model": {"cfg": cfg, "distinct_states": mc["distinct"], "generated": mc["states"],
                              "depth": mc["depth"], "wall_s": round(mc["wall_s"], 1),
                              "action_coverage": {a: mc["coverage"].get(a, 0) for a in ACTIONS},
                              "scripts": nscripts_mc, "cases": ncases_mc},
        "single_bit_sweeps": {"objects": len(sweeps), "bits_flipped": summ["sweep_bits"],
                              "altered_copies_judged": summ["sweep_judged"]},
        "scripts_run": nscr, "b11_cases_run": len(b11), "b12_cases_run": len(b12),
        "numeric_boundary_cases_run": ncases_num,
        "events_validated": total, "engine": summ, "impl_panics": summ["panics"],
        "binding_selftest": st, "exhaustive": False,
    }
    vlib.write_evidence(PID, tier, seed, "exploration", cov, [
        "cryptographic strength (HMAC-SHA256, ECDSA, Schnorr, bech32 BCH code) is assumed; only its use is checked",
        "field values, mutation positions and bits are sampled (seeded); structure (chains, presence subsets, "
        "mutation classes) is enumerated by TLC",
        "an alteration of the offer's own metadata TLV is not exercised for path-derived offers "
        "(it is not covered by the derived key; see report)",
        "BOLT-11 route hints are built without htlc_minimum/maximum (not representable in BOLT-11)",
    ], time.time() - t0, nviol)
    for part in parts:
        try:
            os.remove(part)
        except OSError:
            pass
    return nviol
