"""C01 -- every commitment conserves the channel's funds and both peers agree on it; limits exact."""
import chan_common as cc
import splice_common

def run(tier, seed):
    return cc.run_check("C01", tier, seed,
        mc_cfgs=(["ChanMC_c01q.cfg"], ["ChanMC_c01.cfg", "ChanMC_c01t.cfg"]),
        profiles=[("nodisc", 2, 100), ("default", 2, 150), ("limits", 2, 80), ("close", 2, 80), ("async", 2, 50), ("default", 3, 40)],
        thorough_profiles=[("nodisc", 2, 800), ("default", 2, 1200), ("limits", 2, 600), ("close", 2, 800), ("async", 2, 600),
                           ("default", 3, 300), ("async", 3, 200)],
        families=[("holdcell", 250), ("crosslimit", 250), ("bigclaim", 200), ("dustclose", 150), ("asyncsign", 100), ("slots", 12), ("windowlimit", 150), ("badonion", 100), ("dustflood", 60), ("closecross", 200)],
        thorough_families=[("holdcell", 3000), ("crosslimit", 3000), ("bigclaim", 2000), ("dustclose", 1500), ("asyncsign", 1000), ("slots", 100), ("windowlimit", 2000), ("badonion", 1000), ("dustflood", 600), ("closecross", 2000)],
        extra_parts=[("quiescence+splicing", splice_common.run_part)],
        assumptions=[a for a in cc.COMMON_ASSUMPTIONS if "splicing" not in a] + [
            "channel opening and cooperative close negotiation are outside the traced part of a run of the BOLT-2 update engine",
            "quiescence and splicing are judged by a separate part (Splice.tla / splicenet): static and anchors channels, no update_fee during "
            "a splice, replace-by-fee rounds only as the library starts them itself"])
