"""C06 -- any revoked commitment the counterparty confirms is fully punished (engine `onchain`, spec OnChain.tla)."""
import onchain_common as oc

def run(tier, seed):
    return oc.run_check("C06", tier, seed, oc.COMMON_ASSUMPTIONS + [
        "the cheater's HTLC-success transactions exist for the HTLCs it claimed while the revoked state was current "
        "(its monitor holds the preimage then); other received HTLCs of a revoked state can only time out to the victim",
        "the victim's claims may be starved for up to ~100 blocks (< to_self_delay), after that mining is fair",
    ])
