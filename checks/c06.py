"""C06 -- any revoked commitment the counterparty confirms is fully punished (engine `onchain`, spec OnChain.tla)."""
import onchain_common as oc

def run(tier, seed):
    return oc.run_check("C06", tier, seed, oc.COMMON_ASSUMPTIONS + [
        "the cheater's HTLC-success transactions exist for the HTLCs it claimed while the revoked state was current "
        "(its monitor holds the preimage then); other received HTLCs of a revoked state can only time out to the victim",
        "the victim's claims may be starved for up to ~100 blocks (< to_self_delay), after that mining is fair",
        "second-stage transactions of the cheater: pre-signed SIGHASH_ALL transactions (channels without anchors), wallet-built "
        "aggregates (n HTLC inputs + fee input -> n HTLC outputs + change) and, on anchor / zero-fee-commitment channels, hand-made "
        "transactions of every shape SIGHASH_SINGLE|ANYONECANPAY allows, signed by the real second node's channel signer: one or "
        "several HTLC inputs in any order, a subset only, own inputs before / between / after them, own outputs wherever no HTLC "
        "input stands, more or fewer outputs than inputs; HTLC-success and HTLC-timeout (or timeouts of different expiries) never "
        "share a transaction because both signatures commit to nLockTime",
        "reorganisations may unconfirm the commitment, second-stage transactions and confirmed claims (they confirm again when the "
        "schedule lets them, at the same height or later); the network keeps the nodes' claims or forgets every claim that hangs on "
        "(or had lost an input to) a transaction that left the chain; after it forgot some, the application's periodic "
        "rebroadcast_pending_claims runs after each of the next ten blocks; the obligations are judged from the first block of the "
        "new chain on, not between the disconnection and that block",
        "ANTI_REORG_DELAY is the library's documented security assumption: no reorganisation deeper than 6 blocks, no transaction "
        "with 6 or more confirmations (on the longest chain seen) is unconfirmed, the chain is not taken back below an HTLC expiry "
        "it had reached; feerates are not compared across a re-confirmation of the commitment",
    ])
