"""Part of C05 (used by C09 / C10 thorough too): the commitment-number discipline for an UNBOUNDED number of updates.

spec/ChanCountersApalache.tla is the counter abstraction of Chan.tla's revocation discipline together with the two
mechanisms it rests on across crashes (messages held until their monitor update is durable; a manager older than its
monitor closes the channel).  Apalache discharges the inductive-invariant obligations over unbounded integers and
refutes the step obligation of three planted defects.  This is a statement about the design; the code is bound to
the same guards (G5 / G9 / G10 of Chan.tla) by trace validation in the main part of the check."""
import os, shutil, subprocess, time
import vlib

MODULE = "ChanCountersApalache"
OBLIGATIONS = [  # name, Mutant, INIT, INVARIANT, length, expected to hold, quick tier?
    ("base: Init => IndInv", "none", "Init", "IndInv", 0, True, True),
    ("step: IndInv /\\ Next => IndInv'", "none", "IndInit", "IndInv", 1, True, True),
    ("safety: IndInv => Safe", "none", "IndInit", "Safe", 0, True, True),
    ("mutant raa_before_durable: step refuted", "raa_before_durable", "IndInit", "IndInv", 1, False, True),
    ("mutant stale_resumed: step refuted", "stale_resumed", "IndInit", "IndInv", 1, False, True),
    ("mutant sign_twice: step refuted", "sign_twice", "IndInit", "IndInv", 1, False, True),
    ("non-vacuity: a revocation can be released", "none", "IndInit", "NoRevocationReleased", 1, False, False),
    ("non-vacuity: a stale manager closes the channel", "none", "IndInit", "NoStaleClose", 1, False, False),
    ("bounded run from Init, 12 steps: Safe", "none", "Init", "Safe", 12, True, False),
]


def run_part(pid, tier, seed, wd):
    out = os.path.join(wd, "apalache")
    shutil.rmtree(out, ignore_errors=True)
    os.makedirs(out, exist_ok=True)
    thorough = tier == "thorough"
    res, failed = [], []
    for i, (name, mutant, init, inv, length, expect, quick) in enumerate(OBLIGATIONS):
        if not thorough and not quick:
            continue
        cfg = os.path.join(out, "o%d.cfg" % i)
        with open(cfg, "w") as f:
            f.write('CONSTANTS\n  Mutant = "%s"\nINIT %s\nNEXT Next\nINVARIANT %s\n' % (mutant, init, inv))
        t0 = time.time()
        p = subprocess.run(["timeout", "900", "apalache-mc", "check", "--config=" + cfg, "--length=%d" % length,
                            "--out-dir=" + os.path.join(out, "run%d" % i), MODULE + ".tla"],
                           cwd=vlib.SPEC, stdout=subprocess.PIPE, stderr=subprocess.STDOUT, text=True)
        with open(os.path.join(out, "o%d.out" % i), "w") as f:
            f.write(p.stdout)
        if "The outcome is: NoError" in p.stdout:
            holds = True
        elif "The outcome is: Error" in p.stdout and "invariant" in p.stdout:
            holds = False
        else:
            vlib.log(p.stdout[-2000:])
            raise vlib.ToolError("apalache failed on obligation %r of %s" % (name, MODULE))
        res.append({"obligation": name, "holds": holds, "expected": expect, "wall_s": round(time.time() - t0, 1)})
        if holds != expect:
            failed.append(name)
    shutil.rmtree(os.path.join(vlib.SPEC, "_apalache-out"), ignore_errors=True)
    shutil.rmtree(os.path.join(out), ignore_errors=True) if not failed else None
    vlib.log("[apalache %s] %d obligations, %d as expected %s" % (MODULE, len(res), len(res) - len(failed), failed or ""))
    if failed:
        # a statement about the design model, not about the code: never a VIOLATION
        raise vlib.ToolError("apalache: obligations of %s not as expected: %s" % (MODULE, failed))
    return 0, {"module": MODULE, "obligations": len(res), "discharged": len(res), "detail": res,
               "scope": "unbounded commitment / update counters (linear integer arithmetic); design-level"}
