"""Shared driver of the payment checks C03 (PaySend.tla) and C04 (PayRecv.tla): engine `paynet`.

    design check   TLC on PaySendMC / PayRecvMC: the payer's / the recipient's algorithm at the
                   granularity of the code, conjoined with the observable specification
    behaviours     TLC's quiescent states -> abstract scripts -> compiled to paynet scripts
    random drivers seeded scripts over line / fan (diamond) / parallel-channel topologies
    oracle         TLC validates every recorded run against PaySendTrace / PayRecvTrace; a run rejected
                   by one spec is re-validated against the other one to attribute it
"""
import json, os, random, subprocess, time
import vlib

MSAT = 1000000          # one model amount unit in msat


# --------------------------------------------------------------------------- topologies

def topo(kind, n):
    """-> dict(cfg, nodes, dst, routes=[list of channel paths from node 0 to dst], links per route)."""
    if kind == "line":
        chans = [(i, i + 1) for i in range(n - 1)]
        routes = [list(range(1, n))]
        nodes = n
    elif kind == "fan":
        chans = [(0, i) for i in range(1, n + 1)] + [(i, n + 1) for i in range(1, n + 1)]
        routes = [[i, n + i] for i in range(1, n + 1)]
        nodes = n + 2
    elif kind == "fan2":
        chans = [(0, i) for i in range(1, n + 1)] + [(i, n + i) for i in range(1, n + 1)] + [(n + i, 2 * n + 1) for i in range(1, n + 1)]
        routes = [[i, n + i, 2 * n + i] for i in range(1, n + 1)]
        nodes = 2 * n + 2
    else:  # par
        chans = [(0, 1)] * n
        routes = [[i] for i in range(1, n + 1)]
        nodes = 2
    links = []
    for r in routes:
        links.append([list(chans[c - 1]) for c in r])
    return {"cfg": {"topo": kind, "n": n}, "nodes": nodes, "dst": nodes - 1, "chans": chans,
            "routes": routes, "links": links}


def path_nodes(tp, route):
    cur, out = 0, [0]
    for c in route:
        a, b = tp["chans"][c - 1]
        cur = b if a == cur else a
        out.append(cur)
    return out


# --------------------------------------------------------------------------- random C03 scripts

def random_send_script(rng):
    if rng.random() < 0.2:
        return stale_known_script(rng)
    kind = rng.choice(["line", "line", "fan", "fan", "fan", "fan2", "par"])
    n = {"line": rng.choice([2, 3, 4, 4, 5]), "fan": rng.choice([1, 2, 2, 3]), "fan2": rng.choice([1, 2]), "par": rng.choice([2, 3])}[kind]
    tp = topo(kind, n)
    dst = tp["dst"]
    ops = []
    # a run that ends with a restart from a snapshot the monitors have overtaken: the payer is idle when the
    # snapshot is taken and no payment id is used twice (see the recorded findings in c03.py)
    stale_run = rng.random() < 0.12
    if rng.random() < 0.5 and not stale_run:
        ops.append({"op": "hold", "node": 0, "on": True})
    npay = rng.choice([1, 1, 2])
    pays = []
    nreg = 0

    def new_payment(pid):
        nonlocal nreg
        nroutes = len(tp["routes"])
        k = rng.randint(1, nroutes)
        rts = rng.sample(range(nroutes), k)
        amts = [rng.choice([1, 2, 3, 5, 8]) * MSAT + rng.randint(0, 999) * 1000 for _ in rts]
        if rng.random() < 0.15:
            amts[0] = rng.randint(2, 300) * 1000      # a dust-sized part
        nreg += 1
        reg = nreg
        o = [{"op": "reg", "node": dst, "reg": reg, "amt": sum(amts), "expiry": 3600,
              "method": rng.choice(["user", "user", "ldk"])}]
        send = {"op": "send", "from": 0, "id": pid, "reg": reg, "paths": [tp["routes"][r] for r in rts], "amts": amts}
        hops = len(tp["routes"][rts[0]])
        r = rng.random()
        if r < 0.12 and hops > 1:
            send["fee_over"] = {"0:0": rng.choice([0, 500, 999])}     # first forwarding node is underpaid
        elif r < 0.30 and hops > 2:
            send["fee_over"] = {"0:%d" % rng.randrange(1, hops - 1): rng.choice([0, 500, 999])}   # a later one is
        elif r < 0.45 and hops > 2:
            # a later forwarding node finds its outgoing channel unusable
            j = rng.randrange(1, hops)
            nds = path_nodes(tp, tp["routes"][rts[0]])
            o.append({"op": "disconnect", "a": nds[j], "b": nds[j + 1]})
            o.append(send)
            o.append({"op": "pump"})
            o.append({"op": "reconnect", "a": nds[j], "b": nds[j + 1]})
            return {"pid": pid, "reg": reg, "rts": rts, "send": send}, o
        o.append(send)
        return {"pid": pid, "reg": reg, "rts": rts, "send": send}, o

    for p in range(1, npay + 1):
        if rng.random() < 0.2 and kind != "par":
            nreg += 1
            amt = rng.choice([1, 2, 4]) * MSAT + rng.randint(0, 999) * 1000
            ops.append({"op": "reg", "node": dst, "reg": nreg, "amt": amt, "expiry": 3600})
            ops.append({"op": "send", "from": 0, "id": p, "reg": nreg, "auto": True, "to": dst, "amt": amt,
                        "retries": rng.choice([0, 1, 2])})
            pays.append({"pid": p, "reg": nreg, "rts": list(range(len(tp["routes"]))), "send": None})
        elif rng.random() < 0.08 and kind != "par":
            amt = rng.choice([1, 2, 4]) * MSAT
            ops.append({"op": "send", "from": 0, "id": p, "fresh": 500 + p, "keysend": True, "to": dst, "amt": amt})
            pays.append({"pid": p, "reg": None, "fresh": 500 + p, "rts": list(range(len(tp["routes"]))), "send": None})
        else:
            pay, o = new_payment(p)
            pays.append(pay)
            ops += o
        if rng.random() < 0.4 and not stale_run:
            ops += body(rng, tp, pays, rng.randint(1, 5))
    if stale_run:
        ops += [{"op": "pump"}] * rng.choice([0, 1, 1]) + [{"op": "reconnect_all"}, {"op": "pump"}, {"op": "save", "node": 0}]
        ops += [o for o in body(rng, tp, pays, rng.randint(2, 14)) if o["op"] not in ("send", "save", "restart", "hold")]
        ops += [{"op": "restart", "node": 0, "use": "stale"}]
        return {"cfg": tp["cfg"], "ops": ops + after_stale(rng, tp, pays)}
    ops += body(rng, tp, pays, rng.randint(4, 22))
    if any(o["op"] == "restart" and o.get("use") == "stale" for o in ops):
        # (if that restart was executed) channels were closed: the run is judged once the chain has settled
        ops.append({"op": "settle_chain"})
    ops.append({"op": "settle"})
    if rng.random() < 0.3 and ops[-2]["op"] != "settle_chain":
        # after the outcome: idempotency timeout, late duplicate, restart
        for _ in range(rng.choice([1, 8, 9])):
            ops.append({"op": "tick", "node": 0})
        if rng.random() < 0.5:
            ops.append({"op": "restart", "node": 0, "use": "now"})
        p = rng.choice(pays)
        if p["send"] is not None:
            ops.append(dict(p["send"]))
        ops += body(rng, tp, pays, rng.randint(2, 8))
        ops.append({"op": "settle"})
    return {"cfg": tp["cfg"], "ops": ops}


def after_stale(rng, tp, pays):
    """What follows a restart from a stale snapshot (LDK has closed the channels whose monitors were ahead):
    the peers come back, the recipient answers or not, and the chain settles."""
    ops = [{"op": "reconnect_all"}] if rng.random() < 0.85 else []
    ops += [{"op": "pump"}] * rng.choice([0, 1, 1])
    for p in pays:
        r = rng.random()
        if r < 0.7:
            tgt = {"reg": p["reg"]} if p["reg"] is not None else {"fresh": p["fresh"], "node": tp["dst"]}
            ops.append(dict({"op": "claim" if r < 0.55 else "failback"}, **tgt))
            if rng.random() < 0.5:
                ops.append({"op": "pump"})
    if rng.random() < 0.2:
        ops += body(rng, tp, pays, rng.randint(1, 5))
        ops = [o for o in ops if o["op"] not in ("send", "save", "restart", "hold")]
    return ops + [{"op": "settle_chain"}, {"op": "settle"}]


def stale_known_script(rng):
    """The payer restarts from a manager snapshot that knows a payment but is older than the monitors:
    written after the first attempt of a payment with automatic retries (the retry HTLC was sent afterwards),
    or before / after the send of a multi-path payment some of whose parts have moved on since."""
    variant = rng.choice(["retry", "retry", "mpp_before", "mpp_after", "single_after"])
    ops = []
    if variant == "retry":
        kind = rng.choice(["fan", "fan", "fan2"])
        n = rng.choice([2, 2, 3])
        tp = topo(kind, n)
        dst = tp["dst"]
        amt = rng.choice([1, 2, 3, 5]) * MSAT + rng.randint(0, 999) * 1000
        ops.append({"op": "reg", "node": dst, "reg": 1, "amt": amt, "expiry": 3600, "method": rng.choice(["user", "ldk"])})
        first = rng.randrange(n)                 # the branch of the first attempt: the only one whose first hop is up
        nds = path_nodes(tp, tp["routes"][first])
        j = rng.randrange(1, len(nds) - 1)       # the hop that cannot forward
        others = [b for b in range(n) if b != first]
        for b in others:
            ops.append({"op": "disconnect", "a": 0, "b": path_nodes(tp, tp["routes"][b])[1]})
        ops.append({"op": "disconnect", "a": nds[j], "b": nds[j + 1]})
        ops.append({"op": "send", "from": 0, "id": 1, "reg": 1, "auto": True, "to": dst, "amt": amt, "retries": rng.choice([1, 1, 2])})
        pays = [{"pid": 1, "reg": 1, "rts": list(range(n)), "send": None}]
        when = rng.choice(["sent", "sent", "sent", "arrived"])
        if when == "sent":
            ops.append({"op": "save", "node": 0})
        for b in others:
            ops += [{"op": "reconnect", "a": 0, "b": path_nodes(tp, tp["routes"][b])[1]}, {"op": "pump", "links": [[0, path_nodes(tp, tp["routes"][b])[1]]]}]
        if when == "arrived":
            ops += [{"op": "pump", "links": [[nds[i], nds[i + 1]] for i in range(j)], "barrier": 0}, {"op": "save", "node": 0}]
        # the failure comes back, the retry leaves over another branch
        ops.append({"op": "pump", "links": [[nds[i], nds[i + 1]] for i in range(j)]})
        r = rng.random()
        if r < 0.6:
            ops.append({"op": "pump"})
        elif r < 0.8:
            ops += body(rng, tp, pays, rng.randint(1, 4))
    else:
        kind = rng.choice(["fan", "fan", "fan2", "par"])
        n = rng.choice([2, 2, 3])
        tp = topo(kind, n)
        dst = tp["dst"]
        k = 1 if variant == "single_after" else rng.randint(2, n)
        rts = rng.sample(range(n), k)
        amts = [rng.choice([1, 2, 3, 5]) * MSAT + rng.randint(0, 999) * 1000 for _ in rts]
        if rng.random() < 0.1:
            amts[0] = rng.randint(2, 300) * 1000      # a dust-sized part
        ops.append({"op": "reg", "node": dst, "reg": 1, "amt": sum(amts), "expiry": 3600, "method": rng.choice(["user", "ldk"])})
        send = {"op": "send", "from": 0, "id": 1, "reg": 1, "paths": [tp["routes"][r] for r in rts], "amts": amts}
        pays = [{"pid": 1, "reg": 1, "rts": rts, "send": send}]
        if variant == "mpp_before":
            ops += [{"op": "save", "node": 0}, send]
        else:
            ops += [send, {"op": "save", "node": 0}]
        if rng.random() < 0.3 and kind != "par":
            # one part cannot be forwarded
            nds = path_nodes(tp, tp["routes"][rts[0]])
            j = rng.randrange(1, len(nds) - 1)
            ops += [{"op": "disconnect", "a": nds[j], "b": nds[j + 1]}, {"op": "pump"}]
        r = rng.random()
        if r < 0.5:
            ops.append({"op": "pump"})
        elif r < 0.9:
            ops += body(rng, tp, pays, rng.randint(1, 6))
    ops = [o for o in ops if o["op"] not in ("restart", "hold", "abandon") and not (o["op"] == "save" and ops.index(o) > 0 and False)]
    ops.append({"op": "restart", "node": 0, "use": "stale"})
    return {"cfg": tp["cfg"], "ops": ops + after_stale(rng, tp, pays)}


def body(rng, tp, pays, steps):
    ops = []
    dst = tp["dst"]
    all_links = sorted({tuple(sorted(c)) for c in tp["chans"]})
    for _ in range(steps):
        r = rng.random()
        p = rng.choice(pays)
        if r < 0.30:
            k = rng.randint(1, len(all_links))
            ops.append({"op": "pump", "links": [list(x) for x in rng.sample(all_links, k)]})
        elif r < 0.38:
            ops.append({"op": "pump"})
        elif r < 0.48:
            a, b = rng.choice(all_links)
            if rng.random() < 0.5:
                a, b = b, a
            if rng.random() < 0.5:
                ops.append({"op": "deliver", "from": a, "to": b})
            else:
                ops.append({"op": "deliver_until", "from": a, "to": b,
                            "kind": rng.choice(["update_fulfill_htlc", "update_fail_htlc", "update_add_htlc", "commitment_signed", "revoke_and_ack"])})
        elif r < 0.60:
            tgt = {"reg": p["reg"]} if p["reg"] is not None else {"fresh": p["fresh"], "node": dst}
            ops.append(dict({"op": "claim" if rng.random() < 0.65 else "failback"}, **tgt))
        elif r < 0.68:
            a, b = rng.choice(all_links)
            ops.append({"op": "disconnect", "a": a, "b": b})
            if rng.random() < 0.6:
                ops.append({"op": "reconnect", "a": a, "b": b})
        elif r < 0.72:
            ops.append({"op": "reconnect_all"})
        elif r < 0.77:
            ops.append({"op": "tick", "node": rng.choice([0, dst, rng.randrange(tp["nodes"])])})
        elif r < 0.80:
            ops.append({"op": "block", "n": 1})
        elif r < 0.86:
            ops.append({"op": "handle", "node": 0})
        elif r < 0.90:
            ops.append({"op": "save", "node": 0})
        elif r < 0.95:
            # "stale": from a snapshot the monitors have overtaken (LDK closes those channels; the run ends
            # with what list_recent_payments says right after the restart)
            ops.append({"op": "restart", "node": 0, "use": rng.choice(["now", "last", "last", "last", "stale"])})
        elif r < 0.975:
            ops.append({"op": "abandon", "node": 0, "id": p["pid"]})
        else:
            if p["send"] is not None:
                s = dict(p["send"])
                if rng.random() < 0.5 and len(pays) > 1:
                    s["reg"] = rng.choice(pays)["reg"] or s["reg"]   # same id, another hash
                ops.append(s)
    return ops


# --------------------------------------------------------------------------- asynchronous persistence at the payer

def first_hops(tp):
    return [c + 1 for c, (a, b) in enumerate(tp["chans"]) if a == 0 or b == 0]


def chans_of(tp, node):
    return [c + 1 for c, (a, b) in enumerate(tp["chans"]) if a == node or b == node]


def with_async(script, rng):
    """A random schedule in which the persister of the payer -- or of a forwarding node / the recipient -- reports
    writes InProgress for a while (all of the node's channels or some), the node's user reports them complete in any
    order, and the payer's channel configuration changes."""
    ops = script["ops"]
    if any(o["op"] == "restart" and o.get("use") == "stale" for o in ops) or len(ops) < 4:
        return script
    tp = topo(script["cfg"]["topo"], script["cfg"]["n"])
    out = list(ops)
    # the nodes whose persistence is asynchronous in this run: mostly the payer, sometimes a node further along
    others = [rng.randrange(1, tp["nodes"])] if rng.random() < 0.45 else []
    for _ in range(rng.randint(2, 7)):
        pos = rng.randrange(0, len(out) - 1)
        r = rng.random()
        node = rng.choice(others) if others and rng.random() < 0.5 else 0
        fh = chans_of(tp, node)
        if r < 0.35:
            o = {"op": "persist_mode", "node": node, "mode": "inprogress"}
            if rng.random() < 0.5:
                o["chans"] = rng.sample(fh, rng.randint(1, len(fh)))
        elif r < 0.50:
            o = {"op": "persist_mode", "node": node, "mode": "completed"}
        elif r < 0.85:
            o = {"op": "complete", "node": node, "which": rng.choice(["oldest", "newest", "all", "all"])}
            if rng.random() < 0.4:
                o["chan"] = rng.choice(fh)
        elif r < 0.95:
            o = {"op": "config", "node": 0, "chan": rng.choice(first_hops(tp))}
            if rng.random() < 0.7:
                o["max_dust"] = rng.choice([0, 0, 100000, 5000000])
        else:
            o = {"op": "feerate", "node": 0, "sat_per_kw": rng.choice([253, 500, 2000])}
        out.insert(pos, o)
    return {"cfg": script["cfg"], "ops": out, "family": "rand-async"}


def tail_steps(rng, tp, pays, extra, steps):
    """What follows the send of a structured schedule: the steps in `extra` (each a list of ops) in a random order, mixed
    with ordinary traffic."""
    seqs = [list(x) for x in extra]
    for _ in range(steps):
        seqs.append([o for o in body(rng, tp, pays, 1) if not (o["op"] == "restart" and o.get("use") == "stale")])
    rng.shuffle(seqs)
    return [o for sq in seqs for o in sq]


def wipref_script(rng):
    """A multi-path send whose first hops answer differently: the monitor write of some is in flight (the part is an
    HTLC of the payment although nothing is on the wire yet), others refuse the part at once (peer disconnected, or the
    amount is over what the channel can send), the rest take it."""
    kind = rng.choice(["fan", "fan", "par", "fan2"])
    n = rng.choice([2, 3]) if kind != "fan2" else 2
    tp = topo(kind, n)
    dst = tp["dst"]
    k = rng.randint(2, n)
    rts = rng.sample(range(n), k)
    roles = [rng.choice(["wip", "ref", "sent"]) for _ in rts]
    if rng.random() < 0.8:
        a, b = rng.sample(range(k), 2)
        roles[a], roles[b] = "wip", "ref"
    how = [rng.choice(["down", "down", "over"]) if r == "ref" else None for r in roles]
    amts = [rng.choice([1, 2, 3, 5]) * MSAT + rng.randint(0, 999) * 1000 for _ in rts]
    if rng.random() < 0.1:
        amts[0] = rng.randint(2, 300) * 1000
    samts = [{"limit": rng.choice([1000, 1000, 5000000])} if h == "over" else a for a, h in zip(amts, how)]
    over = any(h == "over" for h in how)
    ops = []
    if rng.random() < 0.5:
        ops.append({"op": "hold", "node": 0, "on": True})
    ops.append({"op": "reg", "node": dst, "reg": 1, "amt": None if over else sum(amts), "expiry": 3600, "method": rng.choice(["user", "ldk"])})
    peers = [path_nodes(tp, tp["routes"][r])[1] for r in rts]
    fh = [tp["routes"][r][0] for r in rts]
    down = [(0, peers[i]) for i in range(k) if how[i] == "down"] if kind != "par" else []
    if kind == "par" and any(h == "down" for h in how):
        # (one peer: a disconnection refuses every part) -- refuse by amount instead
        samts = [{"limit": 1000} if h == "down" else a for a, h in zip(samts, how)]
        ops[-1]["amt"] = None
    for a, b in down:
        ops.append({"op": "disconnect", "a": a, "b": b})
    wip = [fh[i] for i in range(k) if roles[i] == "wip"]
    if wip:
        ops.append({"op": "persist_mode", "node": 0, "mode": "inprogress", "chans": wip})
    send = {"op": "send", "from": 0, "id": 1, "reg": 1, "paths": [tp["routes"][r] for r in rts], "amts": samts}
    r = rng.random()
    if r < 0.5:
        send["retries"] = rng.choice([0, 1, 1, 2])
    ops.append(send)
    pays = [{"pid": 1, "reg": 1, "rts": rts, "send": send}]
    extra = [[{"op": "reconnect", "a": a, "b": b}] for a, b in down]
    if wip and rng.random() < 0.8:
        extra.append([{"op": "persist_mode", "node": 0, "mode": "completed"}])
    for c in wip:
        extra.append([{"op": "complete", "node": 0, "chan": c, "which": rng.choice(["all", "oldest"])}])
    extra.append([{"op": "handle", "node": 0}])
    if rng.random() < 0.5:
        extra.append([dict(send)])                              # the same id again
    if rng.random() < 0.3:
        extra.append([{"op": "abandon", "node": 0, "id": 1}])
    if rng.random() < 0.5:
        extra.append([{"op": "tick", "node": dst}] * 3 + [{"op": "pump"}])     # the recipient gives up on an incomplete set
    if rng.random() < 0.3 and wip and kind != "par":
        i = roles.index("wip")
        extra.append([{"op": "disconnect", "a": 0, "b": peers[i]}, {"op": "reconnect", "a": 0, "b": peers[i]}])
    ops += tail_steps(rng, tp, pays, extra, rng.randint(0, 6))
    ops.append({"op": "settle"})
    if rng.random() < 0.6:
        ops += [{"op": "tick", "node": dst}] * 3 + [{"op": "settle"}]
    return {"cfg": tp["cfg"], "ops": ops, "family": "wipref"}


def hcfail_script(rng):
    """A part parked in the holding cell of the payer's first-hop channel -- the channel waits for the peer's revocation,
    or (asynchronous persistence) the write for the peer's commitment_signed is in flight -- while something happens
    that may make it unsendable: the channel's dust-exposure limit is lowered under a dust-sized part, the peer offers
    an HTLC of its own against a part sized at the channel's limit, the peer disconnects.  Then the channel moves again."""
    kind = rng.choice(["line", "line", "par", "fan", "fan"])
    n = {"line": rng.choice([2, 3]), "par": rng.choice([1, 2]), "fan": rng.choice([2, 3])}[kind]
    tp = topo(kind, n)
    dst = tp["dst"]
    nroutes = len(tp["routes"])
    k = rng.randint(1, nroutes)
    rts = rng.sample(range(nroutes), k)
    x = 0                                        # the part that is parked
    c = tp["routes"][rts[x]][0]
    peer = path_nodes(tp, tp["routes"][rts[x]])[1]
    why = rng.choice(["write", "write", "raa"])
    unsend = rng.choice(["dust", "dust", "limit", "limit", "none", "disc"])
    if unsend == "limit":
        why = "write"
    amts = [rng.choice([1, 2, 3, 5]) * MSAT + rng.randint(0, 999) * 1000 for _ in rts]
    samts = list(amts)
    if unsend == "dust" or (unsend != "limit" and rng.random() < 0.2):
        amts[x] = samts[x] = rng.randint(2, 300) * 1000
    if unsend == "limit":
        samts[x] = {"limit": rng.choice([0, 0, 0, -1000, -50000])}
    ops = []
    if rng.random() < 0.4:
        ops.append({"op": "hold", "node": 0, "on": True})
    ops += [{"op": "reg", "node": dst, "reg": 1, "amt": None if unsend == "limit" else sum(amts), "expiry": 3600, "method": rng.choice(["user", "ldk"])},
            {"op": "reg", "node": peer, "reg": 7, "amt": MSAT, "expiry": 3600},
            {"op": "send", "from": 0, "id": 7, "reg": 7, "paths": [[c]], "amts": [MSAT]}]
    if why == "write":
        ops += [{"op": "deliver_until", "from": 0, "to": peer, "kind": "commitment_signed"},
                {"op": "deliver_until", "from": peer, "to": 0, "kind": "revoke_and_ack"},
                {"op": "persist_mode", "node": 0, "mode": "inprogress", "chans": [c]} if rng.random() < 0.7 else {"op": "persist_mode", "node": 0, "mode": "inprogress"},
                {"op": "deliver_until", "from": peer, "to": 0, "kind": "commitment_signed"}]
        if rng.random() < 0.7:
            ops.append({"op": "persist_mode", "node": 0, "mode": "completed"})
    send = {"op": "send", "from": 0, "id": 1, "reg": 1, "paths": [tp["routes"][r] for r in rts], "amts": samts}
    if rng.random() < 0.4:
        send["retries"] = rng.choice([0, 1, 2])
    # a second payment parked in the same holding cell (before or behind the first one): when the cell is freed one of
    # them may leave while the other one is failed back in the same pass
    mate = None
    if rng.random() < 0.6:
        mamt = rng.choice([1, 2, 3]) * MSAT + rng.randint(0, 999) * 1000 if rng.random() < 0.8 else rng.randint(2, 300) * 1000
        mate = {"op": "send", "from": 0, "id": 2, "reg": 2, "paths": [tp["routes"][rts[x]]], "amts": [mamt]}
        ops.append({"op": "reg", "node": dst, "reg": 2, "amt": mamt, "expiry": 3600, "method": rng.choice(["user", "ldk"])})
    first = mate is not None and rng.random() < 0.5
    if first:
        ops.append(mate)
    ops.append(send)
    if mate is not None and not first:
        ops.append(mate)
    pays = [{"pid": 1, "reg": 1, "rts": rts, "send": send}]
    if mate is not None:
        pays.append({"pid": 2, "reg": 2, "rts": [rts[x]], "send": mate})
    if rng.random() < 0.25:
        ops += body(rng, tp, pays, rng.randint(1, 3))
        ops = [o for o in ops if o["op"] != "restart"]
    if unsend == "dust":
        ops.append({"op": "config", "node": 0, "chan": c, "max_dust": rng.choice([0, 0, 1000, 100000])})
    elif unsend == "limit":
        ops += [{"op": "reg", "node": 0, "reg": 8, "amt": 2 * MSAT, "expiry": 3600},
                {"op": "send", "from": peer, "id": 8, "reg": 8, "paths": [[c]], "amts": [2 * MSAT]},
                {"op": "deliver_until", "from": peer, "to": 0, "kind": "update_add_htlc"}]
    elif unsend == "disc":
        ops += [{"op": "disconnect", "a": 0, "b": peer}]
        if rng.random() < 0.5:
            ops.append({"op": "reconnect", "a": 0, "b": peer})
    if rng.random() < 0.15:
        ops += [{"op": "feerate", "node": 0, "sat_per_kw": rng.choice([500, 1000])}, {"op": "tick", "node": 0}]
    # the channel moves again
    rel = [{"op": "complete", "node": 0, "chan": c, "which": "all"}] if why == "write" else \
          [{"op": "deliver_until", "from": peer, "to": 0, "kind": "revoke_and_ack"}]
    extra = [rel, [{"op": "handle", "node": 0}], [{"op": "claim", "reg": 7}, {"op": "pump"}]]
    if unsend == "dust" and rng.random() < 0.7:
        extra.append([{"op": "config", "node": 0, "chan": c}])
    if unsend == "limit":
        extra.append([{"op": "claim", "reg": 8}, {"op": "pump"}])
    if rng.random() < 0.4:
        extra.append([dict(send)])
    if rng.random() < 0.25:
        extra.append([{"op": "abandon", "node": 0, "id": 1}])
    if rng.random() < 0.7:
        ops += rel
    ops += tail_steps(rng, tp, pays, extra, rng.randint(0, 5))
    ops += [{"op": "config", "node": 0, "chan": c}, {"op": "settle"}, {"op": "claim", "reg": 7}]
    if unsend == "limit":
        ops.append({"op": "claim", "reg": 8})
    ops.append({"op": "settle"})
    if rng.random() < 0.4:
        ops += [{"op": "tick", "node": dst}] * 3 + [{"op": "settle"}]
    return {"cfg": tp["cfg"], "ops": ops, "family": "hcfail"}


# --------------------------------------------------------------------------- engine + validation

def run_engine(pid, binpath, scripts, seed, tag, procs=8):
    """Run the scripts in `procs` engine processes; returns (trace path, summary). Runs are renumbered."""
    wd = vlib.workdir(pid)
    chunks = [scripts[i::procs] for i in range(procs)]
    chunks = [c for c in chunks if c]
    ps = []
    for k, ch in enumerate(chunks):
        sp = os.path.join(wd, "scripts-%s-%d.ndjson" % (tag, k))
        with open(sp, "w") as f:
            for s in ch:
                f.write(json.dumps(s) + "\n")
        tp = os.path.join(wd, "trace-%s-%d.ndjson" % (tag, k))
        ps.append((k, tp, subprocess.Popen([binpath, "--scripts", sp, "--out", tp, "--seed", str(seed)],
                                           stdout=subprocess.DEVNULL, stderr=subprocess.DEVNULL)))
    summ = {"runs": 0, "events": 0, "panics": 0, "executed": 0, "skipped": 0, "restarts": 0, "setup_failures": 0}
    out = os.path.join(wd, "trace-%s.ndjson" % tag)
    index = []      # global run id -> script
    with open(out, "w") as fo:
        for k, tp, p in ps:
            rc = p.wait(timeout=3000)
            if rc != 0:
                raise vlib.ToolError("engine paynet exited %d (chunk %d of %s)" % (rc, k, tag))
            s = json.load(open(tp + ".summary"))
            for key in summ:
                summ[key] += s[key]
            base = len(index)
            index += chunks[k]
            with open(tp) as f:
                for ln in f:
                    r = json.loads(ln)
                    r["run"] += base
                    fo.write(json.dumps(r) + "\n")
            os.remove(tp)
    return out, summ, index


ASYNC_EVENTS = ("persist", "complete", "persist_mode", "config")


def events_of_run(fail):
    return fail["run_events"]


def attribute(pid, wd, fail, other_module, tag):
    """Is the rejected run also rejected by the other half's trace spec (at or before this event)?"""
    p = os.path.join(wd, "attr-%s.ndjson" % tag)
    orig = []       # position in the written file -> position in the run
    with open(p, "w") as f:
        for k, r in enumerate(fail["run_events"]):
            if r["ev"] == "restart" and r.get("stale"):
                break       # the other half's spec does not cover what follows a stale restart (closed channels)
            if r["ev"] in ASYNC_EVENTS:
                continue    # ... nor the payer's persister / configuration (it has no rule about them)
            f.write(json.dumps(r) + "\n")
            orig.append(k + 1)
    _, fl = vlib.validate_trace(pid, other_module, other_module + ".cfg", p, max_failures=1, tag="attr")
    if not fl:
        return False
    q = fl[0]["pos_in_run"]
    return (orig[q - 1] if 0 < q <= len(orig) else q) <= fail["pos_in_run"]


# --------------------------------------------------------------------------- PaySendMC behaviours -> paynet scripts

def compile_send_script(s, rng):
    """A behaviour of PaySendMC (user-level / network-level steps over the fan A-{B_1..B_K}-D)
    compiled to engine ops: part k of a payment travels A -chan k-> B_k -chan K+k-> D, or, in the deep
    variant, A -> B_k -> C_k -> D (a part that `failhop` fails is then failed by C_k, the second of two
    forwarding nodes); the payer A (node 0) handles events only when the behaviour says so; resolutions are
    handed to A one by one (`barrier`), so that `deliver` / `dup` / `commit` keep their meaning.

    The answers of the first-hop channels at send time (`ocs`) are arranged beforehand: "wip" -- the payer's
    persister reports the writes of that channel InProgress; "ref" -- the peer is disconnected; "hc" -- the
    channel is made busy by a small payment to B_k (its revocation outstanding, or -- asynchronous persistence --
    the write for B_k's commitment_signed in flight), so that the part is parked in the holding cell.  A parked part
    that `release` fails back is dust-sized and the channel's dust-exposure limit is lowered to nothing before the
    holding cell is freed, or it is sized at the channel's limit and B_k offers an HTLC of its own meanwhile."""
    K = s["k"]
    deep = rng.random() < 0.4
    D = 2 * K + 1 if deep else K + 1
    last = (lambda k: K + k) if deep else (lambda k: k)          # the node that forwards to D on branch k

    def links(k):
        return [[0, k], [k, K + k], [K + k, D]] if deep else [[0, k], [k, D]]

    def path(k):
        return [k, K + k, 2 * K + k] if deep else [k, K + k]
    ops = [{"op": "hold", "node": 0, "on": True}]
    stale = False
    base, regs, first_reg, cur = {}, {}, {}, {}
    # how a parked part that is failed back becomes unsendable
    unsend = {}
    for o in s["ops"]:
        if o["op"] == "release" and o["fate"] == "fail":
            unsend[(o["p"], o["k"])] = rng.choice(["dust", "dust", "limit"])
    busy = {}            # branch -> why its channel cannot move ("raa" | "write")
    primers = []         # registrations of the small payments that keep a channel busy
    npr = 0
    limit_used = set()
    for o in s["ops"]:
        t = o["op"]
        if t == "send":
            p, n = o["p"], o["n"]
            ocs = o.get("ocs") or ["sent"] * n
            roc = o.get("roc", "sent")
            if p not in base:
                base[p] = [rng.choice([1, 2, 3, 5]) * MSAT + (7 * p + k) * 1000 for k in range(1, K + 1)]
                if rng.random() < 0.1:
                    base[p][0] = (50 + 7 * p) * 1000          # a dust-sized part
                for k in range(1, K + 1):
                    if unsend.get((p, k)) == "dust":
                        base[p][k - 1] = (60 + 7 * p + k) * 1000
            amts = list(base[p][:n])
            lim = [k for k in range(1, n + 1) if unsend.get((p, k)) == "limit" and ocs[k - 1] == "hc"]
            key = (p, n, bool(lim))
            if key not in regs:
                rid = 10 * p + n + (5 if lim else 0)
                r = {"op": "reg", "node": D, "reg": rid, "amt": None if lim else sum(amts), "expiry": 3600}
                if p in first_reg:
                    r["same_hash_as"] = first_reg[p]
                ops.append(r)
                regs[key] = rid
                first_reg.setdefault(p, rid)
            free = list(range(n + 1, K + 1))
            if o.get("retries", 0) > 0 and not o.get("planted", False):
                # a payment with automatic retries, routed by the payer's router: the first attempt goes over
                # branch 1 (the first hops of the other branches are down while it is sent)
                for j in range(2, K + 1):
                    ops.append({"op": "disconnect", "a": 0, "b": j})
                ops.append({"op": "send", "from": 0, "id": p, "reg": regs[key], "auto": True, "to": D, "amt": amts[0],
                            "retries": o["retries"]})
                for j in range(2, K + 1):
                    ops += [{"op": "reconnect", "a": 0, "b": j}, {"op": "pump", "links": [[0, j]], "barrier": 0}]
            else:
                # ---- the channels answer as the behaviour says
                for k in range(1, n + 1):
                    if ocs[k - 1] == "hc" and k not in busy:
                        npr += 1
                        why = "write" if unsend.get((p, k)) == "limit" else rng.choice(["raa", "write"])
                        pr = 900 + npr
                        ops += [{"op": "reg", "node": k, "reg": pr, "amt": MSAT + npr * 1000, "expiry": 3600},
                                {"op": "send", "from": 0, "id": 50 + npr, "reg": pr, "paths": [[k]], "amts": [MSAT + npr * 1000]}]
                        if why == "write":
                            ops += [{"op": "deliver_until", "from": 0, "to": k, "kind": "commitment_signed"},
                                    {"op": "deliver_until", "from": k, "to": 0, "kind": "revoke_and_ack"},
                                    {"op": "persist_mode", "node": 0, "mode": "inprogress", "chans": [k]},
                                    {"op": "deliver_until", "from": k, "to": 0, "kind": "commitment_signed"},
                                    {"op": "persist_mode", "node": 0, "mode": "completed"}]
                        busy[k] = why
                        primers.append(pr)
                wip = [k for k in range(1, n + 1) if ocs[k - 1] == "wip"] + (free if roc == "wip" else [])
                down = [k for k in range(1, n + 1) if ocs[k - 1] == "ref"] + (free if roc == "ref" else [])
                for k in down:
                    ops.append({"op": "disconnect", "a": 0, "b": k})
                if wip:
                    ops.append({"op": "persist_mode", "node": 0, "mode": "inprogress", "chans": wip})
                send = {"op": "send", "from": 0, "id": p, "reg": regs[key],
                        "paths": [path(k) for k in range(1, n + 1)],
                        "amts": [{"limit": 0} if k in lim else amts[k - 1] for k in range(1, n + 1)]}
                if o.get("retries", 0) > 0:
                    send["retries"] = o["retries"]
                ops.append(send)
                if wip:
                    ops.append({"op": "persist_mode", "node": 0, "mode": "completed"})
                for k in down:
                    ops += [{"op": "reconnect", "a": 0, "b": k}, {"op": "pump", "links": [[0, k]], "barrier": 0}]
            cur[p] = regs[key]
        elif t == "complete":
            ops.append({"op": "complete", "node": 0, "chan": o["k"], "which": "all"})
        elif t == "release":
            p, k = o["p"], o["k"]
            why = busy.pop(k, "raa")
            free = [j for j in range(1, K + 1) if j != k]
            if o["fate"] == "fail":
                if unsend.get((p, k)) == "limit" and why == "write":
                    # B_k offers an HTLC of its own while the payer's part is parked: the payer (who pays the commitment
                    # fee) can no longer afford the part it sized at the limit
                    npr += 1
                    ops += [{"op": "reg", "node": 0, "reg": 900 + npr, "amt": 2 * MSAT, "expiry": 3600},
                            {"op": "send", "from": k, "id": 50 + npr, "reg": 900 + npr, "paths": [[k]], "amts": [2 * MSAT]},
                            {"op": "deliver_until", "from": k, "to": 0, "kind": "update_add_htlc"}]
                else:
                    ops.append({"op": "config", "node": 0, "chan": k, "max_dust": 0})
            if o.get("roc") == "wip":
                ops.append({"op": "persist_mode", "node": 0, "mode": "inprogress", "chans": free})
            if why == "write":
                ops.append({"op": "complete", "node": 0, "chan": k, "which": "all"})
            else:
                ops.append({"op": "deliver_until", "from": k, "to": 0, "kind": "revoke_and_ack"})
            if o.get("roc") == "wip":
                ops.append({"op": "persist_mode", "node": 0, "mode": "completed"})
            if o["fate"] == "fail":
                ops.append({"op": "config", "node": 0, "chan": k})
        elif t == "arrive":
            ops.append({"op": "pump", "links": links(o["k"]), "barrier": 0})
        elif t == "failhop":
            k = o["k"]
            ops += [{"op": "disconnect", "a": last(k), "b": D}, {"op": "pump", "links": links(k)[:-1], "barrier": 0},
                    {"op": "reconnect", "a": last(k), "b": D}]
        elif t in ("claim", "failr"):
            ops.append({"op": "claim" if t == "claim" else "failback", "reg": cur.get(o["p"], 0)})
            ops.append({"op": "pump", "links": [l for k in range(1, K + 1) for l in reversed(links(k))], "barrier": 0})
        elif t == "deliver":
            ops.append({"op": "deliver_until", "from": o["k"], "to": 0, "kind": "resolution"})
        elif t == "dup":
            k = o["k"]
            ops += [{"op": "disconnect", "a": 0, "b": k}, {"op": "reconnect", "a": 0, "b": k},
                    {"op": "pump", "links": [[0, k]], "barrier": 0},
                    {"op": "deliver_until", "from": k, "to": 0, "kind": "resolution"}]
        elif t == "commit":
            wip = o.get("roc") == "wip"
            if wip:
                ops.append({"op": "persist_mode", "node": 0, "mode": "inprogress", "chans": [j for j in range(1, K + 1) if j != o["k"]]})
            ops.append({"op": "pump", "links": [[0, o["k"]]], "barrier": 0})
            if wip:
                ops.append({"op": "persist_mode", "node": 0, "mode": "completed"})
        elif t == "handle":
            ops.append({"op": "handle", "node": 0})
        elif t == "tick":
            ops.append({"op": "tick", "node": 0})
        elif t == "save":
            ops.append({"op": "save", "node": 0})
        elif t == "restart":
            ops += [{"op": "restart", "node": 0, "use": "last"}, {"op": "reconnect_all"}, {"op": "pump", "barrier": 0}]
        elif t == "restart_stale":
            # LDK closes the channels whose monitors are ahead; the peers come back (and learn of the closes)
            stale = True
            ops += [{"op": "restart", "node": 0, "use": "stale"}, {"op": "reconnect_all"}, {"op": "pump", "barrier": 0}]
        elif t == "abandon":
            ops.append({"op": "abandon", "node": 0, "id": o["p"]})
    if stale:
        # the chain settles: commitments confirm, HTLC outputs are claimed with the preimage or time out
        ops.append({"op": "settle_chain"})
    if primers:
        # the small payments that kept a channel busy are claimed by their recipients
        ops += [{"op": "complete", "node": 0, "which": "all"}, {"op": "pump", "barrier": 0}]
        ops += [{"op": "claim", "reg": r} for r in primers]
    ops.append({"op": "settle"})
    return {"cfg": {"topo": "fan2" if deep else "fan", "n": K}, "ops": ops}


# --------------------------------------------------------------------------- random C04 scripts

def probe_consts(pid, binpath):
    """The constants of the code under test, as the engine reports them in its `open` record."""
    wd = vlib.workdir(pid)
    sp, tp = os.path.join(wd, "probe.ndjson"), os.path.join(wd, "probe-trace.ndjson")
    with open(sp, "w") as f:
        f.write(json.dumps({"cfg": {"topo": "par", "n": 1}, "ops": []}) + "\n")
    subprocess.run([binpath, "--scripts", sp, "--out", tp], stdout=subprocess.DEVNULL, stderr=subprocess.DEVNULL, timeout=300)
    with open(tp) as f:
        return json.loads(f.readline())["consts"]


def random_recv_script(rng, consts):
    BUF, MPPT = consts["fail_back_buffer"], consts["mpp_ticks"]
    kind = rng.choice(["par", "par", "par", "line", "fan"])
    n = {"par": rng.choice([1, 2, 3]), "line": 3, "fan": 2}[kind]
    tp = topo(kind, n)
    tp["cfg"]["style"] = rng.choice([0, 0, 2, 4, 1])
    dst = tp["dst"]
    routes = tp["routes"]
    ops = []
    A = rng.choice([2, 4, 6, 10]) * MSAT + rng.randint(0, 9) * 1000
    minc = rng.choice([None, None, 45, 60])
    exp = rng.choice([3600, 3600, 60])
    method = rng.choice(["user", "user", "ldk"])
    any_amt = rng.random() < 0.08
    ops.append({"op": "reg", "node": dst, "reg": 1, "amt": None if any_amt else A, "expiry": exp, "min_cltv": minc, "method": method})
    regmeta = rng.random() < 0.15
    if regmeta:
        ops[-1]["meta"] = rng.randint(1, 9)
    # the recipient's channels that accept under-paying HTLCs; the last forwarding nodes may intercept
    rchans = sorted({r[-1] for r in routes})
    if rng.random() < 0.4:
        tp["cfg"]["underpay"] = rchans if rng.random() < 0.6 else rng.sample(rchans, rng.randint(0, len(rchans)))
    skimmy = kind != "par" and rng.random() < 0.6
    if skimmy:
        tp["cfg"]["intercept"] = True
    other = None
    if rng.random() < 0.45:
        # a second registration: another hash, or the same hash with another amount
        same = method == "user" and rng.random() < 0.4
        other = {"op": "reg", "node": dst, "reg": 2, "amt": rng.choice([1, 3, 8]) * MSAT, "expiry": 3600, "method": "user"}
        if same:
            other["same_hash_as"] = 1
        ops.append(other)
    expired = rng.random() < 0.1
    if expired:
        ops.append({"op": "time_jump", "secs": exp + 7200 + rng.choice([-5, -1, 0, 1, 2, 600])})
    # ---- the parts
    scen = rng.choice(["split", "split", "split", "under", "over", "total_mismatch", "bad_secret", "cltv", "extra", "keysend", "single"])
    k = 1 if scen in ("single", "keysend") else rng.choice([1, 2, 2, 3])
    cuts = sorted(rng.sample(range(1, 20), k - 1)) if k > 1 else []
    shares = [b - a for a, b in zip([0] + cuts, cuts + [20])]
    amts = [A * s // 20 for s in shares]
    amts[-1] += A - sum(amts)
    total = A
    if scen == "under":
        amts[rng.randrange(k)] -= rng.choice([1, 1000, 1000, 2000, A // 10])
    if scen == "over":
        amts[rng.randrange(k)] += rng.choice([1, 1000, A // 2, A, 3 * A])
        if rng.random() < 0.5:
            total = sum(amts)
    amts = [max(a, 1000) for a in amts]
    good_delta = (minc or 0) + rng.choice([40, 70, 70, 100])
    parts = []
    for i, a in enumerate(amts):
        parts.append({"amt": a, "total": total, "secret": {"reg": 1}, "delta": good_delta + rng.choice([0, 0, 3, 7]) * (i % 2)})
    if scen == "total_mismatch" and k > 1:
        parts[rng.randrange(k)]["total"] = total + rng.choice([-1000, 1000, A])
    if scen == "total_mismatch" and k == 1:
        parts[0]["total"] = total + rng.choice([-1000, 1000])
    if scen == "bad_secret":
        j = rng.randrange(k)
        parts[j]["secret"] = rng.choice([{"reg": 1, "flip": rng.randrange(256)}, {"reg": 1, "flip": rng.randrange(256)},
                                         {"reg": 2} if other else {"reg": 1, "flip": rng.randrange(128)}, "none"])
    if scen == "cltv":
        j = rng.randrange(k)
        if minc and rng.random() < 0.6:
            parts[j]["delta"] = minc - 1 + rng.choice([-2, -1, 0, 1])
        else:
            parts[j]["delta"] = BUF + rng.choice([-2, -1, 0, 1, 2])
    if scen == "extra":
        parts.append({"amt": rng.choice([1, 2]) * MSAT, "total": total, "secret": {"reg": 1}, "delta": good_delta})
    if other and other.get("same_hash_as") and rng.random() < 0.5:
        # pay the second registration of the same hash (its own amount) instead / as well
        parts.append({"amt": other["amt"], "total": other["amt"], "secret": {"reg": 2}, "delta": good_delta, "reg": 2})
    # ---- onion fields: custom TLVs (even type: must be understood) common to all parts, one part deviating
    if scen != "keysend" and rng.random() < 0.4:
        univ = [65536, 65537, 65538, 65539, 70001]
        base = {t: rng.choice([1, 2]) for t in rng.sample(univ, rng.randint(0, 3))}
        for p in parts:
            p["tlvs"] = dict(base)
        if rng.random() < 0.7:
            j = rng.choice([0, len(parts) - 1, rng.randrange(len(parts))])
            t = rng.choice(univ if rng.random() < 0.5 or not base else list(base))
            d = parts[j]["tlvs"]
            if t in d and rng.random() < 0.5:
                del d[t]
            else:
                d[t] = 3 - d[t] if t in d else rng.choice([1, 2])
    if scen != "keysend" and rng.random() < (0.5 if regmeta else 0.05):
        parts[rng.randrange(len(parts))]["meta"] = rng.choice(["none", "flip"])
    # (the trace spec ties an arriving HTLC to what its sender put into the onion by hash and amount: parts that
    # differ in anything else get different amounts)
    seen_amts = set()
    for p in parts:
        while p["amt"] in seen_amts:
            p["amt"] += 1000
        seen_amts.add(p["amt"])
    rng.shuffle(parts) if rng.random() < 0.3 else None
    pid = 0
    for i, p in enumerate(parts):
        pid += 1
        rt = routes[i % len(routes)] if rng.random() < 0.8 else rng.choice(routes)
        if scen == "keysend":
            if kind == "par" and n > 1:
                pass
            ops.append({"op": "send", "from": 0, "id": pid, "fresh": 700 + pid, "keysend": True, "to": dst, "amt": p["amt"]})
        else:
            ops.append({"op": "send", "from": 0, "id": pid, "reg": p.get("reg", 1), "paths": [rt], "amts": [p["amt"]],
                        "total": p["total"], "secret": p["secret"], "cltv": p["delta"]})
            if p.get("tlvs"):
                ops[-1]["tlvs"] = [[t, v] for t, v in sorted(p["tlvs"].items())]
            if p.get("meta"):
                ops[-1]["meta"] = p["meta"]
            # the last forwarding node skims a fee off this part and / or reports one
            if skimmy and len(rt) > 1 and rng.random() < 0.5 and p["amt"] > 300000:
                short = rng.choice([1, 2, 20, 1000, 1000, 250000])
                ops[-1]["skim"] = [short]
                ops[-1]["skim_tlv"] = [rng.choice([None, None, None, -1, 0, short - 1, short, short + 1, 2 * short])]
            elif rng.random() < 0.04:
                ops[-1]["skim_tlv"] = [rng.choice([1, 1000])]
        ops.append({"op": "pump"})
        r = rng.random()
        if r < 0.15:
            ops += [{"op": "tick", "node": dst}] * rng.choice([1, 1, MPPT, MPPT + 1])
            ops.append({"op": "pump"})
        elif r < 0.27:
            ops.append({"op": "block", "n": rng.choice([1, 1, 2, 5])})
            ops.append({"op": "pump"})
        elif r < 0.32:
            ops.append({"op": "disconnect", "a": tp["chans"][rt[-1] - 1][0], "b": dst})
            if rng.random() < 0.7:
                ops.append({"op": "reconnect_all"})
    # ---- the user's answer
    tgt = {"fresh": 701, "node": dst} if scen == "keysend" else {"reg": 1}
    r = rng.random()
    known = rng.random() < 0.35
    if r < 0.45:
        ops.append(dict({"op": "claim", "known": known}, **tgt))
    elif r < 0.60:
        ops.append(dict({"op": "failback"}, **tgt))
    elif r < 0.90 and scen != "keysend":
        off = rng.choice([-2, -1, -1, 0, 0, 1])
        ops.append({"op": "block_to_deadline", "reg": 1, "offset": off})
        ops.append({"op": "pump"}) if rng.random() < 0.5 else None
        ops.append(dict({"op": rng.choice(["claim", "claim", "claim", "failback"]), "known": known}, **tgt))
    ops = [o for o in ops if o]
    ops.append({"op": "pump"})
    if rng.random() < 0.3:
        ops += [{"op": "tick", "node": dst}] * rng.choice([1, MPPT + 1])
    ops.append({"op": "settle"})
    if rng.random() < 0.35 and scen != "keysend":
        # let every part reach its own fail-back height
        ops.append({"op": "block_to_deadline", "reg": 1, "offset": rng.choice([0, 1, 8, 12])})
        ops.append({"op": "settle"})
    if other and other.get("same_hash_as") is None and rng.random() < 0.5:
        ops.insert(len(ops) - 1, {"op": "claim", "reg": 2})
    return {"cfg": tp["cfg"], "ops": ops}


# --------------------------------------------------------------------------- PayRecvMC behaviours -> paynet scripts

FLD_TLVS = {"none": [], "o1": [[65537, 1]], "o1b": [[65537, 2]], "o2": [[65539, 1]], "e1": [[65536, 1]], "e1b": [[65536, 2]],
            "e2": [[65538, 1]], "e1o1": [[65536, 1], [65537, 1]], "e1e2": [[65536, 1], [65538, 1]], "o1o2": [[65537, 1], [65539, 1]], "o1e2": [[65537, 1], [65538, 1]],
            "mnone": [], "mflip": []}


def compile_recv_script(s, rng, consts):
    """A behaviour of PayRecvMC (parts with their onion class, onion fields, what the last forwarding node skims
    and reports, ticks, blocks, the user's answer) compiled to engine ops: over C parallel channels between sender
    0 and recipient 1, or, when a part is skimmed, over the fan 0 -chan b-> B_b -chan C+b-> D whose B_b intercept."""
    C, BUF = s["c"], consts["fail_back_buffer"]
    regmin = s["regmin"]
    parts = [o for o in s["ops"] if o["op"] == "part"]
    fan = any(o.get("sk", "no") != "no" for o in parts)
    D = C + 1 if fan else 1
    off = {"b0": BUF, "b1": BUF + 1, "b2": BUF + 2, "far": 71, "far2": 80, "m-1": regmin - 1, "m0": regmin}
    ops = [{"op": "reg", "node": D, "reg": 1, "amt": s["regamt"] * MSAT, "expiry": 3600,
            "min_cltv": regmin if regmin else None, "method": rng.choice(["user", "user", "ldk"])}]
    if s.get("regmeta", 0):
        ops[0]["meta"] = s["regmeta"]
    if any(o["sec"] == "other" for o in parts):
        ops.append({"op": "reg", "node": D, "reg": 2, "amt": MSAT, "expiry": 3600, "method": "user"})
    i = 0
    for o in s["ops"]:
        t = o["op"]
        if t == "part":
            i += 1
            b = (i - 1) % C + 1
            sec = {"ok": {"reg": 1}, "flip": {"reg": 1, "flip": rng.randrange(256)}, "other": {"reg": 2}}[o["sec"]]
            send = {"op": "send", "from": 0, "id": i, "reg": 1, "paths": [[b, C + b] if fan else [b]], "amts": [o["amt"] * MSAT],
                    "total": o["tot"] * MSAT, "secret": sec, "cltv": off[o["cl"]] - 1}
            f = o.get("f", "none")
            if FLD_TLVS[f]:
                send["tlvs"] = FLD_TLVS[f]
            if f in ("mnone", "mflip"):
                send["meta"] = "none" if f == "mnone" else "flip"
            sk = o.get("sk", "no")
            if sk == "tlv":
                send["skim_tlv"] = [rng.choice([1, 20, 1000])]
            elif sk != "no":
                short = rng.choice([2, 20, 1000, 250000])
                send["skim"] = [short]
                send["skim_tlv"] = [{"s0": rng.choice([-1, 0]), "s-1": short - 1, "s=": rng.choice([None, short]), "s+": short + 1}[sk]]
            ops.append(send)
        elif t == "tick":
            ops.append({"op": "tick", "node": D})
        elif t == "block":
            ops.append({"op": "block", "n": o["n"]})
        elif t == "claim":
            ops.append({"op": "claim", "reg": 1, "known": o.get("kind") == "claimk"})
        elif t == "failback":
            ops.append({"op": "failback", "reg": 1})
        ops.append({"op": "pump"})
    ops.append({"op": "settle"})
    cfg = {"topo": "fan" if fan else "par", "n": C, "style": rng.choice([0, 2, 4])}
    if fan:
        cfg["intercept"] = True
    if s.get("up"):
        cfg["underpay"] = list(range(C + 1, 2 * C + 1)) if fan else list(range(1, C + 1))
    return {"cfg": cfg, "ops": ops}


# --------------------------------------------------------------------------- the two checks

SPECS = {
    "C03": {"trace": "PaySendTrace", "other": "PayRecvTrace", "mc": "PaySendMC",
            "actions": ["MObs", "MSend", "MAbandon", "MHandle", "MTick", "MSave", "MRestart", "MArrive", "MFailHop",
                        "MClaim", "MFailR", "MDeliver", "MDup", "MCommit", "MQuiet",
                        "MRestartStale", "MConfirm", "MChainClaim", "MChainTimeout", "MComplete", "MRelease"]},
    "C04": {"trace": "PayRecvTrace", "other": None, "mc": "PayRecvMC",
            "actions": ["MObs", "MPart", "MTick", "MClaim", "MFailBack", "MQuiet"]},
}


def trace_stats(path):
    """What the recorded runs contain (for vacuity guards and the evidence)."""
    c = {}

    def inc(k, n=1):
        c[k] = c.get(k, 0) + n
    cur, sent, failed = None, {}, {}
    addseen, wipnow = set(), set()
    burst, freed = None, {}     # the adds that left the payer right after a completion: chan -> set of hashes
    with open(path) as f:
        for ln in f:
            r = json.loads(ln)
            if r["run"] != cur:
                addseen, wipnow = set(), set()
                burst, freed = None, {}
                if any(v > 1 for v in sent.values()):
                    inc("runs_with_repeated_PaymentSent")
                if any(v > 1 for v in failed.values()):
                    inc("runs_with_repeated_PaymentFailed")
                cur, sent, failed = r["run"], {}, {}
            if burst is not None and not (r["ev"] in ("msg", "persist")):
                burst = None
            if r["ev"] == "complete" and r["node"] == 0:
                burst = r["chan"]
            elif burst is not None and r["ev"] == "msg" and r["kind"] == "update_add_htlc" and r["from"] == 0 and r["chan"] == burst:
                freed.setdefault(burst, set()).add(r["hash"])
            e = r["ev"]
            if e == "event":
                inc("ev_" + r["kind"])
                if r["kind"] == "PaymentClaimable":
                    if r.get("skimmed", 0) > 0:
                        inc("claimable_skimmed")
                    if r.get("tlvs"):
                        inc("claimable_with_tlvs")
                        if any(t[0] % 2 == 0 for t in r["tlvs"]):
                            inc("claimable_with_even_tlv")
                    if r.get("meta", 0) > 0:
                        inc("claimable_with_metadata")
                if r["kind"] == "PaymentSent":
                    sent[r["pid"]] = sent.get(r["pid"], 0) + 1
                elif r["kind"] == "PaymentFailed":
                    failed[r["pid"]] = failed.get(r["pid"], 0) + 1
                elif r["kind"] == "PaymentPathFailed":
                    if not r["initial"] and r["path"] and r["blamed"] == r["path"][0] and r["node"] == 0 and \
                            not any(k[0] == r["hash"] and k[1] == r["path"][0] for k in addseen):
                        inc("pathfailed_never_offered")       # failed inside the payer (freed from a holding cell, unsendable)
                        if freed.get(r["path"][0], set()) - {r["hash"]}:
                            inc("pathfailed_never_offered_beside_a_released_add")     # (a mixed release)
                    if r["initial"]:
                        inc("pathfailed_initial")
                        if wipnow:
                            inc("pathfailed_initial_while_write_in_flight")
                    elif r["blamed"] == 0:
                        inc("pathfailed_no_channel")
                    elif r["blamed"] in r["path"]:
                        inc("pathfailed_hop%d" % (r["path"].index(r["blamed"]) + 1))
            elif e == "send":
                inc("send_" + r["res"])
                if len(r["parts"]) > 1:
                    inc("send_multipart")
                if r.get("tlvs"):
                    inc("send_with_tlvs")
                if r.get("meta", 0) == 2:
                    inc("send_foreign_metadata")
                if any(x["amt"] < x.get("oamt", x["amt"]) for x in r["parts"]):
                    inc("send_skimmed_part")
            elif e == "msg":
                if r["kind"] == "update_add_htlc" and r["from"] == 0:
                    addseen.add((r["hash"], r["chan"]))
                if r["kind"] != "update_add_htlc":
                    inc("msg_" + r["kind"])
                elif r.get("skim", 0) > 0:
                    inc("add_with_skimmed_fee")
            elif e in ("claim", "failback", "restart", "save", "tick", "block", "abandon", "panic", "quiet"):
                inc(e)
                if e == "claim" and r.get("known"):
                    inc("claim_known")
                if e == "restart" and r.get("stale"):
                    inc("restart_stale")
                if e == "quiet" and r.get("settled"):
                    inc("quiet_chain_settled")
            elif e == "open":
                if r.get("underpay"):
                    inc("runs_with_underpay_channels")
            elif e == "chain":
                inc("chain_commitment" if r["what"] == "commitment" else "chain_htlc_claimed" if r["preimage"] else "chain_htlc_timeout")
            elif e in ("persist", "complete", "config"):
                inc(e)
                if e == "persist":
                    wipnow.add((r["node"], r["chan"], r["id"]))
                    if r["node"] != 0:
                        inc("persist_not_payer")
                elif e == "complete":
                    wipnow.discard((r["node"], r["chan"], r["id"]))
    return c


def mutate(recs, fn):
    """Apply fn to a deep copy of the first record it accepts; returns (records of that run) or None."""
    for k, r in enumerate(recs):
        m = fn(json.loads(json.dumps(r)), k, recs)
        if m is not None:
            run = r["run"]
            out = []
            for j, x in enumerate(recs):
                if x["run"] != run:
                    continue
                if j == k:
                    out += m
                else:
                    out.append(x)
            return out
    return None


def selftest(pid, wd, tpath, muts):
    """Binding self-test: each corruption of an accepted trace must be rejected by the trace spec."""
    recs = []
    for n, tp in enumerate([tpath] if isinstance(tpath, str) else list(tpath)):
        with open(tp) as f:
            for x in f:
                r = json.loads(x)
                r["run"] += 1000000 * n
                recs.append(r)
    done, rejected, names = 0, 0, []
    for name, fn in muts:
        m = mutate(recs, fn)
        if m is None:
            continue
        p = os.path.join(wd, "selftest-%s.ndjson" % name)
        with open(p, "w") as f:
            for r in m:
                f.write(json.dumps(r) + "\n")
        _, fails = vlib.validate_trace(pid, SPECS[pid]["trace"], SPECS[pid]["trace"] + ".cfg", p, max_failures=1, tag="st")
        done += 1
        names.append(name)
        if fails:
            rejected += 1
        else:
            vlib.log("[selftest] corruption %s was NOT rejected" % name)
    if done < len(muts) - 1 or rejected != done:
        raise vlib.ToolError("binding self-test: %d of %d corrupted traces rejected (%s)" % (rejected, done, names))
    return {"mutations": done, "rejected": rejected, "kinds": names}


def run_probes(pid, binpath, seed, probes):
    """Directed scripts for recorded findings: run only for findings registered in KNOWN_FINDINGS.jsonl
    (they print KNOWN-FINDING and do not count); an unregistered finding's probe is skipped."""
    known = {k.get("key") for k in vlib.load_known() if k.get("property") == pid}
    out = []
    for key, script in probes:
        if key not in known:
            vlib.log("[probe] finding %s is not registered in KNOWN_FINDINGS.jsonl: probe skipped" % key)
            out.append({"key": key, "ran": False})
            continue
        tpath, summ, index = run_engine(pid, binpath, [script], seed, "probe", procs=1)
        _, fails = vlib.validate_trace(pid, SPECS[pid]["trace"], SPECS[pid]["trace"] + ".cfg", tpath, max_failures=1, tag="probe")
        if fails:
            vlib.report_violation(pid, "probe-" + key, {"property": pid, "script": script, "first_unmatched_event": fails[0]["rec"],
                                                        "trace_of_run": fails[0]["run_events"]}, key=key)
        else:
            vlib.log("[probe] known finding %s no longer reproduces" % key)
        out.append({"key": key, "ran": True, "reproduced": bool(fails)})
    return out


def run_spec_mutants(pid, module, cfgs):
    """Design models with a planted defect: TLC must find the observable specification violated (a deadlock:
    an unmet guard of the specification) -- otherwise the specification is too weak there."""
    out = []
    wd = vlib.workdir(pid)
    for cfg in cfgs:
        meta = os.path.join(wd, "meta-" + cfg.replace(".cfg", ""))
        cmd = ["timeout", "600"] + vlib._java(xmx="8g", xss="512m") + ["-workers", "12", "-metadir", meta, "-cleanup", "-noGenerateSpecTE",
                                                                         "-config", cfg, module + ".tla"]
        p = subprocess.run(cmd, cwd=vlib.SPEC, stdout=subprocess.PIPE, stderr=subprocess.STDOUT, text=True)
        subprocess.run(["rm", "-rf", meta])
        with open(os.path.join(wd, "tlc-%s.out" % cfg.replace(".cfg", "")), "w") as f:
            f.write(p.stdout)
        if p.returncode == 124:
            raise vlib.ToolError("TLC timeout on %s/%s" % (module, cfg))
        refuted = "Error: Deadlock reached" in p.stdout or " is violated" in p.stdout
        if not refuted and "Model checking completed. No error has been found" not in p.stdout:
            vlib.log(p.stdout[-2000:])
            raise vlib.ToolError("TLC error on %s/%s" % (module, cfg))
        vlib.log("[mc-mutant] %s: %s" % (cfg, "refuted" if refuted else "NOT refuted"))
        if not refuted:
            raise vlib.ToolError("spec mutant %s/%s is not refuted: the observable specification does not notice the planted defect" % (module, cfg))
        out.append({"cfg": cfg, "refuted": True})
    return out


def run_check(pid, tier, seed, mc_cfgs, compile_fn, random_fn, n_tlc, n_rand, need, selftests, assumptions, pick=None, probes=(),
              mc_mutants=(), families=(), extra_parts=(), need_feat=()):
    """families: (name, fn(rng) -> script, count): structured schedules, run as a batch of their own;
    extra_parts: (name, fn(pid, tier, seed, wd) -> (violations, coverage)): further parts of the check with their own
    specification and engine (the contract of chan_common.run_check's extra_parts);
    need_feat: features (`feat` of a printed behaviour) that the behaviours handed to the engine must show."""
    t0 = time.time()
    wd = vlib.workdir(pid)
    bins = vlib.build(["paynet"])
    thorough = tier == "thorough"
    rng = random.Random(seed)
    spec = SPECS[pid]
    consts = probe_consts(pid, bins["paynet"])

    # further parts of the check with their own specification and engine run beside this one
    import threading
    parts_res = {}

    def _part(pname, fn):
        try:
            parts_res[pname] = fn(pid, tier, seed, wd)
        except BaseException as e:      # re-raised when the part is joined
            parts_res[pname] = e
    part_threads = [(pname, threading.Thread(target=_part, args=(pname, fn))) for pname, fn in extra_parts]
    for _, th in part_threads:
        th.start()

    # ---- design check + behaviours (the instances are small: up to three at a time)
    mcs, scripts = [], []
    from concurrent.futures import ThreadPoolExecutor
    par = min(3, len(mc_cfgs)) if not thorough else 1
    with ThreadPoolExecutor(max_workers=par) as ex:
        mc_results = list(ex.map(lambda cfg: vlib.tlc_mc(pid, spec["mc"], cfg, workers={1: 12, 2: 7, 3: 5}[par], xmx="8g",
                                                         timeout=3400 if thorough else 900), mc_cfgs))
    for cfg, r in zip(mc_cfgs, mc_results):
        if r["violated"] or "Deadlock reached" in r["out"]:
            raise vlib.ToolError("design model %s/%s does not meet the observable spec (%s): spec needs correction"
                                 % (spec["mc"], cfg, r["violated"] or "deadlock"))
        got = vlib.tlc_printed(r["out"], "SCRIPT")
        vlib.log("[mc] %s: %d distinct states, %d generated, depth %d, %d scripts, %.0fs" %
                 (cfg, r["distinct"], r["states"], r["depth"], len(got), r["wall_s"]))
        if pick:
            got = pick(got, rng)
        scripts.append(got)
        r.pop("out")
        mcs.append((cfg, r))
    cov = {}
    for _, r in mcs:
        for a, n in r["coverage"].items():
            cov[a] = cov.get(a, 0) + n
    missing = [a for a in spec["actions"] if cov.get(a, 0) == 0]
    if missing:
        raise vlib.ToolError("vacuity: actions never taken in %s: %s" % (spec["mc"], missing))
    per = max(1, n_tlc // max(1, len(scripts)))
    chosen = []
    for got in scripts:
        must = got.get("must", []) if isinstance(got, dict) else []
        rest = got.get("rest", []) if isinstance(got, dict) else got
        must = must[:per]
        chosen += must + rng.sample(rest, min(len(rest), per - len(must)))
    mutant_res = run_spec_mutants(pid, spec["mc"], mc_mutants) if mc_mutants else []
    shown = set()
    for s_ in chosen:
        shown.update(s_.get("feat", []) if isinstance(s_, dict) else [])
    missing = [f for f in need_feat if f not in shown]
    if missing:
        raise vlib.ToolError("vacuity: no behaviour of %s handed to the engine shows %s" % (spec["mc"], missing))
    conv = [compile_fn(s, rng, consts) for s in chosen]
    rand = [random_fn(rng, consts) for _ in range(n_rand)]
    fam = []
    for fname, fn, count in families:
        fam += [fn(rng) for _ in range(count)]

    # ---- real code + trace validation
    nviol, total_events, total_runs = 0, 0, 0
    stats = {}
    summs = {}
    accepted = []
    for bname, batch in (("tlc", conv), ("rand", rand), ("async", fam)):
        if not batch:
            continue
        tpath, summ, index = run_engine(pid, bins["paynet"], batch, seed, bname)
        vlib.log("[paynet] %s %s" % (bname, summ))
        summs[bname] = summ
        if summ["setup_failures"]:
            raise vlib.ToolError("paynet could not build the network in %d runs" % summ["setup_failures"])
        if summ["executed"] < (3 if bname == "async" else 4) * summ["skipped"]:
            raise vlib.ToolError("driver mostly skips: %s" % summ)
        total_runs += summ["runs"]
        for k, v in trace_stats(tpath).items():
            stats[k] = stats.get(k, 0) + v
        total, fails = vlib.validate_trace(pid, spec["trace"], spec["trace"] + ".cfg", tpath, timeout=2400, tag=bname)
        total_events += total
        if not fails:
            accepted.append(tpath)
        for k, fl in enumerate(fails):
            ev = fl["rec"]
            other = False
            if spec["other"] and ev.get("ev") != "panic":
                other = attribute(pid, wd, fl, spec["other"], "%s-%d" % (bname, k))
            vlib.log("[reject] batch %s run %s at event %d (%s %s)%s" %
                     (bname, fl["run"], fl["pos_in_run"], ev.get("ev"), ev.get("kind", ""),
                      ": the recipient-side spec rejects this run too -> not this property" if other else ""))
            if other:
                continue
            key = None
            if ev.get("ev") == "panic" and "HTLCs should be sorted" in ev.get("msg", ""):
                # debug_assert of the recorded C04 finding (claim_funds meeting never shown HTLCs of the hash)
                if pid != "C04":
                    vlib.log("[reject] ... panic of the recorded C04 finding claim_funds_drops_unshown_htlcs: not this property")
                    continue
                key = "claim_funds_drops_unshown_htlcs"
            if vlib.report_violation(pid, "%s-run%s" % (bname, fl["run"]), {
                    "property": pid, "kind": fl["kind"], "invariant": fl["inv"],
                    "first_unmatched_event": ev, "position_in_run": fl["pos_in_run"], "batch": bname,
                    "script": index[fl["run"] - 1], "seed": seed,
                    "trace_of_run": fl["run_events"], "last_state": fl["last_state"],
                    "how_to_replay": "put `script` on one line of s.ndjson; harness/target/debug/paynet --scripts s.ndjson "
                                     "--seed <seed> --out t.ndjson ; tools/tv.sh %s t.ndjson" % spec["trace"]}, key=key):
                nviol += 1
    for k, n in need.items():
        if nviol == 0 and stats.get(k, 0) < n:
            raise vlib.ToolError("vacuity: the runs contain %d x %s (need >= %d): %s" % (stats.get(k, 0), k, n, stats))

    probe_res = run_probes(pid, bins["paynet"], seed, probes) if probes else []

    parts_cov = {}
    for pname, th in part_threads:
        th.join()
        if isinstance(parts_res.get(pname), BaseException):
            raise parts_res[pname]
        pv, pcov = parts_res[pname]
        nviol += pv
        parts_cov[pname] = pcov
        vlib.log("[part %s] violations=%d" % (pname, pv))

    st = None
    if nviol == 0 and accepted:
        st = selftest(pid, wd, accepted[::-1] if pid == "C04" else accepted[-1], selftests)
        vlib.log("[selftest] %s" % st)

    samples = conv[:1] + rand[:1]
    if accepted:
        with open(accepted[0]) as f:
            samples.append({"trace_head": [json.loads(next(f)) for _ in range(8)]})
    covd = {
        "states": sum(r["distinct"] for _, r in mcs) + sum(c.get("states", 0) for c in parts_cov.values()),
        "transitions": sum(r["states"] for _, r in mcs) + sum(c.get("transitions", 0) for c in parts_cov.values()),
        "traces_validated_against_impl": total_runs + sum(c.get("traces_validated_against_impl", 0) for c in parts_cov.values()),
        "samples": samples,
        "mc_runs": [{"cfg": c, "distinct": r["distinct"], "generated": r["states"], "depth": r["depth"],
                     "action_coverage": {a: r["coverage"].get(a, 0) for a in spec["actions"]}, "wall_s": round(r["wall_s"], 1)} for c, r in mcs],
        "scripts_from_tlc": len(conv), "random_scripts": len(rand), "structured_scripts": len(fam), "events_validated": total_events,
        "mc_features_driven": sorted(shown),
        "engine": summs, "observed": stats, "code_constants": consts, "binding_selftest": st, "exhaustive": False,
        "finding_probes": probe_res, "spec_mutants_refuted": mutant_res,
    }
    if parts_cov:
        covd["parts"] = parts_cov
    vlib.write_evidence(pid, tier, seed, "model_checking", covd, assumptions, time.time() - t0, nviol)
    return nviol


COMMON_ASSUMPTIONS = [
    "every node is the implementation under test; channels close only through a restart of the payer from a stale "
    "manager snapshot (C03) -- a run in which a channel closes otherwise is not judged at quiescence",
    "channel value 400,000 sat so that a node's summed balance fits TLC's 32-bit integers; fee estimators constant",
]
