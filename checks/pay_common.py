"""Shared driver of the payment checks C03 (PaySend.tla) and C04 (PayRecv.tla): engine `paynet`.

    design check   TLC on PaySendMC / PayRecvMC: the payer's / the recipient's algorithm at the
                   granularity of the code, conjoined with the observable specification
    behaviours     TLC's quiescent states -> abstract scripts -> compiled to paynet scripts
    random drivers seeded scripts over line / fan (diamond) / parallel-channel topologies
    oracle         TLC validates every recorded run against PaySendTrace / PayRecvTrace; a run rejected
                   by one spec is re-validated against the other one to attribute it
"""
import json, os, random, subprocess, time
import vlib

MSAT = 1000000          # one model amount unit in msat


# --------------------------------------------------------------------------- topologies

def topo(kind, n):
    """-> dict(cfg, nodes, dst, routes=[list of channel paths from node 0 to dst], links per route)."""
    if kind == "line":
        chans = [(i, i + 1) for i in range(n - 1)]
        routes = [list(range(1, n))]
        nodes = n
    elif kind == "fan":
        chans = [(0, i) for i in range(1, n + 1)] + [(i, n + 1) for i in range(1, n + 1)]
        routes = [[i, n + i] for i in range(1, n + 1)]
        nodes = n + 2
    else:  # par
        chans = [(0, 1)] * n
        routes = [[i] for i in range(1, n + 1)]
        nodes = 2
    links = []
    for r in routes:
        links.append([list(chans[c - 1]) for c in r])
    return {"cfg": {"topo": kind, "n": n}, "nodes": nodes, "dst": nodes - 1, "chans": chans,
            "routes": routes, "links": links}


def path_nodes(tp, route):
    cur, out = 0, [0]
    for c in route:
        a, b = tp["chans"][c - 1]
        cur = b if a == cur else a
        out.append(cur)
    return out


# --------------------------------------------------------------------------- random C03 scripts

def random_send_script(rng):
    kind = rng.choice(["line", "line", "fan", "fan", "fan", "par"])
    n = {"line": rng.choice([2, 3, 3, 4]), "fan": rng.choice([1, 2, 2, 3]), "par": rng.choice([2, 3])}[kind]
    tp = topo(kind, n)
    dst = tp["dst"]
    ops = []
    if rng.random() < 0.5:
        ops.append({"op": "hold", "node": 0, "on": True})
    npay = rng.choice([1, 1, 2])
    pays = []
    nreg = 0

    def new_payment(pid):
        nonlocal nreg
        nroutes = len(tp["routes"])
        k = rng.randint(1, nroutes)
        rts = rng.sample(range(nroutes), k)
        amts = [rng.choice([1, 2, 3, 5, 8]) * MSAT + rng.randint(0, 999) * 1000 for _ in rts]
        if rng.random() < 0.15:
            amts[0] = rng.randint(2, 300) * 1000      # a dust-sized part
        nreg += 1
        reg = nreg
        o = [{"op": "reg", "node": dst, "reg": reg, "amt": sum(amts), "expiry": 3600,
              "method": rng.choice(["user", "user", "ldk"])}]
        send = {"op": "send", "from": 0, "id": pid, "reg": reg, "paths": [tp["routes"][r] for r in rts], "amts": amts}
        if rng.random() < 0.12 and len(tp["routes"][rts[0]]) > 1:
            send["fee_over"] = {"0:0": rng.choice([0, 500, 999])}     # first forwarding node is underpaid
        o.append(send)
        return {"pid": pid, "reg": reg, "rts": rts, "send": send}, o

    for p in range(1, npay + 1):
        if rng.random() < 0.2 and kind != "par":
            nreg += 1
            amt = rng.choice([1, 2, 4]) * MSAT + rng.randint(0, 999) * 1000
            ops.append({"op": "reg", "node": dst, "reg": nreg, "amt": amt, "expiry": 3600})
            ops.append({"op": "send", "from": 0, "id": p, "reg": nreg, "auto": True, "to": dst, "amt": amt,
                        "retries": rng.choice([0, 1, 2])})
            pays.append({"pid": p, "reg": nreg, "rts": list(range(len(tp["routes"]))), "send": None})
        elif rng.random() < 0.08 and kind != "par":
            amt = rng.choice([1, 2, 4]) * MSAT
            ops.append({"op": "send", "from": 0, "id": p, "fresh": 500 + p, "keysend": True, "to": dst, "amt": amt})
            pays.append({"pid": p, "reg": None, "fresh": 500 + p, "rts": list(range(len(tp["routes"]))), "send": None})
        else:
            pay, o = new_payment(p)
            pays.append(pay)
            ops += o
        if rng.random() < 0.4:
            ops += body(rng, tp, pays, rng.randint(1, 5))
    ops += body(rng, tp, pays, rng.randint(4, 22))
    ops.append({"op": "settle"})
    if rng.random() < 0.3:
        # after the outcome: idempotency timeout, late duplicate, restart
        for _ in range(rng.choice([1, 8, 9])):
            ops.append({"op": "tick", "node": 0})
        if rng.random() < 0.5:
            ops.append({"op": "restart", "node": 0, "use": "now"})
        p = rng.choice(pays)
        if p["send"] is not None:
            ops.append(dict(p["send"]))
        ops += body(rng, tp, pays, rng.randint(2, 8))
        ops.append({"op": "settle"})
    return {"cfg": tp["cfg"], "ops": ops}


def body(rng, tp, pays, steps):
    ops = []
    dst = tp["dst"]
    all_links = sorted({tuple(sorted(c)) for c in tp["chans"]})
    for _ in range(steps):
        r = rng.random()
        p = rng.choice(pays)
        if r < 0.30:
            k = rng.randint(1, len(all_links))
            ops.append({"op": "pump", "links": [list(x) for x in rng.sample(all_links, k)]})
        elif r < 0.38:
            ops.append({"op": "pump"})
        elif r < 0.48:
            a, b = rng.choice(all_links)
            if rng.random() < 0.5:
                a, b = b, a
            if rng.random() < 0.5:
                ops.append({"op": "deliver", "from": a, "to": b})
            else:
                ops.append({"op": "deliver_until", "from": a, "to": b,
                            "kind": rng.choice(["update_fulfill_htlc", "update_fail_htlc", "update_add_htlc", "commitment_signed", "revoke_and_ack"])})
        elif r < 0.60:
            tgt = {"reg": p["reg"]} if p["reg"] is not None else {"fresh": p["fresh"], "node": dst}
            ops.append(dict({"op": "claim" if rng.random() < 0.65 else "failback"}, **tgt))
        elif r < 0.68:
            a, b = rng.choice(all_links)
            ops.append({"op": "disconnect", "a": a, "b": b})
            if rng.random() < 0.6:
                ops.append({"op": "reconnect", "a": a, "b": b})
        elif r < 0.72:
            ops.append({"op": "reconnect_all"})
        elif r < 0.77:
            ops.append({"op": "tick", "node": rng.choice([0, dst, rng.randrange(tp["nodes"])])})
        elif r < 0.80:
            ops.append({"op": "block", "n": 1})
        elif r < 0.86:
            ops.append({"op": "handle", "node": 0})
        elif r < 0.90:
            ops.append({"op": "save", "node": 0})
        elif r < 0.95:
            ops.append({"op": "restart", "node": 0, "use": rng.choice(["now", "last", "last"])})
        elif r < 0.975:
            ops.append({"op": "abandon", "node": 0, "id": p["pid"]})
        else:
            if p["send"] is not None:
                s = dict(p["send"])
                if rng.random() < 0.5 and len(pays) > 1:
                    s["reg"] = rng.choice(pays)["reg"] or s["reg"]   # same id, another hash
                ops.append(s)
    return ops


# --------------------------------------------------------------------------- engine + validation

def run_engine(pid, binpath, scripts, seed, tag, procs=8):
    """Run the scripts in `procs` engine processes; returns (trace path, summary). Runs are renumbered."""
    wd = vlib.workdir(pid)
    chunks = [scripts[i::procs] for i in range(procs)]
    chunks = [c for c in chunks if c]
    ps = []
    for k, ch in enumerate(chunks):
        sp = os.path.join(wd, "scripts-%s-%d.ndjson" % (tag, k))
        with open(sp, "w") as f:
            for s in ch:
                f.write(json.dumps(s) + "\n")
        tp = os.path.join(wd, "trace-%s-%d.ndjson" % (tag, k))
        ps.append((k, tp, subprocess.Popen([binpath, "--scripts", sp, "--out", tp, "--seed", str(seed)],
                                           stdout=subprocess.DEVNULL, stderr=subprocess.DEVNULL)))
    summ = {"runs": 0, "events": 0, "panics": 0, "executed": 0, "skipped": 0, "restarts": 0, "setup_failures": 0}
    out = os.path.join(wd, "trace-%s.ndjson" % tag)
    index = []      # global run id -> script
    with open(out, "w") as fo:
        for k, tp, p in ps:
            rc = p.wait(timeout=3000)
            if rc != 0:
                raise vlib.ToolError("engine paynet exited %d (chunk %d of %s)" % (rc, k, tag))
            s = json.load(open(tp + ".summary"))
            for key in summ:
                summ[key] += s[key]
            base = len(index)
            index += chunks[k]
            with open(tp) as f:
                for ln in f:
                    r = json.loads(ln)
                    r["run"] += base
                    fo.write(json.dumps(r) + "\n")
            os.remove(tp)
    return out, summ, index


def events_of_run(fail):
    return fail["run_events"]


def attribute(pid, wd, fail, other_module, tag):
    """Is the rejected run also rejected by the other half's trace spec (at or before this event)?"""
    p = os.path.join(wd, "attr-%s.ndjson" % tag)
    with open(p, "w") as f:
        for r in fail["run_events"]:
            f.write(json.dumps(r) + "\n")
    _, fl = vlib.validate_trace(pid, other_module, other_module + ".cfg", p, max_failures=1, tag="attr")
    return bool(fl) and fl[0]["pos_in_run"] <= fail["pos_in_run"]


# --------------------------------------------------------------------------- PaySendMC behaviours -> paynet scripts

def compile_send_script(s, rng):
    """A behaviour of PaySendMC (user-level / network-level steps over the fan A-{B_1..B_K}-D)
    compiled to engine ops: part k of a payment travels A -chan k-> B_k -chan K+k-> D; the payer A
    (node 0) handles events only when the behaviour says so; resolutions are handed to A one by one
    (`barrier`), so that `deliver` / `dup` / `commit` keep their meaning."""
    K = s["k"]
    D = K + 1
    ops = [{"op": "hold", "node": 0, "on": True}]
    base, regs, first_reg, cur = {}, {}, {}, {}
    for o in s["ops"]:
        t = o["op"]
        if t == "send":
            p, n = o["p"], o["n"]
            if p not in base:
                base[p] = [rng.choice([1, 2, 3, 5]) * MSAT + (7 * p + k) * 1000 for k in range(1, K + 1)]
                if rng.random() < 0.1:
                    base[p][0] = (50 + 7 * p) * 1000          # a dust-sized part
            amts = base[p][:n]
            if (p, n) not in regs:
                r = {"op": "reg", "node": D, "reg": 10 * p + n, "amt": sum(amts), "expiry": 3600}
                if p in first_reg:
                    r["same_hash_as"] = first_reg[p]
                ops.append(r)
                regs[(p, n)] = 10 * p + n
                first_reg.setdefault(p, 10 * p + n)
            ops.append({"op": "send", "from": 0, "id": p, "reg": regs[(p, n)],
                        "paths": [[k, K + k] for k in range(1, n + 1)], "amts": amts})
            cur[p] = regs[(p, n)]
        elif t == "arrive":
            ops.append({"op": "pump", "links": [[0, o["k"]], [o["k"], D]], "barrier": 0})
        elif t == "failhop":
            k = o["k"]
            ops += [{"op": "disconnect", "a": k, "b": D}, {"op": "pump", "links": [[0, k]], "barrier": 0},
                    {"op": "reconnect", "a": k, "b": D}]
        elif t in ("claim", "failr"):
            ops.append({"op": "claim" if t == "claim" else "failback", "reg": cur.get(o["p"], 0)})
            ops.append({"op": "pump", "links": [[k, D] for k in range(1, K + 1)] + [[0, k] for k in range(1, K + 1)], "barrier": 0})
        elif t == "deliver":
            ops.append({"op": "deliver_until", "from": o["k"], "to": 0, "kind": "resolution"})
        elif t == "dup":
            k = o["k"]
            ops += [{"op": "disconnect", "a": 0, "b": k}, {"op": "reconnect", "a": 0, "b": k},
                    {"op": "pump", "links": [[0, k]], "barrier": 0},
                    {"op": "deliver_until", "from": k, "to": 0, "kind": "resolution"}]
        elif t == "commit":
            ops.append({"op": "pump", "links": [[0, o["k"]]], "barrier": 0})
        elif t == "handle":
            ops.append({"op": "handle", "node": 0})
        elif t == "tick":
            ops.append({"op": "tick", "node": 0})
        elif t == "save":
            ops.append({"op": "save", "node": 0})
        elif t == "restart":
            ops += [{"op": "restart", "node": 0, "use": "last"}, {"op": "reconnect_all"}, {"op": "pump", "barrier": 0}]
        elif t == "abandon":
            ops.append({"op": "abandon", "node": 0, "id": o["p"]})
    ops.append({"op": "settle"})
    return {"cfg": {"topo": "fan", "n": K}, "ops": ops}


# --------------------------------------------------------------------------- random C04 scripts

def probe_consts(pid, binpath):
    """The constants of the code under test, as the engine reports them in its `open` record."""
    wd = vlib.workdir(pid)
    sp, tp = os.path.join(wd, "probe.ndjson"), os.path.join(wd, "probe-trace.ndjson")
    with open(sp, "w") as f:
        f.write(json.dumps({"cfg": {"topo": "par", "n": 1}, "ops": []}) + "\n")
    subprocess.run([binpath, "--scripts", sp, "--out", tp], stdout=subprocess.DEVNULL, stderr=subprocess.DEVNULL, timeout=300)
    with open(tp) as f:
        return json.loads(f.readline())["consts"]


def random_recv_script(rng, consts):
    BUF, MPPT = consts["fail_back_buffer"], consts["mpp_ticks"]
    kind = rng.choice(["par", "par", "par", "line", "fan"])
    n = {"par": rng.choice([1, 2, 3]), "line": 3, "fan": 2}[kind]
    tp = topo(kind, n)
    tp["cfg"]["style"] = rng.choice([0, 0, 2, 4, 1])
    dst = tp["dst"]
    routes = tp["routes"]
    ops = []
    A = rng.choice([2, 4, 6, 10]) * MSAT + rng.randint(0, 9) * 1000
    minc = rng.choice([None, None, 45, 60])
    exp = rng.choice([3600, 3600, 60])
    method = rng.choice(["user", "user", "ldk"])
    any_amt = rng.random() < 0.08
    ops.append({"op": "reg", "node": dst, "reg": 1, "amt": None if any_amt else A, "expiry": exp, "min_cltv": minc, "method": method})
    other = None
    if rng.random() < 0.45:
        # a second registration: another hash, or the same hash with another amount
        same = method == "user" and rng.random() < 0.4
        other = {"op": "reg", "node": dst, "reg": 2, "amt": rng.choice([1, 3, 8]) * MSAT, "expiry": 3600, "method": "user"}
        if same:
            other["same_hash_as"] = 1
        ops.append(other)
    expired = rng.random() < 0.1
    if expired:
        ops.append({"op": "time_jump", "secs": exp + 7200 + rng.choice([-5, -1, 0, 1, 2, 600])})
    # ---- the parts
    scen = rng.choice(["split", "split", "split", "under", "over", "total_mismatch", "bad_secret", "cltv", "extra", "keysend", "single"])
    k = 1 if scen in ("single", "keysend") else rng.choice([1, 2, 2, 3])
    cuts = sorted(rng.sample(range(1, 20), k - 1)) if k > 1 else []
    shares = [b - a for a, b in zip([0] + cuts, cuts + [20])]
    amts = [A * s // 20 for s in shares]
    amts[-1] += A - sum(amts)
    total = A
    if scen == "under":
        amts[rng.randrange(k)] -= rng.choice([1, 1000, 1000, 2000, A // 10])
    if scen == "over":
        amts[rng.randrange(k)] += rng.choice([1, 1000, A // 2, A, 3 * A])
        if rng.random() < 0.5:
            total = sum(amts)
    amts = [max(a, 1000) for a in amts]
    good_delta = (minc or 0) + rng.choice([40, 70, 70, 100])
    parts = []
    for i, a in enumerate(amts):
        parts.append({"amt": a, "total": total, "secret": {"reg": 1}, "delta": good_delta + rng.choice([0, 0, 3, 7]) * (i % 2)})
    if scen == "total_mismatch" and k > 1:
        parts[rng.randrange(k)]["total"] = total + rng.choice([-1000, 1000, A])
    if scen == "total_mismatch" and k == 1:
        parts[0]["total"] = total + rng.choice([-1000, 1000])
    if scen == "bad_secret":
        j = rng.randrange(k)
        parts[j]["secret"] = rng.choice([{"reg": 1, "flip": rng.randrange(256)}, {"reg": 1, "flip": rng.randrange(256)},
                                         {"reg": 2} if other else {"reg": 1, "flip": rng.randrange(128)}, "none"])
    if scen == "cltv":
        j = rng.randrange(k)
        if minc and rng.random() < 0.6:
            parts[j]["delta"] = minc - 1 + rng.choice([-2, -1, 0, 1])
        else:
            parts[j]["delta"] = BUF + rng.choice([-2, -1, 0, 1, 2])
    if scen == "extra":
        parts.append({"amt": rng.choice([1, 2]) * MSAT, "total": total, "secret": {"reg": 1}, "delta": good_delta})
    if other and other.get("same_hash_as") and rng.random() < 0.5:
        # pay the second registration of the same hash (its own amount) instead / as well
        parts.append({"amt": other["amt"], "total": other["amt"], "secret": {"reg": 2}, "delta": good_delta, "reg": 2})
    rng.shuffle(parts) if rng.random() < 0.3 else None
    pid = 0
    for i, p in enumerate(parts):
        pid += 1
        rt = routes[i % len(routes)] if rng.random() < 0.8 else rng.choice(routes)
        if scen == "keysend":
            if kind == "par" and n > 1:
                pass
            ops.append({"op": "send", "from": 0, "id": pid, "fresh": 700 + pid, "keysend": True, "to": dst, "amt": p["amt"]})
        else:
            ops.append({"op": "send", "from": 0, "id": pid, "reg": p.get("reg", 1), "paths": [rt], "amts": [p["amt"]],
                        "total": p["total"], "secret": p["secret"], "cltv": p["delta"]})
        ops.append({"op": "pump"})
        r = rng.random()
        if r < 0.15:
            ops += [{"op": "tick", "node": dst}] * rng.choice([1, 1, MPPT, MPPT + 1])
            ops.append({"op": "pump"})
        elif r < 0.27:
            ops.append({"op": "block", "n": rng.choice([1, 1, 2, 5])})
            ops.append({"op": "pump"})
        elif r < 0.32:
            ops.append({"op": "disconnect", "a": tp["chans"][rt[-1] - 1][0], "b": dst})
            if rng.random() < 0.7:
                ops.append({"op": "reconnect_all"})
    # ---- the user's answer
    tgt = {"fresh": 701, "node": dst} if scen == "keysend" else {"reg": 1}
    r = rng.random()
    if r < 0.45:
        ops.append(dict({"op": "claim"}, **tgt))
    elif r < 0.60:
        ops.append(dict({"op": "failback"}, **tgt))
    elif r < 0.90 and scen != "keysend":
        off = rng.choice([-2, -1, -1, 0, 0, 1])
        ops.append({"op": "block_to_deadline", "reg": 1, "offset": off})
        ops.append({"op": "pump"}) if rng.random() < 0.5 else None
        ops.append(dict({"op": rng.choice(["claim", "claim", "claim", "failback"])}, **tgt))
    ops = [o for o in ops if o]
    ops.append({"op": "pump"})
    if rng.random() < 0.3:
        ops += [{"op": "tick", "node": dst}] * rng.choice([1, MPPT + 1])
    ops.append({"op": "settle"})
    if rng.random() < 0.35 and scen != "keysend":
        # let every part reach its own fail-back height
        ops.append({"op": "block_to_deadline", "reg": 1, "offset": rng.choice([0, 1, 8, 12])})
        ops.append({"op": "settle"})
    if other and other.get("same_hash_as") is None and rng.random() < 0.5:
        ops.insert(len(ops) - 1, {"op": "claim", "reg": 2})
    return {"cfg": tp["cfg"], "ops": ops}


# --------------------------------------------------------------------------- PayRecvMC behaviours -> paynet scripts

def compile_recv_script(s, rng, consts):
    """A behaviour of PayRecvMC (parts with their onion class, ticks, blocks, the user's answer)
    compiled to engine ops over C parallel channels between sender 0 and recipient 1."""
    C, BUF = s["c"], consts["fail_back_buffer"]
    regmin = s["regmin"]
    off = {"b0": BUF, "b1": BUF + 1, "b2": BUF + 2, "far": 71, "far2": 80, "m-1": regmin - 1, "m0": regmin}
    ops = [{"op": "reg", "node": 1, "reg": 1, "amt": s["regamt"] * MSAT, "expiry": 3600,
            "min_cltv": regmin if regmin else None, "method": rng.choice(["user", "user", "ldk"])}]
    if any(o["op"] == "part" and o["sec"] == "other" for o in s["ops"]):
        ops.append({"op": "reg", "node": 1, "reg": 2, "amt": MSAT, "expiry": 3600, "method": "user"})
    i = 0
    for o in s["ops"]:
        t = o["op"]
        if t == "part":
            i += 1
            sec = {"ok": {"reg": 1}, "flip": {"reg": 1, "flip": rng.randrange(256)}, "other": {"reg": 2}}[o["sec"]]
            ops.append({"op": "send", "from": 0, "id": i, "reg": 1, "paths": [[(i - 1) % C + 1]], "amts": [o["amt"] * MSAT],
                        "total": o["tot"] * MSAT, "secret": sec, "cltv": off[o["cl"]] - 1})
        elif t == "tick":
            ops.append({"op": "tick", "node": 1})
        elif t == "block":
            ops.append({"op": "block", "n": o["n"]})
        elif t == "claim":
            ops.append({"op": "claim", "reg": 1})
        elif t == "failback":
            ops.append({"op": "failback", "reg": 1})
        ops.append({"op": "pump"})
    ops.append({"op": "settle"})
    return {"cfg": {"topo": "par", "n": C, "style": rng.choice([0, 2, 4])}, "ops": ops}
