---------------------------- MODULE MUPAbstract ----------------------------
(***************************************************************************)
(* C19 (b) -- what a persister of incremental monitor updates may do to an  *)
(* atomic key-value store, stated only over observable things: the store    *)
(* operations it issues (and whether they took effect), what it reports as  *)
(* persisted, and what a recovery from the durable store contents yields.   *)
(* Which writes are full monitors, how updates are grouped, when and in     *)
(* which ranges clean-up runs is NOT prescribed here (design model: MUP).   *)
(*                                                                         *)
(* Contents are identified, not interpreted: a stored monitor with content  *)
(* j is "the in-memory monitor as of update j", an update file with content *)
(* c is "ChannelMonitorUpdate c" (-1 = bytes that are neither).             *)
(*                                                                         *)
(* Durable state: writes and eager removals are durable when they return;   *)
(* a lazy removal is accepted at once but lands later or never -- a crash   *)
(* may find any subset of the accepted lazy removals landed (`lazy`).       *)
(***************************************************************************)
EXTENDS Integers, Sequences, FiniteSets, TLC

VARIABLES
  mon,       \* content of the stored full monitor, -1 = no monitor stored
  monLazy,   \* a lazy removal of the monitor key (archive_persisted_channel) was accepted and has
             \* not (yet) landed
  upds,      \* update files: [key number -> content]
  lazy,      \* keys of update files whose lazy removal was accepted and has not (yet) landed
  reported,  \* update ids the persister reported as persisted (Completed)
  recs,      \* outcomes of recoveries from the current durable state, one per examined
             \* crash x subset of landed lazy removals
  unsafe     \* a removal deleted an update file that recovery still needed

avars == <<mon, monLazy, upds, lazy, reported, recs, unsafe>>

Max(S) == CHOOSE x \in S : \A y \in S : y <= x
Min(S) == CHOOSE x \in S : \A y \in S : x <= y
Without(f, S) == [k \in DOMAIN f \ S |-> f[k]]
With(f, k, v) == [j \in DOMAIN f \cup {k} |-> IF j = k THEN v ELSE f[j]]

AInit ==
  /\ mon = -1 /\ monLazy = FALSE /\ upds = <<>> /\ lazy = {} /\ reported = {} /\ recs = {}
  /\ unsafe = FALSE

-----------------------------------------------------------------------------
(* store operations issued by the persister; `applied` = it took effect     *)
(* (a failing operation may or may not have)                                *)
AWriteMon(c, applied) ==
  /\ mon' = IF applied THEN c ELSE mon
  /\ monLazy' = IF applied THEN FALSE ELSE monLazy   \* a write cancels a pending removal
  /\ recs' = {}
  /\ UNCHANGED <<upds, lazy, reported, unsafe>>

ARemoveMon(isLazy, applied) ==
  /\ IF ~applied \/ mon = -1 THEN UNCHANGED <<mon, monLazy>>
     ELSE IF isLazy THEN monLazy' = TRUE /\ UNCHANGED mon
     ELSE mon' = -1 /\ monLazy' = FALSE
  /\ recs' = {}
  /\ UNCHANGED <<upds, lazy, reported, unsafe>>

AWriteUpd(k, c, applied) ==
  /\ upds' = IF applied THEN With(upds, k, c) ELSE upds
  /\ lazy' = IF applied THEN lazy \ {k} ELSE lazy   \* a write cancels a pending removal
  /\ recs' = {}
  /\ UNCHANGED <<mon, monLazy, reported, unsafe>>

(* Clean-up never deletes an update that recovery still needs: an existing  *)
(* update file may only go when the stored monitor already includes it.     *)
Needed(k) == k \in DOMAIN upds /\ ~(mon >= k)

ARemoveUpd(k, isLazy, applied) ==
  /\ unsafe' = (unsafe \/ (applied /\ Needed(k)))
  /\ IF ~applied \/ k \notin DOMAIN upds THEN UNCHANGED <<upds, lazy>>
     ELSE IF isLazy THEN lazy' = lazy \cup {k} /\ UNCHANGED upds
     ELSE upds' = Without(upds, {k}) /\ lazy' = lazy \ {k}
  /\ recs' = {}
  /\ UNCHANGED <<mon, monLazy, reported>>

(* a store operation outside the monitor / update keys of this channel *)
AOther == recs' = {} /\ UNCHANGED <<mon, monLazy, upds, lazy, reported, unsafe>>

(* the persister reports update `id` (or the new monitor, id 0) as persisted *)
AReport(id) ==
  /\ reported' = reported \cup {id}
  /\ UNCHANGED <<mon, monLazy, upds, lazy, recs, unsafe>>

(* The caller asks for the channel to be archived (ChainMonitor does so only for a monitor that *)
(* is fully resolved): from here on nothing has to be recoverable for it any more -- but what   *)
(* is found must still be readable (never "err" / "panic").                                     *)
AArchive ==
  /\ reported' = {}
  /\ UNCHANGED <<mon, monLazy, upds, lazy, recs, unsafe>>

(* an accepted lazy removal lands *)
ALand(k) ==
  /\ k \in lazy
  /\ upds' = Without(upds, {k}) /\ lazy' = lazy \ {k}
  /\ recs' = {}
  /\ UNCHANGED <<mon, monLazy, reported, unsafe>>

(* A crash here, with the lazy removals `land` landed, followed by recovery *)
(* gave: kind "ok" (monitor with latest update id rid; eq = it equals the   *)
(* in-memory monitor as of rid once at the same chain tip), "none" (no      *)
(* monitor found), "err" (recovery refused), "panic".  rf = a store read of *)
(* the recovery itself was made to fail.                                    *)
ARec(land, landmon, kind, rid, eq, rf) ==
  /\ land \subseteq lazy
  /\ landmon => monLazy
  /\ recs' = recs \cup {[kind |-> kind, rid |-> rid, eq |-> eq, rf |-> rf]}
  /\ UNCHANGED <<mon, monLazy, upds, lazy, reported, unsafe>>

(* the node really crashes: lazy removals that did not land are lost *)
ACrash(land, landmon) ==
  /\ land \subseteq lazy
  /\ landmon => monLazy
  /\ upds' = Without(upds, land) /\ lazy' = {}
  /\ mon' = IF landmon THEN -1 ELSE mon
  /\ monLazy' = FALSE
  /\ recs' = {}
  /\ UNCHANGED <<reported, unsafe>>

-----------------------------------------------------------------------------
(* The property, judged on one recovery outcome r.                          *)
Covers(r) ==
  IF r.kind = "ok" THEN reported = {} \/ r.rid >= Max(reported)
  ELSE IF r.kind = "none" THEN reported = {}
  ELSE IF r.kind = "err" THEN r.rf      \* refusing is fine only if the store failed the recovery
  ELSE FALSE                            \* a panic never is

RecoveredCoversReported == \A r \in recs : Covers(r)
RecoveredIsSomeInMemoryState == \A r \in recs : r.kind = "ok" => r.eq
CleanupSafe == ~unsafe
=============================================================================
