SPECIFICATION MCSpec
CONSTANTS
  Async = TRUE
  MaxThreads = 3
  NKeys = 2
  NNs = 1
  MaxOps = 6
CONSTRAINT Bound
INVARIANT TypeOK
INVARIANT LazyOnlyAbsent
INVARIANT SoloReadExact
INVARIANT SeenWritten
INVARIANT CurrentSeen
INVARIANT IssueOrder
INVARIANT EmitScripts
CHECK_DEADLOCK TRUE
