------------------------------- MODULE Gossip -------------------------------
(***************************************************************************)
(* C17 -- the routing graph holds only authentic, current gossip, whatever *)
(* the order.  Observable-level specification: the state is the graph as a *)
(* caller reads it through NetworkGraph::read_only() (channels with their  *)
(* two directional updates, nodes with their announcement), the inputs are *)
(* the gossip messages / removal calls the caller makes.                   *)
(*                                                                         *)
(* Messages are records; validity is expressed through WHO signed:         *)
(*   ca : c (scid) n1 n2 (announced node ids, n1 < n2), s1 s2 (keys that   *)
(*        made the two node signatures: node index, 0 = unrelated key,     *)
(*        -1 = signature over other bytes, -2 = handed in through the      *)
(*        UNSIGNED entry point, i.e. no verification requested), bs (1 =   *)
(*        bitcoin-key signatures good), chain (TRUE = the graph's chain)   *)
(*   cu : c, d (direction 0/1), ts, s (signing key), chain, payload        *)
(*        en cltv hmin hmax fb fp                                          *)
(*   na : n, ts, s, payload ap (alias) ad (address)                        *)
(* All messages carry all fields (unused ones 0) so they are one record    *)
(* type.  Timestamps are offsets in seconds from the start of the run.     *)
(* The timestamp / chain / capacity rules are the same whatever the entry  *)
(* point (signed, unsigned, snapshot).                                     *)
(*                                                                         *)
(* Where the property text prescribes the outcome the action has exactly   *)
(* one allowed outcome; where it is silent (a re-announcement of a removed *)
(* channel, a conflicting announcement for a known scid, a half-updated    *)
(* channel at pruning time) every outcome is allowed -- see *Allowed.      *)
(*                                                                         *)
(* Asynchronous UTXO lookups (amode): a valid announcement of an unknown   *)
(* scid becomes PENDING; updates for it and announcements of its nodes     *)
(* that arrive meanwhile are HELD; Resolve(c, ok, ..) applies the          *)
(* announcement and, per direction / node, the NEWEST held message -- the  *)
(* result must be what a synchronous lookup gives for the same messages.   *)
(*                                                                         *)
(* The memory of removals (remC, remN).  "Channels reported permanently    *)
(* failed are removed ... together with nodes left without channels" is    *)
(* claimed for all delivery orders and duplications and all interleavings  *)
(* with network updates from payment failures.  A report that removed a    *)
(* channel, or a node with all its channels, therefore has to hold against *)
(* the gossip that is still in flight: a duplicate of the announcement     *)
(* delivered before the report, or -- for a node -- the announcement of a  *)
(* channel of that node that arrives after the report instead of before it.*)
(* Were such a message applied, the graph would depend on where the        *)
(* duplicate / the late announcement falls relative to the report, against *)
(* "in any order ..., with any duplication, yields the same graph".  Hence *)
(* while the report is remembered no gossip channel_announcement naming    *)
(* the failed channel, or the failed node IN EITHER SLOT, is applied --    *)
(* through whatever entry point (signed, unsigned, synchronous, completing *)
(* an asynchronous lookup); updates and node announcements for them then   *)
(* fall under "unknown channel" / node without channels.                   *)
(* How long a report is remembered the text does not say.  The library     *)
(* documents: until a pruning call whose clock is a week past the report,  *)
(* and not across serialization (the memory is not part of the graph that  *)
(* "survives serialization").  The spec demands refusal only while the     *)
(* report is CERTAINLY remembered (remC / remN: no reload, no pruning call *)
(* with a clock >= one week after the start of the run since the report)   *)
(* and leaves the outcome open afterwards (tombC / tombN, which also cover *)
(* channels removed by pruning, about whose re-announcement the text is    *)
(* silent).  A report about something the graph does not hold removes      *)
(* nothing and is not remembered.  A rapid-gossip-sync snapshot is applied *)
(* on top without any verification requested: what it (re-)adds is added,  *)
(* and the memory of the items it names is void from then on.              *)
(***************************************************************************)
EXTENDS Integers, Sequences, FiniteSets, TLC

VARIABLES
  G,          \* [ch |-> [scid -> channel record], nd |-> [node -> node record]]
  Gprev,      \* G before the last step (for NeverOlder)
  lookup,     \* BOOLEAN: announcements are checked against a UTXO source (capacity known)
  amode,      \* BOOLEAN: the UTXO source answers asynchronously
  caps,       \* scid -> capacity in sats reported by the UTXO source
  tombC,      \* channels removed at some point of the run (over-approximates the tombstones)
  tombN,      \* nodes reported failed at some point of the run
  remC,       \* channels removed by a permanent-failure report that is certainly still remembered
  remN,       \* nodes     -- " --
  delivered,  \* all messages handed to the graph so far (incl. unsigned ones from snapshots)
  eff,        \* valid messages delivered while what they refer to was present
  pure,       \* no removal / replacement / snapshot has changed the graph so far
  pend        \* scid -> [ca |-> pending announcement, held |-> messages held for it]

avars == <<G, Gprev, lookup, amode, caps, tombC, tombN, remC, remN, delivered, eff, pure, pend>>

Msg == [k |-> "", c |-> 0, n1 |-> 0, n2 |-> 0, s1 |-> 0, s2 |-> 0, bs |-> 0, chain |-> TRUE,
        n |-> 0, d |-> 0, ts |-> 0, s |-> 0, en |-> FALSE, cltv |-> 0, hmin |-> 0, hmax |-> 0,
        fb |-> 0, fp |-> 0, ap |-> 0, ad |-> 0, w |-> 0]
NoMsg == [Msg EXCEPT !.k = "none"]

NoDir == [has |-> FALSE, ts |-> 0, en |-> FALSE, cltv |-> 0, hmin |-> 0, hmax |-> 0, fb |-> 0, fp |-> 0]
DirOf(m) == [has |-> TRUE, ts |-> m.ts, en |-> m.en, cltv |-> m.cltv, hmin |-> m.hmin,
             hmax |-> m.hmax, fb |-> m.fb, fp |-> m.fp]
NoAnn == [ha |-> FALSE, ats |-> 0, ap |-> 0, ad |-> 0]
EmptyG == [ch |-> <<>>, nd |-> <<>>]

Chs(g) == DOMAIN g.ch
Nds(g) == DOMAIN g.nd
Ends(g, c) == {g.ch[c].n1, g.ch[c].n2}
ChansOf(g, n) == {c \in Chs(g) : n \in Ends(g, c)}
Restrict(f, S) == [x \in S |-> f[x]]
DirAt(g, c, d) == IF d = 0 THEN g.ch[c].d0 ELSE g.ch[c].d1
SignerOf(g, c, d) == IF d = 0 THEN g.ch[c].n1 ELSE g.ch[c].n2

\* remove the channels R and then every node left without a channel
RemoveChans(g, R) ==
  LET ch2 == Restrict(g.ch, Chs(g) \ R)
      keep == {n \in Nds(g) : \E c \in DOMAIN ch2 : n \in {ch2[c].n1, ch2[c].n2}}
  IN [ch |-> ch2, nd |-> Restrict(g.nd, keep)]

\* art = offset of the time the announcement was received (0 = during the run)
AddChan(g, c, n1, n2, cap, art) ==
  [ch |-> [x \in Chs(g) \cup {c} |->
             IF x = c THEN [n1 |-> n1, n2 |-> n2, cap |-> cap, art |-> art, d0 |-> NoDir, d1 |-> NoDir]
             ELSE g.ch[x]],
   nd |-> [x \in Nds(g) \cup {n1, n2} |-> IF x \in Nds(g) THEN g.nd[x] ELSE NoAnn]]

SetDir(g, c, d, dir) ==
  [g EXCEPT !.ch[c] = IF d = 0 THEN [@ EXCEPT !.d0 = dir] ELSE [@ EXCEPT !.d1 = dir]]
SetNode(g, n, ts, ap, ad) == [g EXCEPT !.nd[n] = [ha |-> TRUE, ats |-> ts, ap |-> ap, ad |-> ad]]

CapOf(c) == IF lookup /\ c \in DOMAIN caps THEN caps[c] ELSE -1
Pending == DOMAIN pend

-----------------------------------------------------------------------------
(* channel_announcement *)
CASigned(m) == (m.s1 = m.n1 /\ m.s2 = m.n2 /\ m.bs = 1) \/ (m.s1 = -2 /\ m.s2 = -2)
CAValid(m) == m.chain /\ CASigned(m) /\ m.n1 < m.n2
Tombed(m) == m.c \in tombC \/ m.n1 \in tombN \/ m.n2 \in tombN
\* names a channel / a node (either slot) whose permanent-failure report is certainly remembered
Remembered(m) == m.c \in remC \/ m.n1 \in remN \/ m.n2 \in remN
SamePairG(g, m) == g.ch[m.c].n1 = m.n1 /\ g.ch[m.c].n2 = m.n2
SamePair(m) == SamePairG(G, m)

\* outcomes when the verdict of the UTXO source is at hand (no source / synchronous / at Resolve)
CAAllowedG(g, m) ==
  IF ~CAValid(m) THEN {"none"}
  ELSE IF Remembered(m) THEN {"none"}      \* reported permanently failed: stays out
  ELSE IF m.c \notin Chs(g) THEN (IF Tombed(m) THEN {"none", "add"} ELSE {"add"})
  ELSE IF SamePairG(g, m) /\ (g.ch[m.c].cap >= 0 \/ ~lookup) THEN {"none"}   \* duplicate
  ELSE {"none", "replace"}    \* conflicting announcement / re-validation: not prescribed

CAAllowed(m) ==
  IF amode /\ lookup /\ CAValid(m) /\ m.c \notin Chs(G)
  THEN (IF m.c \in Pending THEN {"none"}              \* already being checked
        ELSE IF Remembered(m) THEN {"none"}
        ELSE IF Tombed(m) THEN {"none", "pending"} ELSE {"pending"})
  ELSE CAAllowedG(G, m)

CAApplyG(g, m, o) ==
  IF o = "add" THEN AddChan(g, m.c, m.n1, m.n2, CapOf(m.c), 0)
  ELSE IF o = "replace" THEN AddChan(RemoveChans(g, {m.c}), m.c, m.n1, m.n2, CapOf(m.c), 0)
  ELSE g

\* must the call report an error?  (invalid messages must be refused, not just ignored)
CAMustErr(m) == ~CAValid(m)

DeliverCA(m, o) ==
  /\ m.k = "ca"
  /\ o \in CAAllowed(m)
  /\ G' = CAApplyG(G, m, o)
  /\ Gprev' = G
  /\ delivered' = delivered \cup {m}
  /\ eff' = IF CAValid(m) /\ ~Tombed(m) /\ (o = "add" \/ m.c \in Chs(G)) THEN eff \cup {m} ELSE eff
  /\ pure' = (pure /\ o # "replace")
  /\ pend' = IF o = "pending" THEN [x \in Pending \cup {m.c} |->
                                      IF x = m.c THEN [ca |-> m, held |-> {}] ELSE pend[x]]
             ELSE pend
  /\ UNCHANGED <<lookup, amode, caps, tombC, tombN, remC, remN>>

(* channel_update *)
CURejectG(g, m) ==
  \/ ~m.chain
  \/ m.c \notin Chs(g)
  \/ /\ m.c \in Chs(g)
     /\ \/ m.s \notin {SignerOf(g, m.c, m.d), -2}
        \/ g.ch[m.c].cap >= 0 /\ m.hmax > g.ch[m.c].cap * 1000
CUOldG(g, m) == m.c \in Chs(g) /\ DirAt(g, m.c, m.d).has /\ DirAt(g, m.c, m.d).ts >= m.ts
CUApplyG(g, m) == IF CURejectG(g, m) \/ CUOldG(g, m) THEN g ELSE SetDir(g, m.c, m.d, DirOf(m))
CUReject(m) == CURejectG(G, m)
CUOld(m) == CUOldG(G, m)
CUAllowed(m) == IF CUReject(m) \/ CUOld(m) THEN {"none"} ELSE {"set"}
CUMustErr(m) == CUReject(m)

Hold(S, m) == [x \in Pending |-> IF x \in S THEN [pend[x] EXCEPT !.held = @ \cup {m}] ELSE pend[x]]

DeliverCU(m, o) ==
  /\ m.k = "cu"
  /\ o \in CUAllowed(m)
  /\ G' = IF o = "set" THEN SetDir(G, m.c, m.d, DirOf(m)) ELSE G
  /\ Gprev' = G
  /\ delivered' = delivered \cup {m}
  /\ eff' = IF ~CUReject(m) THEN eff \cup {m} ELSE eff
  /\ pend' = IF m.chain /\ m.c \notin Chs(G) /\ m.c \in Pending THEN Hold({m.c}, m) ELSE pend
  /\ UNCHANGED <<lookup, amode, caps, tombC, tombN, remC, remN, pure>>

(* node_announcement *)
NAReject(m) == m.s \notin {m.n, -2}
NAOldG(g, m) == m.n \in Nds(g) /\ g.nd[m.n].ha /\ g.nd[m.n].ats >= m.ts
NAApplyG(g, m) == IF NAReject(m) \/ m.n \notin Nds(g) \/ NAOldG(g, m) THEN g
                  ELSE SetNode(g, m.n, m.ts, m.ap, m.ad)
NAOld(m) == NAOldG(G, m)
NAAllowed(m) == IF NAReject(m) \/ m.n \notin Nds(G) \/ NAOld(m) THEN {"none"} ELSE {"set"}
NAMustErr(m) == NAReject(m)

DeliverNA(m, o) ==
  /\ m.k = "na"
  /\ o \in NAAllowed(m)
  /\ G' = IF o = "set" THEN SetNode(G, m.n, m.ts, m.ap, m.ad) ELSE G
  /\ Gprev' = G
  /\ delivered' = delivered \cup {m}
  /\ eff' = IF ~NAReject(m) /\ m.n \in Nds(G) THEN eff \cup {m} ELSE eff
  /\ pend' = IF ~NAReject(m) /\ m.n \notin Nds(G)
             THEN Hold({x \in Pending : m.n \in {pend[x].ca.n1, pend[x].ca.n2}}, m) ELSE pend
  /\ UNCHANGED <<lookup, amode, caps, tombC, tombN, remC, remN, pure>>

Allowed(m) == IF m.k = "ca" THEN CAAllowed(m) ELSE IF m.k = "cu" THEN CUAllowed(m) ELSE NAAllowed(m)
MustErr(m) == IF m.k = "ca" THEN CAMustErr(m) ELSE IF m.k = "cu" THEN CUMustErr(m) ELSE NAMustErr(m)
Deliver(m, o) == DeliverCA(m, o) \/ DeliverCU(m, o) \/ DeliverNA(m, o)

-----------------------------------------------------------------------------
(* The asynchronous lookup of pending scid c completes.  pick = the held message applied per
   key (d0, d1: the two directions; na, nb: the two nodes), NoMsg = none.  If every message held
   for a key is valid and one is the newest, that one MUST be the one applied (the same graph as
   with a synchronous lookup); if forged or same-timestamp messages compete for the key the
   choice is not prescribed.                                                               *)
HeldCU(c, d) == {m \in pend[c].held : m.k = "cu" /\ m.d = d}
HeldNA(c, n) == {m \in pend[c].held : m.k = "na" /\ m.n = n}
Newest(H) == CHOOSE m \in H : \A o \in H : o.ts <= m.ts
CleanKey(g, H) ==
  /\ \A m \in H : IF m.k = "cu" THEN ~CURejectG(g, m) ELSE ~NAReject(m)
  /\ \A a, b \in H : a # b => a.ts # b.ts
PickOK(g, H, p) ==
  IF H = {} THEN p = NoMsg
  ELSE IF CleanKey(g, H) THEN p = Newest(H)
  ELSE p \in H \cup {NoMsg}
ApplyPick(g, p) == IF p.k = "cu" THEN CUApplyG(g, p) ELSE IF p.k = "na" THEN NAApplyG(g, p) ELSE g

Resolve(c, ok, o, pick) ==
  IF c \notin Pending THEN UNCHANGED avars
  ELSE
    LET ca == pend[c].ca
        g1 == IF ok THEN CAApplyG(G, ca, o) ELSE G
        Hs == <<HeldCU(c, 0), HeldCU(c, 1), HeldNA(c, ca.n1), HeldNA(c, ca.n2)>>
        clean == \A i \in 1..4 : Hs[i] = {} \/ CleanKey(g1, Hs[i])
        Took(p) == (p.k = "cu" /\ ~CURejectG(g1, p)) \/ (p.k = "na" /\ p.n \in Nds(g1))
    IN
    /\ Gprev' = G
    /\ G' = ApplyPick(ApplyPick(ApplyPick(ApplyPick(g1, pick[1]), pick[2]), pick[3]), pick[4])
    /\ IF ok
       THEN /\ o \in CAAllowedG(G, ca)
            /\ \A i \in 1..4 : PickOK(g1, Hs[i], pick[i])
            /\ eff' = IF o = "add" /\ clean
                      THEN eff \cup {ca} \cup {m \in pend[c].held : m.k = "na" \/ ~CURejectG(g1, m)}
                      ELSE eff
            /\ pure' = (pure /\ o = "add" /\ clean)
            \* (as below) when the announcement ends up not applied, a held node announcement whose
            \* node is still unknown may move on to the other pending lookups that involve this node
            /\ \E mig \in SUBSET (IF o = "none"
                                   THEN {pick[i] : i \in {j \in 3..4 : pick[j].k = "na" /\ pick[j].n \notin Nds(G)}}
                                   ELSE {}) :
                 pend' = [x \in Pending \ {c} |->
                            [pend[x] EXCEPT !.held = @ \cup {m \in mig : m.n \in {pend[x].ca.n1, pend[x].ca.n2}}]]
       \* the UTXO does not exist: the announcement is dropped; held messages that refer to
       \* something the graph knows from elsewhere may still be applied (not prescribed)
       ELSE /\ o = "none"
            /\ \A i \in 1..4 : pick[i] \in Hs[i] \cup {NoMsg}
            /\ eff' = eff \cup {pick[i] : i \in {j \in 1..4 : Took(pick[j])}}
            /\ pure' = pure
            \* a held node announcement whose node is still unknown may move on to the other
            \* pending lookups that involve this node
            /\ \E mig \in SUBSET {pick[i] : i \in {j \in 3..4 : pick[j].k = "na" /\ pick[j].n \notin Nds(G)}} :
                 pend' = [x \in Pending \ {c} |->
                            [pend[x] EXCEPT !.held = @ \cup {m \in mig : m.n \in {pend[x].ca.n1, pend[x].ca.n2}}]]
    /\ UNCHANGED <<lookup, amode, caps, tombC, tombN, remC, remN, delivered>>

-----------------------------------------------------------------------------
(* removals *)
FailChan(c) ==
  /\ G' = RemoveChans(G, {c})
  /\ Gprev' = G
  /\ tombC' = IF c \in Chs(G) THEN tombC \cup {c} ELSE tombC
  /\ remC' = IF c \in Chs(G) THEN remC \cup {c} ELSE remC
  /\ pure' = (pure /\ c \notin Chs(G))
  /\ UNCHANGED <<lookup, amode, caps, tombN, remN, delivered, eff, pend>>

FailNode(n) ==
  /\ G' = RemoveChans(G, ChansOf(G, n))
  /\ Gprev' = G
  /\ tombC' = tombC \cup ChansOf(G, n)
  /\ tombN' = IF n \in Nds(G) THEN tombN \cup {n} ELSE tombN
  /\ remC' = remC \cup ChansOf(G, n)
  /\ remN' = IF n \in Nds(G) THEN remN \cup {n} ELSE remN
  /\ pure' = (pure /\ n \notin Nds(G))
  /\ UNCHANGED <<lookup, amode, caps, delivered, eff, pend>>

(* Pruning with the clock at (start of run + two weeks + t): an update with timestamp offset
   below t is stale.  An announcement received during the run counts as old once t >= Grace.
   Failure reports are made during the run, i.e. at or after its start: a pruning call whose
   clock is less than a week after the start of the run certainly forgets none of them.     *)
Grace == 50
Week == 604800
MayForget(t) == 2 * Week + t >= Week
StaleDir(dir, t) == dir.has /\ dir.ts < t
Dropped(g, t) ==
  [g EXCEPT !.ch = [c \in Chs(g) |->
      [g.ch[c] EXCEPT !.d0 = IF StaleDir(@, t) THEN NoDir ELSE @,
                      !.d1 = IF StaleDir(@, t) THEN NoDir ELSE @]]]
AnnOld(g, c, t) == IF g.ch[c].art = 0 THEN t >= Grace ELSE g.ch[c].art < t
MustRemove(g1, t) == {c \in Chs(g1) : ~g1.ch[c].d0.has /\ ~g1.ch[c].d1.has /\ AnnOld(g1, c, t)}
MayRemove(g1, t) == {c \in Chs(g1) : ~(g1.ch[c].d0.has /\ g1.ch[c].d1.has)}

PruneFrom(g, t, R) ==
  LET g1 == Dropped(g, t) IN
  /\ MustRemove(g1, t) \subseteq R
  /\ R \subseteq MayRemove(g1, t)
  /\ G' = RemoveChans(g1, R)
  /\ tombC' = tombC \cup R

Prune(t, R) ==
  /\ PruneFrom(G, t, R)
  /\ Gprev' = G
  /\ pure' = (pure /\ G' = G)
  /\ remC' = IF MayForget(t) THEN {} ELSE remC
  /\ remN' = IF MayForget(t) THEN {} ELSE remN
  /\ UNCHANGED <<lookup, amode, caps, tombN, delivered, eff, pend>>

\* pending lookups are not persisted, nor is the memory of removals
Reload ==
  /\ G' = G
  /\ Gprev' = G
  /\ pend' = <<>>
  /\ remC' = {} /\ remN' = {}
  /\ UNCHANGED <<lookup, amode, caps, tombC, tombN, delivered, eff, pure>>

-----------------------------------------------------------------------------
(* A rapid-gossip-sync snapshot: unsigned announcements (added when the scid is unknown),
   node records (v2: an unsigned node announcement that keeps the stored alias and sets the
   address, subject to the timestamp rule) and unsigned updates, all carrying the snapshot's
   (backdated) timestamp ts; optionally followed by pruning at t.                            *)
RECURSIVE RgsAnns(_, _, _), RgsNodes(_, _, _, _), RgsUpds(_, _, _)
RgsAnns(g, anns, ts) ==
  IF anns = <<>> THEN g
  ELSE LET a == Head(anns)
           g2 == IF a.c \in Chs(g) THEN g ELSE AddChan(g, a.c, a.n1, a.n2, a.cap, ts)
       IN RgsAnns(g2, Tail(anns), ts)
\* g0 = the graph before the snapshot (the alias is copied from there)
KeptAlias(g0, n) == IF n \in Nds(g0) /\ g0.nd[n].ha THEN g0.nd[n].ap ELSE 0
SynthNA(g0, r, ts) == [Msg EXCEPT !.k = "na", !.n = r.n, !.ts = ts, !.s = -2,
                                  !.ap = KeptAlias(g0, r.n), !.ad = r.ad]
RgsNodes(g, g0, nmods, ts) ==
  IF nmods = <<>> THEN g
  ELSE RgsNodes(NAApplyG(g, SynthNA(g0, Head(nmods), ts)), g0, Tail(nmods), ts)
RDir(u, ts) == [has |-> TRUE, ts |-> ts, en |-> u.en, cltv |-> u.cltv, hmin |-> u.hmin,
                hmax |-> u.hmax, fb |-> u.fb, fp |-> u.fp]
RgsUpdOK(g, u, ts) ==
  /\ u.c \in Chs(g)
  /\ ~(g.ch[u.c].cap >= 0 /\ u.hmax > g.ch[u.c].cap * 1000)
  /\ ~(DirAt(g, u.c, u.d).has /\ DirAt(g, u.c, u.d).ts >= ts)
RgsUpds(g, upds, ts) ==
  IF upds = <<>> THEN g
  ELSE LET u == Head(upds)
           g2 == IF RgsUpdOK(g, u, ts) THEN SetDir(g, u.c, u.d, RDir(u, ts)) ELSE g
       IN RgsUpds(g2, Tail(upds), ts)
RgsGraph(g, ts, anns, nmods, upds) == RgsUpds(RgsNodes(RgsAnns(g, anns, ts), g, nmods, ts), upds, ts)

SeqToSet(s) == {s[i] : i \in DOMAIN s}
SynthCA(a) == [Msg EXCEPT !.k = "ca", !.c = a.c, !.n1 = a.n1, !.n2 = a.n2, !.s1 = -2, !.s2 = -2, !.bs = 1]
SynthCU(u, ts) == [Msg EXCEPT !.k = "cu", !.c = u.c, !.d = u.d, !.ts = ts, !.s = -2, !.en = u.en,
                              !.cltv = u.cltv, !.hmin = u.hmin, !.hmax = u.hmax, !.fb = u.fb, !.fp = u.fp]

\* prune = FALSE: no pruning pass; R as for Prune
Rgs(ts, anns, nmods, upds, prune, t, R) ==
  LET g2 == RgsGraph(G, ts, anns, nmods, upds) IN
  /\ IF prune THEN PruneFrom(g2, t, R) ELSE (R = {} /\ G' = g2 /\ tombC' = tombC)
  /\ Gprev' = G
  /\ delivered' = delivered \cup {SynthCA(anns[i]) : i \in DOMAIN anns}
                            \cup {SynthNA(G, nmods[i], ts) : i \in DOMAIN nmods}
                            \cup {SynthCU(upds[i], ts) : i \in DOMAIN upds}
  /\ pure' = FALSE
  \* what the snapshot names is (re-)added whatever was reported before
  /\ remC' = (IF prune /\ MayForget(t) THEN {} ELSE remC) \ Chs(g2)
  /\ remN' = (IF prune /\ MayForget(t) THEN {} ELSE remN) \ Nds(g2)
  /\ UNCHANGED <<lookup, amode, caps, tombN, eff, pend>>

-----------------------------------------------------------------------------
(* Invariants *)

\* every stored item stems from a message that was signed by the announced keys (or from an
\* unsigned entry point / snapshot, for which no verification was requested: signer -2)
OnlyAuthentic ==
  /\ \A c \in Chs(G) :
       /\ \E m \in delivered : /\ m.k = "ca" /\ m.c = c /\ m.chain /\ CASigned(m)
                               /\ m.n1 = G.ch[c].n1 /\ m.n2 = G.ch[c].n2
       /\ \A d \in {0, 1} : DirAt(G, c, d).has =>
            \E m \in delivered : /\ m.k = "cu" /\ m.c = c /\ m.d = d /\ m.chain
                                 /\ DirOf(m) = DirAt(G, c, d)
                                 /\ m.s \in {SignerOf(G, c, d), -2}
                                 /\ (G.ch[c].cap >= 0 => m.hmax <= G.ch[c].cap * 1000)
  /\ \A n \in Nds(G) : G.nd[n].ha =>
       \E m \in delivered : /\ m.k = "na" /\ m.n = n /\ m.s \in {n, -2} /\ m.ts = G.nd[n].ats
                            /\ m.ap = G.nd[n].ap /\ m.ad = G.nd[n].ad

\* a stored timestamp never decreases and equal timestamps never replace -- whatever the entry
\* point the message came through
MonoDir(a, b) == (a.has /\ b.has) => (b.ts >= a.ts /\ (b.ts = a.ts => b = a))
NeverOlder ==
  /\ \A c \in Chs(G) \cap Chs(Gprev) :
       (G.ch[c].n1 = Gprev.ch[c].n1 /\ G.ch[c].n2 = Gprev.ch[c].n2) =>
         (MonoDir(Gprev.ch[c].d0, G.ch[c].d0) /\ MonoDir(Gprev.ch[c].d1, G.ch[c].d1))
  /\ \A n \in Nds(G) \cap Nds(Gprev) :
       (G.nd[n].ha /\ Gprev.nd[n].ha) =>
         (G.nd[n].ats >= Gprev.nd[n].ats /\ (G.nd[n].ats = Gprev.nd[n].ats => G.nd[n] = Gprev.nd[n]))

\* nodes exist exactly as long as they have a channel
NodeCleanup == Nds(G) = UNION {Ends(G, c) : c \in Chs(G)}

\* what was reported permanently failed stays out of the graph while the report is remembered
FailedStayOut == remC \cap Chs(G) = {} /\ remN \cap Nds(G) = {}

\* Confluence: as long as nothing was removed, the graph is a function of the SET of valid
\* messages delivered (each after what it refers to), whatever the order and duplication --
\* and whether the UTXO source answered at once or later
CAs(S) == {m \in S : m.k = "ca"}
Best(S, c, d) ==
  LET U == {m \in S : m.k = "cu" /\ m.c = c /\ m.d = d} IN
  IF U = {} THEN NoDir ELSE DirOf(CHOOSE m \in U : \A o \in U : o.ts <= m.ts)
BestNA(S, n) ==
  LET U == {m \in S : m.k = "na" /\ m.n = n} IN
  IF U = {} THEN NoAnn
  ELSE LET b == CHOOSE m \in U : \A o \in U : o.ts <= m.ts
       IN [ha |-> TRUE, ats |-> b.ts, ap |-> b.ap, ad |-> b.ad]
F(S) ==
  [ch |-> [c \in {m.c : m \in CAs(S)} |->
             LET a == CHOOSE m \in CAs(S) : m.c = c IN
             [n1 |-> a.n1, n2 |-> a.n2, cap |-> CapOf(c), art |-> 0,
              d0 |-> Best(S, c, 0), d1 |-> Best(S, c, 1)]],
   nd |-> [n \in UNION {{m.n1, m.n2} : m \in CAs(S)} |-> BestNA(S, n)]]
NoConflict(S) ==
  \A a, b \in S : a # b =>
    /\ ~(a.k = "ca" /\ b.k = "ca" /\ a.c = b.c)
    /\ ~(a.k = "cu" /\ b.k = "cu" /\ a.c = b.c /\ a.d = b.d /\ a.ts = b.ts)
    /\ ~(a.k = "na" /\ b.k = "na" /\ a.n = b.n /\ a.ts = b.ts)
Confluence == (pure /\ NoConflict(eff)) => G = F(eff)
=============================================================================
