SPECIFICATION MCSpec
CONSTANTS
  ReqTicks = 1
  NP = 1
  Manual = FALSE
  Hold = FALSE
  Offs = {1}
  MaxPay = 1
  MaxKeep = 0
  MaxTick = 2
  MaxRestart = 0
  MaxSave = 0
  MaxAband = 0
  MaxErr = 0
  MaxMsgRecv = 0
  MaxSend = 0
  MaxOps = 4
  MinOps = 9
  CodeTicks = 1
  Idem = 1
  Stale = FALSE
  Bug = "early_expiry"
CONSTRAINT Bound
VIEW View
INVARIANT TermSane
INVARIANT OneHashPerId
INVARIANT OnePaymentPerId
CHECK_DEADLOCK TRUE
