SPECIFICATION Spec
CONSTANTS
  K = 3
  ResetFlag = FALSE
INVARIANT NothingOrphaned
CHECK_DEADLOCK TRUE
