SPECIFICATION TraceSpec
CONSTANT Relax = {"C14"}
INVARIANT TypeOK
INVARIANT CountersSane
INVARIANT ExactlyOnce
INVARIANT NonNegative
POSTCONDITION TraceAccepted
CHECK_DEADLOCK FALSE
