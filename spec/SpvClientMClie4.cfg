SPECIFICATION MCSpec
CONSTANTS
  MaxListeners = 3
  NB = 4
  MaxOps = 4
  EmitEvery = 1
  LieMode = TRUE
  SyncListeners = 0
CONSTRAINT Bound
VIEW View
INVARIANT TipAgreement
INVARIANT ListenerOnTree
INVARIANT EmitScripts
CHECK_DEADLOCK TRUE
