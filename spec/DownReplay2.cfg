SPECIFICATION Spec
CONSTANTS
  K = 2
  KnownFrom = "both"
INVARIANT NoEarlyFailBack
INVARIANT NothingOrphaned
INVARIANT EmitScripts
CHECK_DEADLOCK TRUE
