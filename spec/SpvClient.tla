----------------------------- MODULE SpvClient -----------------------------
(***************************************************************************)
(* C20 -- design model of lightning-block-sync at the granularity of its   *)
(* code: SpvClient::poll_best_tip (poll_chain_tip, find_difference, walk   *)
(* back through the header cache or the source, disconnect_blocks to the   *)
(* fork point, connect_blocks ascending, partial advance on a failed       *)
(* fetch) and init::synchronize_listeners.  Any single source request may  *)
(* fail or lie; a get_header answer may also be a correct header carrying a *)
(* wrong accumulated chainwork or height (see "Lying answers").  TLC checks that this algorithm refines SpvAbstract (the   *)
(* observable statement of the property) and keeps the client's private    *)
(* tip equal to its listeners' tip after every poll, failed ones included. *)
(***************************************************************************)
EXTENDS SpvAbstract

VARIABLES
  ctip,    \* SpvClient.chain_tip
  cache,   \* set of blocks whose headers are in the HeaderCache
  plan,    \* notifications the current operation still has to deliver
  after,   \* [ctip, cache, res, flag, ok] to install when the operation returns
  lied     \* the lying get_header answers the source gave in the current / last poll (kept until
           \* the source's tip moves: the script of every lying poll is emitted, see EmitScripts)

cvars == <<avars, ctip, cache, plan, after, lied>>

RECURSIVE PathUp(_, _)
PathUp(a, b) == IF a = b THEN <<>> ELSE Append(PathUp(a, parent[b]), b)
Range(s) == {s[k] : k \in 1..Len(s)}

NeedHdr(cur, prev) ==
  LET f == Fork(cur, prev) IN
  {parent[x] : x \in Range(PathUp(f, cur)) \cup Range(PathUp(f, prev))}

WalkFails(cur, prev, FH, c) == \E h \in NeedHdr(cur, prev) : h \notin c /\ h \in FH

\* longest prefix of path with no faulty block
RECURSIVE GoodPrefix(_, _)
GoodPrefix(path, FB) ==
  IF path = <<>> \/ Head(path) \in FB THEN <<>>
  ELSE <<Head(path)>> \o GoodPrefix(Tail(path), FB)

Last(s, dflt) == IF s = <<>> THEN dflt ELSE s[Len(s)]

\* one notification per listener of the composite listener, listener-minor
RECURSIVE Fan(_, _)
Fan(n, k) == IF k > nl THEN <<>> ELSE <<[t |-> n.t, i |-> k, b |-> n.b]>> \o Fan(n, k + 1)
RECURSIVE FanAll(_)
FanAll(ns) == IF ns = <<>> THEN <<>> ELSE Fan(Head(ns), 1) \o FanAll(Tail(ns))

Faults == {<<FH, FB>> \in (SUBSET Blocks) \X (SUBSET Blocks) :
             Cardinality(FH) <= 1 /\ Cardinality(FB) <= 1}

-----------------------------------------------------------------------------
(* Lying answers.  A source answer to get_header(b) is one of a class:      *)
(*   honest | "over" d : right header, chainwork overstated by d            *)
(*          | "under" d: right header, chainwork understated by d           *)
(*          | "hup" / "hdn": right header, height one too high / too low     *)
(* (PoW, hash and prev hash are right: validate() passes).  The client can   *)
(* tell such a lie only by check_builds_on, i.e. when the header is compared *)
(* with a parent / child header it has to FETCH; a header whose parent is in *)
(* the HeaderCache (or that is not walked at all) is taken on trust, which   *)
(* the property leaves to the source.  So the class is restricted to answers *)
(* that are served and compared:                                            *)
(*  - the answer for the source's tip, ranked better on its claimed work,    *)
(*    not an ancestor of the client's tip and with its parent NOT cached     *)
(*    (the cache holds what this client connected or start-up sync walked:  *)
(*    a fork at least two blocks long, a client at least two blocks behind,  *)
(*    a fork point the client never connected), or ranked worse on its       *)
(*    claimed work (nothing is walked);                                      *)
(*  - the answer for any other header that the walk fetches as a parent.     *)
(* In all of them the unchanged algorithm notices the mismatch before the    *)
(* first notification (or ranks the tip worse): no listener is called and    *)
(* chain_tip / cache stay as they were.                                      *)
LieKinds == {"over", "under", "hup", "hdn"}
Lies == {{}} \cup {{[b |-> b, k |-> k, d |-> 1]} : b \in Blocks, k \in LieKinds \ {"hdn"}}
             \cup {{[b |-> b, k |-> "hdn", d |-> 1]} : b \in {srcTip}}
             \cup {{[b |-> b, k |-> "over", d |-> 2]} : b \in {srcTip}}
OverD(b, L) == IF \E x \in L : x.b = b /\ x.k = "over"
               THEN (CHOOSE x \in L : x.b = b /\ x.k = "over").d ELSE 0
UnderD(b, L) == IF \E x \in L : x.b = b /\ x.k = "under"
                THEN (CHOOSE x \in L : x.b = b /\ x.k = "under").d ELSE 0
LiedOn(L) == {x.b : x \in L}
\* the tip as ranked by poll_chain_tip on the chainwork the source claims for it
ClaimedBetter(tip, cur, L) == ChainWork(tip) + OverD(tip, L) > ChainWork(cur) + UnderD(tip, L)
LieWellFormed(x) ==
  /\ x.k \in {"hup", "hdn"} => x.d = 1
  /\ x.k = "hdn" => x.b # 0
  /\ x.k = "under" => x.d = 1
LieInClass(x, cur, c) ==
  /\ LieWellFormed(x)
  /\ srcTip # cur
  /\ IF x.b = srcTip
     THEN ClaimedBetter(srcTip, cur, {x})
            => (~IsAncestor(srcTip, cur) /\ parent[srcTip] \notin c)
     ELSE /\ ChainWork(srcTip) > ChainWork(cur)
          /\ x.b \in NeedHdr(srcTip, cur) \ c

NoClient == nb + 1   \* sentinel: no SpvClient exists yet (start-up sync still to run)

CInit(n, listeners, sync) ==
  /\ nb = n
  /\ TreeOK
  /\ srcTip \in Blocks
  /\ nl = listeners
  /\ ltip \in [1..listeners -> Blocks]
  /\ phase = "idle" /\ startTip = ltip /\ faulted = FALSE
  /\ moved = [i \in 1..listeners |-> FALSE] /\ connd = [i \in 1..listeners |-> FALSE]
  /\ IF sync THEN ctip = NoClient ELSE (SameTips /\ ctip = ltip[1])
  /\ cache = {} /\ plan = <<>> /\ lied = {}
  /\ after = [ctip |-> ctip, cache |-> cache, res |-> "none", flag |-> FALSE, ok |-> TRUE]

CSetTip(b) == SetTip(b) /\ lied' = {} /\ UNCHANGED <<ctip, cache, plan, after>>

(* poll_best_tip, first half: everything up to the first notification.     *)
CPollBegin(FH, FB, bestFails, L) ==
  LET f == (FH # {} \/ FB # {} \/ bestFails \/ L # {}) IN
  /\ ctip \in Blocks
  /\ L # {} => (FH = {} /\ FB = {} /\ ~bestFails /\ \A x \in L : LieInClass(x, ctip, cache))
  /\ lied' = L
  /\ PollBegin(f)
  /\ SameTips
  /\ IF bestFails \/ (srcTip # ctip /\ srcTip \in FH)
     THEN /\ plan' = <<>>
          /\ after' = [ctip |-> ctip, cache |-> cache, res |-> "err", flag |-> FALSE, ok |-> FALSE]
     ELSE IF srcTip = ctip
     THEN /\ plan' = <<>>
          /\ after' = [ctip |-> ctip, cache |-> cache, res |-> "common", flag |-> FALSE, ok |-> TRUE]
     ELSE IF ~ClaimedBetter(srcTip, ctip, L)
     THEN /\ plan' = <<>>
          /\ after' = [ctip |-> ctip, cache |-> cache, res |-> "worse", flag |-> FALSE, ok |-> TRUE]
     ELSE IF srcTip \in LiedOn(L)
     THEN \* the tip's parent is fetched and the tip does not build on it: find_difference fails
          /\ plan' = <<>>
          /\ after' = [ctip |-> ctip, cache |-> cache, res |-> "better", flag |-> FALSE, ok |-> TRUE]
     ELSE IF WalkFails(srcTip, ctip, FH \cup LiedOn(L), cache)
     THEN /\ plan' = <<>>
          /\ after' = [ctip |-> ctip, cache |-> cache, res |-> "better", flag |-> FALSE, ok |-> TRUE]
     ELSE
       LET fk == Fork(srcTip, ctip)
           path == PathUp(fk, srcTip)
           good == GoodPrefix(path, FB)
           disc == IF fk # ctip THEN <<[t |-> "disc", b |-> fk]>> ELSE <<>>
           c1 == IF fk # ctip THEN {x \in cache : Height(x) <= Height(fk)} ELSE cache
           newtip == Last(good, fk)
       IN /\ plan' = FanAll(disc \o [k \in 1..Len(good) |-> [t |-> "conn", b |-> good[k]]])
          /\ after' = [ctip |-> newtip, cache |-> c1 \cup Range(good), res |-> "better",
                       flag |-> (newtip # ctip), ok |-> TRUE]
  /\ UNCHANGED <<ctip, cache>>

(* synchronize_listeners, first half.  Listeners are handled in order;      *)
(* each has its old tip resolved, its difference to the best tip found and  *)
(* its stale blocks disconnected; then all missing blocks are fetched and   *)
(* connected per listener.                                                  *)
RECURSIVE SyncDisc(_, _, _, _)
\* returns [ok, notifs, cache, heights] after processing listeners k..nl
SyncDisc(k, FH, c, acc) ==
  IF k > nl THEN [ok |-> TRUE, notifs |-> acc, cache |-> c]
  ELSE LET old == ltip[k] IN
       IF old \notin c /\ old \in FH THEN [ok |-> FALSE, notifs |-> acc, cache |-> c]
       ELSE LET c1 == c \cup {old} IN
            IF WalkFails(srcTip, old, FH, c1) THEN [ok |-> FALSE, notifs |-> acc, cache |-> c1]
            ELSE LET fk == Fork(srcTip, old)
                     d == IF fk # old THEN <<[t |-> "disc", i |-> k, b |-> fk]>> ELSE <<>>
                 IN SyncDisc(k + 1, FH, c1, acc \o d)

RECURSIVE SyncConn(_, _)
SyncConn(k, FB) ==
  IF k > nl THEN <<>>
  ELSE LET fk == Fork(srcTip, ltip[k])
           path == PathUp(fk, srcTip)
       IN [j \in 1..Len(path) |-> [t |-> "conn", i |-> k, b |-> path[j]]] \o SyncConn(k + 1, FB)

AllSyncBlocks == UNION {Range(PathUp(Fork(srcTip, ltip[k]), srcTip)) : k \in Listeners}

CSyncBegin(FH, FB, bestFails) ==
  LET f == (FH # {} \/ FB # {} \/ bestFails) IN
  /\ ctip = NoClient
  /\ lied' = {}
  /\ SyncBegin(f)
  /\ IF bestFails \/ srcTip \in FH
     THEN /\ plan' = <<>>
          /\ after' = [ctip |-> ctip, cache |-> cache, res |-> "sync", flag |-> FALSE, ok |-> FALSE]
     ELSE LET d == SyncDisc(1, FH, {}, <<>>) IN
          IF ~d.ok \/ (AllSyncBlocks \cap FB # {})
          THEN /\ plan' = d.notifs
               /\ after' = [ctip |-> ctip, cache |-> cache, res |-> "sync", flag |-> FALSE, ok |-> FALSE]
          ELSE /\ plan' = d.notifs \o SyncConn(1, FB)
               /\ after' = [ctip |-> srcTip, cache |-> d.cache \cup AllSyncBlocks, res |-> "sync",
                            flag |-> TRUE, ok |-> TRUE]
  /\ UNCHANGED <<ctip, cache>>

CNotify ==
  /\ plan # <<>>
  /\ LET n == Head(plan) IN
     IF n.t = "disc" THEN Disconnected(n.i, n.b) ELSE Connected(n.i, n.b, Height(n.b))
  /\ plan' = Tail(plan)
  /\ UNCHANGED <<ctip, cache, after, lied>>

CPollEnd ==
  /\ phase = "polling" /\ plan = <<>>
  /\ PollEnd(after.res, after.flag)
  /\ ctip' = after.ctip /\ cache' = after.cache
  /\ UNCHANGED <<plan, after, lied>>

CSyncEnd ==
  /\ phase = "syncing" /\ plan = <<>>
  /\ SyncEnd(after.ok, after.ctip)
  /\ ctip' = after.ctip /\ cache' = after.cache
  /\ UNCHANGED <<plan, after, lied>>

CNext ==
  \/ \E b \in Blocks : CSetTip(b)
  \/ \E ff \in Faults, bf \in BOOLEAN, L \in Lies : CPollBegin(ff[1], ff[2], bf, L)
  \/ \E ff \in Faults, bf \in BOOLEAN : CSyncBegin(ff[1], ff[2], bf)
  \/ CNotify
  \/ CPollEnd
  \/ CSyncEnd


-----------------------------------------------------------------------------
(* The client's private tip always equals what its listeners were told.     *)
TipAgreement == (phase = "idle" /\ ctip \in Blocks) => \A i \in Listeners : ltip[i] = ctip
(* "An honest poll of a better tip ends exactly there" is PollEnd's guard in  *)
(* SpvAbstract; the design model would deadlock (CHECK_DEADLOCK TRUE) if the  *)
(* algorithm could not meet it.                                              *)

=============================================================================
