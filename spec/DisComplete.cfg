SPECIFICATION Spec
CONSTANTS
  Release = "always"
  Whats = {"forward", "failback", "claimfin"}
INVARIANT ReleasedOnCompletion
INVARIANT EmitScripts
CONSTRAINT Bounded
CHECK_DEADLOCK TRUE
