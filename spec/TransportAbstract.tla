------------------------- MODULE TransportAbstract -------------------------
(***************************************************************************)
(* C15 -- what the encrypted transport may do, stated only over what the   *)
(* socket driver and the message handlers of a node can observe:           *)
(*   - the bytes a side offers to / gets accepted by its socket,           *)
(*   - the bytes handed to a side with read_event and the result,          *)
(*   - the messages handed over for sending (Queue) and the messages that  *)
(*     reach a handler on the far side (Delivered),                        *)
(*   - peer_connected / peer_disconnected callbacks, disconnect_socket,    *)
(*   - every other callback of the channel / routing / onion / custom      *)
(*     message handlers for a message of the peer (HandlerCall),           *)
(*   - what the network did to the bytes in flight (Tamper).               *)
(* Nothing about PeerManager's buffers, its send_data chunking, nonces or   *)
(* keys appears here.  Side 1 is the initiator; stream d is the byte       *)
(* stream written by side d and read by side 3-d.  A side is either a      *)
(* PeerManager or (modes "raw1"/"raw2") a raw BOLT-8 peer operated by the  *)
(* harness, whose stream layout is therefore known exactly.                *)
(*                                                                         *)
(* The frame of a message of `size` bytes (type included) occupies          *)
(* HdrLen + size + TagLen bytes of its stream.  For a PeerManager-written   *)
(* stream the position of a frame is not observable (pings and the like    *)
(* may be interleaved), only a LOWER bound of where it ends: everything     *)
(* offered to the socket before the message was handed over precedes it.   *)
(*                                                                         *)
(* Actions never block on a clause of the property: a step that breaks one *)
(* records its name in `viol`, and the clauses are the invariants below.   *)
(***************************************************************************)
EXTENDS Integers, Sequences, TLC

CONSTANTS Act1Len, Act2Len, Act3Len,  \* 50, 50, 66
          HdrLen, TagLen,             \* 18, 16
          MinInitLen                  \* shortest possible Init message (6)

VARIABLES
  mode,     \* "off" | "pm" | "raw1" | "raw2"
  up,       \* [1..2 -> BOOLEAN]  the side still holds the connection
  slen,     \* [1..2 -> Nat]  bytes of stream d accepted by d's socket so far
  hw,       \* [1..2 -> Nat]  bytes of stream d already offered to the socket (high-water mark)
  given,    \* [1..2 -> Nat]  bytes of stream d handed to its receiver so far
  extra,    \* [1..2 -> Nat]  bytes inserted into stream d by the network
  queued,   \* [1..2 -> Seq([id, size, lb, pre])]  handed over, not yet delivered, stream order;
            \*   lb = lower bound of the stream offset at which the frame ends
  qend,     \* [1..2 -> Nat]  lower bound of the offset at which the next frame starts
  tamp,     \* [1..2 -> Int]  smallest tampered offset of stream d, -1 = none
  tub,      \* [1..2 -> Int]  offset at which a tampered unit is known to be complete, -1 = unknown
  mustdrop, \* [1..2 -> BOOLEAN]  stream d was modified in a way the receiver must notice once
            \*   everything sent has been read
  initrx,   \* [1..2 -> BOOLEAN]  between peer_connected and peer_disconnected
  initend,  \* [1..2 -> Int]  raw streams: offset at which the raw peer's Init frame ends, -1 = not sent
  fends,    \* [1..2 -> Seq(Nat)]  raw streams: the exact frame ends
  reading,  \* 0, or the side that is inside read_event
  dirty,    \* the peer or the network misbehaved (tamper, harness disconnect, message before Init, garbage)
  viol      \* "" or the name of the violated clause

avars == <<mode, up, slen, hw, given, extra, queued, qend, tamp, tub, mustdrop, initrx, initend,
           fends, reading, dirty, viol>>

Other(s) == 3 - s
Raw(s) == (mode = "raw1" /\ s = 1) \/ (mode = "raw2" /\ s = 2)
HS(d) == IF d = 1 THEN Act1Len + Act3Len ELSE Act2Len
FrameLen(size) == HdrLen + size + TagLen
Max(a, b) == IF a > b THEN a ELSE b
Min(a, b) == IF a < b THEN a ELSE b
MinDef(a, b) == IF a = -1 THEN b ELSE IF b = -1 THEN a ELSE Min(a, b)
Flag(v, cond, name) == IF v = "" /\ cond THEN name ELSE v

\* index of the first message of stream d that may still be delivered (0 = none)
RECURSIVE FirstOK(_, _)
FirstOK(q, k) == IF k > Len(q) THEN 0 ELSE IF ~q[k].pre THEN k ELSE FirstOK(q, k + 1)
Undelivered(d) == FirstOK(queued[d], 1) # 0

\* exactly known unit boundaries of stream d
KnownEnds(d) == IF Raw(d) THEN fends[d]
                ELSE IF d = 1 THEN <<Act1Len, Act1Len + Act3Len>> ELSE <<Act2Len>>
RECURSIVE EndAfter(_, _, _)
EndAfter(es, k, off) == IF k > Len(es) THEN -1 ELSE IF es[k] > off THEN es[k] ELSE EndAfter(es, k + 1, off)
IsEnd(es, off) == off = 0 \/ \E k \in 1..Len(es) : es[k] = off
\* the smallest Init frame end stream d can have
InitEndLB(d) == IF Raw(d) THEN initend[d] ELSE HS(d) + FrameLen(MinInitLen)

-----------------------------------------------------------------------------
Reset(m) ==
  /\ mode' = m
  /\ up' = [s \in 1..2 |-> TRUE]
  /\ slen' = [s \in 1..2 |-> 0] /\ hw' = [s \in 1..2 |-> 0] /\ given' = [s \in 1..2 |-> 0]
  /\ extra' = [s \in 1..2 |-> 0]
  /\ queued' = [s \in 1..2 |-> <<>>]
  /\ qend' = [s \in 1..2 |-> IF (m = "raw1" /\ s = 1) \/ (m = "raw2" /\ s = 2) THEN 0
                             ELSE (IF s = 1 THEN Act1Len + Act3Len ELSE Act2Len) + FrameLen(MinInitLen)]
  /\ tamp' = [s \in 1..2 |-> -1] /\ tub' = [s \in 1..2 |-> -1]
  /\ mustdrop' = [s \in 1..2 |-> FALSE]
  /\ initrx' = [s \in 1..2 |-> FALSE]
  /\ initend' = [s \in 1..2 |-> -1]
  /\ fends' = [s \in 1..2 |-> <<>>]
  /\ reading' = 0 /\ dirty' = FALSE
  /\ viol' = ""          \* every run is judged on its own

(* new_outbound_connection returned the first len bytes of stream 1 *)
ActOne(len) ==
  /\ slen' = [slen EXCEPT ![1] = @ + len]
  /\ hw' = [hw EXCEPT ![1] = Max(@, slen[1] + len)]
  /\ UNCHANGED <<mode, up, given, extra, queued, qend, tamp, tub, mustdrop, initrx, initend, fends,
                 reading, dirty, viol>>

(* side s offered `offered` bytes to its socket, which took `accepted` *)
SendData(s, offered, accepted) ==
  /\ accepted <= offered
  /\ slen' = [slen EXCEPT ![s] = @ + accepted]
  /\ hw' = [hw EXCEPT ![s] = Max(@, slen[s] + offered)]
  /\ UNCHANGED <<mode, up, given, extra, queued, qend, tamp, tub, mustdrop, initrx, initend, fends,
                 reading, dirty, viol>>

(* a message was handed to the PeerManager of side d for sending (the harness does so only      *)
(* between peer_connected and peer_disconnected of that side)                                   *)
Queue(d, id, size) ==
  LET start == Max(hw[d], qend[d])
      lb == start + FrameLen(size) IN
  /\ ~Raw(d)
  /\ initrx[d]
  /\ queued' = [queued EXCEPT ![d] = Append(@, [id |-> id, size |-> size, lb |-> lb, pre |-> FALSE])]
  /\ qend' = [qend EXCEPT ![d] = lb]
  /\ UNCHANGED <<mode, up, slen, hw, given, extra, tamp, tub, mustdrop, initrx, initend, fends,
                 reading, dirty, viol>>

(* the raw peer of side s wrote a whole frame of `len` bytes *)
RawSend(s, kind, id, size, len) ==
  LET e == slen[s] + len
      isMsg == kind \in {"msg", "chan"}
      garbage == kind = "garbage"
      gtub == IF slen[s] = 0 THEN (IF s = 1 THEN Act1Len ELSE Act2Len)
              ELSE IF slen[s] < HS(s) THEN HS(s) ELSE slen[s] + HdrLen IN
  /\ Raw(s)
  /\ slen' = [slen EXCEPT ![s] = e]
  /\ hw' = [hw EXCEPT ![s] = e]
  /\ fends' = [fends EXCEPT ![s] = IF garbage THEN @ ELSE Append(@, e)]
  /\ initend' = [initend EXCEPT ![s] = IF kind = "init" /\ @ = -1 THEN e ELSE @]
  /\ queued' = [queued EXCEPT ![s] = IF isMsg
                  THEN Append(@, [id |-> id, size |-> size, lb |-> e, pre |-> initend[s] = -1]) ELSE @]
  /\ qend' = [qend EXCEPT ![s] = e]
  /\ tamp' = [tamp EXCEPT ![s] = IF garbage THEN MinDef(@, slen[s]) ELSE @]
  /\ tub' = [tub EXCEPT ![s] = IF garbage THEN MinDef(@, gtub) ELSE @]
  \* "short"/"junk": well-formed frames that are no test message (empty message, ping, unknown type,
  \* undecodable gossip ...): the node may answer, ignore or disconnect, it must not panic
  \* "typed": a well-formed message of a standard type that has no one-to-one handler callback (ping,
  \* pong, warning, error, start_batch and the commitment_signed of a batch, gossip_timestamp_filter,
  \* unknown odd / even types): what the node does with it after Init is not judged here either
  /\ dirty' = (dirty \/ garbage \/ (isMsg /\ initend[s] = -1) \/ kind \in {"short", "junk", "typed"})
  /\ UNCHANGED <<mode, up, given, extra, mustdrop, initrx, reading, viol>>

(* the network modified stream d at offset off (not yet handed to the receiver); n bytes inserted *)
Tamper(d, off, kind, n) ==
  LET es == KnownEnds(d)
      e == IF kind \in {"inject", "replay"} /\ IsEnd(es, off)
           THEN (IF off < HS(d) THEN EndAfter(es, 1, off) ELSE off + HdrLen)
           ELSE EndAfter(es, 1, off)
      t == IF kind = "trunc" \/ extra[d] > 0 THEN -1 ELSE e IN
  /\ off >= given[d]
  /\ tamp' = [tamp EXCEPT ![d] = MinDef(@, off)]
  /\ tub' = [tub EXCEPT ![d] = MinDef(@, t)]
  /\ extra' = [extra EXCEPT ![d] = @ + n]
  /\ mustdrop' = [mustdrop EXCEPT ![d] = @ \/ kind \in {"flip", "replay"} \/ (kind = "inject" /\ n >= Act3Len)]
  /\ dirty' = TRUE
  /\ UNCHANGED <<mode, up, slen, hw, given, queued, qend, initrx, initend, fends, reading, viol>>

(* read_event(len bytes of stream 3-s) is called on side s *)
ReadBegin(s, len) ==
  LET d == Other(s) IN
  /\ ~Raw(s) /\ reading = 0
  /\ given[d] + len <= slen[d] + extra[d]
  /\ given' = [given EXCEPT ![d] = @ + len]
  /\ reading' = s
  /\ UNCHANGED <<mode, up, slen, hw, extra, queued, qend, tamp, tub, mustdrop, initrx, initend, fends,
                 dirty, viol>>

(* a message reached a handler of side s.  ok = its content is what was sent under that id. *)
Delivered(s, id, size, ok) ==
  LET d == Other(s)
      k == FirstOK(queued[d], 1)
      m == queued[d][k]
      exact == k # 0 /\ ok /\ m.id = id /\ m.size = size /\ m.lb <= given[d] /\ up[s]
      untampered == k = 0 \/ tamp[d] = -1 \/ m.lb <= tamp[d] IN
  /\ viol' = Flag(Flag(Flag(viol, ~initrx[s], "InitFirst"), ~exact, "ExactDelivery"),
                  ~untampered, "TamperDisconnects")
  /\ queued' = [queued EXCEPT ![d] = IF k = 0 THEN @ ELSE SubSeq(@, k + 1, Len(@))]
  /\ UNCHANGED <<mode, up, slen, hw, given, extra, qend, tamp, tub, mustdrop, initrx, initend, fends,
                 reading, dirty>>

(* A handler of side s (channel / routing / onion / custom message handler) was called back for a  *)
(* message of the peer in a way that is not reported as Delivered (handle_error, the channel        *)
(* handler's copy of a channel_update, handle_commitment_signed_batch, ...).  Nothing a peer sends  *)
(* is acted on before its Init has been received (and nothing after the handlers were told that    *)
(* the peer is gone).                                                                              *)
HandlerCall(s) ==
  /\ viol' = Flag(viol, ~initrx[s], "InitFirst")
  /\ UNCHANGED <<mode, up, slen, hw, given, extra, queued, qend, tamp, tub, mustdrop, initrx, initend, fends,
                 reading, dirty>>

(* read_event returned.  Ok although a tampered unit has been handed over completely breaks     *)
(* TamperDisconnects; Err means the PeerManager dropped the connection.                          *)
ReadEnd(s, ok) ==
  LET d == Other(s) IN
  /\ reading = s
  /\ reading' = 0
  /\ up' = [up EXCEPT ![s] = @ /\ ok]
  /\ viol' = Flag(viol, ok /\ tub[d] # -1 /\ given[d] >= tub[d], "TamperDisconnects")
  /\ UNCHANGED <<mode, slen, hw, given, extra, queued, qend, tamp, tub, mustdrop, initrx, initend,
                 fends, dirty>>

(* the handlers of side s were told that the peer's Init arrived *)
PeerConnected(s) ==
  LET d == Other(s)
      lbnd == InitEndLB(d) IN
  /\ initrx' = [initrx EXCEPT ![s] = TRUE]
  /\ viol' = Flag(Flag(viol, lbnd = -1 \/ given[d] < lbnd \/ ~up[s], "InitFirst"),
                  tamp[d] # -1 /\ tamp[d] < lbnd, "TamperDisconnects")
  /\ UNCHANGED <<mode, up, slen, hw, given, extra, queued, qend, tamp, tub, mustdrop, initend, fends,
                 reading, dirty>>

PeerDisconnected(s) ==
  /\ initrx' = [initrx EXCEPT ![s] = FALSE]
  /\ UNCHANGED <<mode, up, slen, hw, given, extra, queued, qend, tamp, tub, mustdrop, initend, fends,
                 reading, dirty, viol>>

(* the PeerManager of side s dropped the connection (disconnect_socket / Err from an API call) *)
Dropped(s) ==
  /\ up' = [up EXCEPT ![s] = FALSE]
  /\ UNCHANGED <<mode, slen, hw, given, extra, queued, qend, tamp, tub, mustdrop, initrx, initend,
                 fends, reading, dirty, viol>>

(* the driver reported the loss of the connection of side s (socket_disconnected) *)
SocketDisconnected(s) ==
  /\ up' = [up EXCEPT ![s] = FALSE]
  /\ dirty' = (dirty \/ (up[1] /\ up[2]))   \* nobody had dropped it before: the network did
  /\ UNCHANGED <<mode, slen, hw, given, extra, queued, qend, tamp, tub, mustdrop, initrx, initend,
                 fends, reading, viol>>

(* The harness has flushed everything: unlimited socket space, process_events on both sides,     *)
(* every byte in flight read, until nothing moves any more.  complete = no side is left with a  *)
(* partially accepted write or an unread stream.                                                 *)
Quiesce(complete) ==
  LET clean == ~dirty
      allDelivered == \A d \in 1..2 : Raw(Other(d)) \/ ~Undelivered(d)
      alive == \A s \in 1..2 : Raw(s) \/ up[s]
      noticed == \A d \in 1..2 :
                   (mustdrop[d] /\ complete /\ ~Raw(Other(d)) /\ given[d] > tamp[d]) => ~up[Other(d)] IN
  /\ mode # "off"
  /\ viol' = Flag(Flag(viol, clean /\ ~(allDelivered /\ alive /\ complete), "ExactDelivery"),
                  ~noticed, "TamperDisconnects")
  /\ UNCHANGED <<mode, up, slen, hw, given, extra, queued, qend, tamp, tub, mustdrop, initrx, initend,
                 fends, reading, dirty>>

Panic ==
  /\ viol' = Flag(viol, TRUE, "NoPanic")
  /\ UNCHANGED <<mode, up, slen, hw, given, extra, queued, qend, tamp, tub, mustdrop, initrx, initend,
                 fends, reading, dirty>>

-----------------------------------------------------------------------------
(* The clauses of the property. *)
ExactDelivery == viol # "ExactDelivery"        \* delivered = prefix of queued, in order, intact;
                                               \* equal at quiescence of an undisturbed connection
TamperDisconnects == viol # "TamperDisconnects" \* nothing at/after a tampered byte is delivered and
                                               \* the connection is dropped once the unit is complete
InitFirst == viol # "InitFirst"                \* no message reaches a handler before the peer's Init
NoPanic == viol # "NoPanic"
=============================================================================
