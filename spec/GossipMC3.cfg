SPECIFICATION MCSpec
CONSTANTS
  U = 3
  MaxOps = 14
  FailCs = {}
  FailNs = {}
  PruneTs = {250}
  RgsSnaps = {}
  ResolveCs = {}
  WithReload = FALSE
CONSTRAINT Bound
VIEW View
INVARIANT OnlyAuthentic
INVARIANT NeverOlder
INVARIANT NodeCleanup
INVARIANT FailedStayOut
INVARIANT Confluence
INVARIANT CodeWithinSpec
INVARIANT EmitScripts
CHECK_DEADLOCK TRUE
