SPECIFICATION TraceSpec
CONSTANT Relax = {"C05"}
INVARIANT TypeOK
INVARIANT ExactlyOnce
INVARIANT NonNegative
POSTCONDITION TraceAccepted
CHECK_DEADLOCK FALSE
