SPECIFICATION MCSpec
CONSTANTS
  NP = 1
  K = 3
  MaxSend = 2
  MaxDup = 0
  MaxRestart = 0
  Idem = 1
  MaxOps = 11
  MaxRetry = 1
  Stale = FALSE
  Outcomes = {"sent", "wip", "ref", "hc"}
  MppRetry = {0, 1}
  Bug = "none"
CONSTRAINT Bound
VIEW View
INVARIANT NeverBoth
INVARIANT DesignSane
INVARIANT EmitScripts
CHECK_DEADLOCK TRUE
