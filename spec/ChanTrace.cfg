SPECIFICATION TraceSpec
CONSTANT Relax = {}
INVARIANT TypeOK
INVARIANT CountersSane
INVARIANT ExactlyOnce
INVARIANT NonNegative
POSTCONDITION TraceAccepted
CHECK_DEADLOCK FALSE
