---------------------------- MODULE MonBroadcast ----------------------------
(***************************************************************************)
(* C05 -- a commitment transaction the node has handed to the broadcaster   *)
(* is never revoked afterwards, whoever asked for the broadcast.             *)
(*                                                                         *)
(* Design model of one endpoint A at the granularity of the split between   *)
(* ChannelManager and ChannelMonitor: the USER asks A's monitor (not its     *)
(* manager) to broadcast the latest holder commitment N of a live channel.   *)
(* The monitor queues the transaction and must LOCK itself                   *)
(* (holder_tx_signed): from then on it refuses every update, so the manager  *)
(* -- which learns of the closure only when it next looks at the monitor's   *)
(* events -- cannot complete the monitor update for the peer's next          *)
(* commitment_signed and therefore never releases the revoke_and_ack that    *)
(* would reveal the secret of N.  Lock = FALSE is the planted defect of a    *)
(* broadcast path that forgets the flag.                                     *)
(*                                                                         *)
(* What the peer has in flight towards A when the broadcast happens, and     *)
(* how many of those messages A's manager handles before it notices, vary.   *)
(* Every terminal behaviour is printed as a script for the engine channet.   *)
(***************************************************************************)
EXTENDS Naturals, Sequences, TLC, Json

CONSTANTS Lock,        \* TRUE: the library's rule; FALSE: planted defect
          Kinds        \* what the peer is in the middle of: subset of {"add", "reply", "remove", "fee"}

VARIABLES
  kind,        \* which exchange is in flight
  queue,       \* the peer's messages on their way to A, in order
  broadcast,   \* commitment number A's monitor has broadcast (0: none)
  locked,      \* the monitor refuses updates
  holderN,     \* number of A's latest holder commitment
  revoked,     \* highest commitment number whose secret A has released
  noticed,     \* A's manager has processed the monitor's events (channel closed there too)
  handled      \* messages A's manager handled between the broadcast and noticing

vars == <<kind, queue, broadcast, locked, holderN, revoked, noticed, handled>>

\* the peer's messages for each kind of exchange ("cs" is the commitment_signed that makes A owe a revocation)
Flight(k) == CASE k = "add"    -> <<"update_add_htlc", "cs">>
               [] k = "reply"  -> <<"raa", "cs">>               \* the peer answers A's own update
               [] k = "remove" -> <<"update_fulfill_htlc", "cs">>
               [] k = "fee"    -> <<"update_fee", "cs">>

Init == /\ kind \in Kinds /\ queue = Flight(kind)
        /\ broadcast = 0 /\ locked = FALSE /\ holderN = 1 /\ revoked = 0 /\ noticed = FALSE /\ handled = 0

\* the user calls ChannelMonitor::broadcast_latest_holder_commitment_txn
UserBroadcast ==
  /\ broadcast = 0
  /\ broadcast' = holderN /\ locked' = Lock
  /\ UNCHANGED <<kind, queue, holderN, revoked, noticed, handled>>

\* A's manager handles the next message of the peer (it has not looked at the monitor's events yet)
Handle ==
  /\ queue # <<>> /\ ~noticed
  /\ queue' = Tail(queue)
  /\ handled' = IF broadcast > 0 THEN handled + 1 ELSE handled
  /\ IF Head(queue) = "cs"
     THEN \* the new holder commitment needs a monitor update; only if the monitor takes it is the old one revoked
          IF locked THEN UNCHANGED <<holderN, revoked>>
          ELSE holderN' = holderN + 1 /\ revoked' = holderN
     ELSE UNCHANGED <<holderN, revoked>>
  /\ UNCHANGED <<kind, broadcast, locked, noticed>>

\* the manager processes the monitor's HolderForceClosed event: the channel is closed there as well
Notice ==
  /\ broadcast > 0 /\ ~noticed
  /\ noticed' = TRUE
  /\ UNCHANGED <<kind, queue, broadcast, locked, holderN, revoked, handled>>

Done == noticed /\ UNCHANGED vars

Next == UserBroadcast \/ Handle \/ Notice \/ Done
Spec == Init /\ [][Next]_vars

-----------------------------------------------------------------------------
\* C05: the commitment that was broadcast is not revoked
NeverRevokeBroadcast == broadcast > 0 => revoked < broadcast
EmitScripts == noticed => PrintT(<<"SCRIPT", ToJson([kind |-> kind, before |-> Len(Flight(kind)) - Len(queue) - handled, then |-> handled])>>)
=============================================================================
