------------------------------ MODULE SpvTrace ------------------------------
(* Trace validation for C20: every recorded execution of the real SpvClient /
   init::synchronize_listeners must be a behaviour of SpvAbstract.  A trace file
   holds many runs; each starts with a `reset` record carrying the block tree. *)
EXTENDS SpvAbstract, Json, IOUtils

VARIABLE l

Rec == ndJsonDeserialize(IOEnv.TRACE)

tvars == <<avars, l>>

TraceInit ==
  /\ l = 1
  /\ nb = 0 /\ parent = <<>> /\ bwork = <<>> /\ srcTip = 0 /\ nl = 1
  /\ ltip = <<0>> /\ phase = "dead" /\ startTip = <<0>> /\ faulted = FALSE
  /\ moved = <<FALSE>> /\ connd = <<FALSE>>

IsEvent(e) == l <= Len(Rec) /\ Rec[l].ev = e /\ l' = l + 1

TReset ==
  /\ IsEvent("reset")
  /\ LET r == Rec[l] IN
     /\ nb' = Len(r.parent)
     /\ parent' = [b \in 1..Len(r.parent) |-> r.parent[b]]
     /\ bwork' = [b \in 1..Len(r.parent) |-> r.work[b]]
     /\ srcTip' = r.src
     /\ nl' = Len(r.ltips)
     /\ ltip' = [i \in 1..Len(r.ltips) |-> r.ltips[i]]
     /\ startTip' = [i \in 1..Len(r.ltips) |-> r.ltips[i]]
     /\ moved' = [i \in 1..Len(r.ltips) |-> FALSE]
     /\ connd' = [i \in 1..Len(r.ltips) |-> FALSE]
     /\ faulted' = FALSE
     /\ phase' = "idle"

TSetTip == IsEvent("set_tip") /\ SetTip(Rec[l].b)
TPollBegin == IsEvent("poll_begin") /\ PollBegin(FALSE)
TSyncBegin == IsEvent("sync_begin") /\ SyncBegin(FALSE)
TFault == IsEvent("fault") /\ Fault
TDisc == IsEvent("disc") /\ Disconnected(Rec[l].i, Rec[l].to)
TConn == IsEvent("conn") /\ Connected(Rec[l].i, Rec[l].b, Rec[l].h)
TPollEnd == IsEvent("poll_end") /\ PollEnd(Rec[l].res, Rec[l].flag)
TSyncEnd == IsEvent("sync_end") /\ SyncEnd(Rec[l].ok, Rec[l].tip)
\* source requests are logged for diagnostics only
TReq == IsEvent("req") /\ UNCHANGED avars

TraceNext == TReset \/ TSetTip \/ TPollBegin \/ TSyncBegin \/ TFault \/ TDisc \/ TConn
             \/ TPollEnd \/ TSyncEnd \/ TReq

TraceSpec == TraceInit /\ [][TraceNext]_tvars

TraceAccepted ==
  LET d == TLCGet("stats").diameter IN
  IF d - 1 = Len(Rec) THEN TRUE
  ELSE /\ PrintT(<<"REJECT", d, Len(Rec)>>)
       /\ FALSE

TreeInv == phase = "dead" \/ TreeOK
=============================================================================
