SPECIFICATION MCSpec
CONSTANTS
  MaxPendings = {2, 3}
  MaxUpd = 3
  MaxFaults = 1
  MaxCrashes = 1
  MaxCleanups = 0
  MaxSyncs = 0
  Kinds = {"pre", "fc", "pp"}
  MaxCloses = 1
  MaxArchives = 1
  MaxDeferred = 1
  RefusedAsUpdate = FALSE
VIEW View
INVARIANT CrashRecoveredCoversReported
INVARIANT CrashRecoveredIsSomeInMemoryState
INVARIANT CrashRecoveredNotFromTheFuture
INVARIANT CleanupSafe
INVARIANT RecoveredCoversReported
INVARIANT EmitScripts
CHECK_DEADLOCK TRUE
