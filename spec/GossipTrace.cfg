SPECIFICATION TraceSpec
INVARIANT OnlyAuthentic
INVARIANT NeverOlder
INVARIANT NodeCleanup
INVARIANT FailedStayOut
INVARIANT Confluence
POSTCONDITION TraceAccepted
CHECK_DEADLOCK FALSE
